"""C13 Every input is answered with output or a located diagnostic (DESIGN.md §3 C13).

Static disciplines whose breach is a crash (SIGSEGV / SIGABRT), an "internal error" or a silent failure on some input.
Engine: sa/lib_c13.py (forward guard-fact analysis over clang's typed AST, bounded disjunctive, per function, with
one-level summaries computed to a fixpoint over all units) plus Engine I (sa/interp.py) for the witness check of R13.4.

  R13.1 nullable dereference   every dereference of a value from a nullable source is dominated by a non-null fact.
                               Sources: frozen field table (NULLABLE_FIELDS), the global cond_incl, and *derived* tables:
                               parameters that receive NULL (literal NULL at a call site, transitively), functions that
                               can return NULL (own `return NULL`, transitively; libc list).  Callee summaries: parameters
                               dereferenced unconditionally, facts that hold on return (guards/predicates), constructor kinds.
  R13.2 variant fields         a pointer field of Node/Type assigned only when constructing kinds K (derived from all stores)
                               is not read under a dominating kind fact that excludes K.
  R13.3 size dispatch          sizes that can reach a dispatcher ending in unreachable(): kinds possible at the call (caller's
                               guards + typing relation derived from add_type) x size table read from type.c; a helper that hands
                               `param...->size` on without a guard of its own is judged under the kinds its call sites establish,
                               and every call site gets the obligation that its dominating guards admit accepted sizes only; plus the
                               keyword dispatch of declspec vs. is_typename's table.
  R13.4 assertions             assert() sites: unreachable by guard facts / value sets, or (struct-return helpers) interpreted
                               on a witness catalogue of aggregates <= 16 bytes.
  R13.5 argv bounds            every option that consumes argv[++i] is validated by take_arg()'s loop.
  R13.6 located diagnostics    token argument of every error_tok/warn_tok is never a may-be-NULL value; verror_at prints
                               "file:line: " from its arguments; error* exit non-zero.
  R13.7 subprocess status      the code after wait() exits non-zero for every exit code 1..255 and every signal (+core).
  R13.6L line exists           every token of a file, the end-of-input token included, is stamped with the physical line count >= 1
                               (byte-loop analysis of C18's R18.3, reported here).
  R13.8 member bases           every type kind the parser accepts as the base of `.member` is given an address by gen_addr where it handles
                               a node kind conditionally (directly, or through a node field the parser sets for every accepted kind).
  R13.9 end marker             token lists end in a TK_EOF element whose `next` is NULL: the successor of a token is dereferenced only where
                               the token is known not to be TK_EOF (kind test, successful equal() with a non-empty string, precondition
                               established by every caller, callee that diagnoses the marker) or after a null test.
  R13.10 phase order           CR LF -> LF before line splicing before tokenizing.
  R13.11 host division         an integer `/`, `%` of the compiler itself (or an argument handed to a parameter the callee divides by) whose divisor is a
                               value of the input (derived: functions that can return Node.val / Token.val, transitively) is dominated by a fact that
                               excludes 0; a signed division with both operands from the input excludes -1 too; such a value is not stored unchecked into
                               a field the compiler divides by.  Divisors that are the compiler's own data (capacity, sizes, alignments) are listed, not judged.
  R13.12 unevaluated text      the evaluators (recursive value functions over Node, derived) visit the right operand of && / || and the arms of ?: only
                               under the matching outcome of a test of the controlling operand's value; the #elif arm hands its line to a function that
                               reaches the evaluators only where the flag it sets when a group is taken is known to be false.
  R13.13-R13.16                a diagnostic of the front end is not reachable on a construct C11 allows (a valid program must be answered with output).  The parser
                               functions that decide from a finite description whether a construct is diagnosed are interpreted (Engine I, sa/lib_c13decl.py) on
                               every description of that kind that an independent statement of the C11 rule calls valid; a diagnostic on a fully determined path is
                               a violation, one that depends on an unknown value is undecided.
  R13.13 valid redeclarations  function(): every sequence of declarations of one function (storage class x inline x body) after every history function() itself can
                               have produced (closure over the reachable Obj states); only `static` after external linkage and a second body are errors.
  R13.14 valid specifier lists declspec(): storage-class / function specifiers, qualifiers, _Atomic, _Alignas, the type-specifier multisets of 6.7.2p2, several orders,
                               with and without VarAttr: consumed completely, no diagnostic.
  R13.15 valid operand types   new_add/new_sub (6.5.6), funcall (callee kind, argument count), add_type (assignment, indirection), unary & , declaration (complete object
                               types), enum tags, member access, bit-field types: witness types of every allowed class reach no diagnostic.
  R13.16 constant expressions  the evaluators (derived: recursive value functions over Node, through their entry points) yield a value for every operator of 6.6p6/p8
                               and for the address-constant forms of 6.6p9; is_const_expr recognises the integer forms.

  R13.17 stack counter        assert(depth == 0) (the code generator's count of pushed slots is back at 0 at the end of every function) cannot fail: the obligations of
                               C20 that prove it are re-issued here -- `depth` moves exactly with the emitted %rsp motion on every path of every gen_expr/gen_stmt/gen_addr
                               arm (R20.3), every arm is %rsp-neutral given the same of its children (the %rsp part of R20.1/R20.2/R20.7), and everything pushed for a call
                               (arguments, padding, alignment) is released after it for every argument class and stack parity (R20.5).
  R13.18 end-of-input checks  a diagnostic that fires on the mere fact that a stack-like global is non-empty (`if (cond_incl) error(unterminated ...)`) is a check for the end of the
                               translation unit: the function that makes it is not reachable from the loop that pushes onto that global, where the non-empty state is what every
                               valid program passes through (derived: pushers, their loops, the call graph below them).
  R13.19 host array indices   a subscript of one of the compiler's own arrays whose index is a value of the input (result of the constant-expression evaluators, a literal's value,
                               or what a callee stored through an int* out-parameter, derived) is dominated on every path by a test that excludes negative values and by a test that
                               limits it from above (bounds established by a callee on all its returns are carried to the caller).
  R13.20 recursion progresses a direct self-call of a front-end function is not a re-entry with the same input: (a) it does not pass every parameter on unchanged after a prefix
                               that has no effect but tests (that call can only repeat itself until the stack overflows); (b) where the arm that recurses was selected by the kind of
                               what a parameter points to and the argument is a freshly computed object (every definition of the local is a call result, it is no part of the
                               parameter), the function has examined the new object (excluded that kind) -- an unexamined one can take the same arm again at every level.

  R13.21 index below count    an array field whose storage is allocated with an element count reachable from the owner (derived from the allocation sites: `X->F = calloc(X->G->H, ..)`)
                               is subscripted only with indices that the dominating comparisons place strictly below that count: the guard-fact engine remembers, per path, what it is
                               `<` and `<=` (comparisons with an element count, with a variable that is itself so limited, bounds a callee establishes on every return for what it stores
                               through an out-parameter); an index whose tightest known limit is `<= count` addresses the element one past the allocation.
  R13.22 printer re-entry     printing a diagnostic terminates: each function the diagnostic printer runs (call graph) calls no diagnostic function (an obligation of its own per function;
                               all hold = the printer is never re-entered); code that it runs over the reported line and that can itself issue a located diagnostic
                               (derived from the call graph) reports a position that is not after its cursor (Engine I over every path), is applied only to cursors strictly inside the
                               window it was given, and the printer's window ends at the reported position; else the nested diagnostic meets the same bytes again: unbounded recursion.
  R13.23 assembler accepts    the immediates of the bit-field templates fit a sign-extended 32-bit operand for every width/offset the layout admits (C04 R04.1/R04.2 re-issued):
                               assembly that the assembler rejects is not output.

  R13.24 diagnostic's file     a token made from a template token after tokenizing (converted string literal, tokens of builtin macros, # and ##) carries the template's file
                               identity and line, not the stamp of the file tokenized last: error_tok() prints tok->file->name (C18 R18.5 re-issued).
  R13.25 function entry        the entry function of the code generator (parameter offsets, saving register-passed parameters: store_gp/store_fp with MIN(8,size) / size-8,
                               assert(size <= 16)) interpreted (Engine I) on a one-definition program per witness parameter type (scalars, aggregates of every eightbyte
                               classification, aggregates without members, an aggregate in memory) x register pressure: no unreachable(), no failing assert.
  R13.26 NULL into non-null    R13.1 takes every pointer field outside the nullable table for non-null; a value read from a field of the table (without `implied` kinds) is not
                               stored into such a field, directly or through a parameter that a function stores there unconditionally (derived, transitive), unless a null test or
                               a callee that assigns the field on every return (derived from return states, recursive functions included) dominates.  Type.vla_size is in the table.
  R13.16 (extended)            offsetof as include/stddef.h defines it (read from the header; member, nested member, array element) is evaluated by the integer evaluators and
                               recognised by is_const_expr.
  R13.12 (refined)             a helper of the evaluators that leaves the kind dispatch to its callers is judged under the kinds its callers hand it (eval_flonum_binary).
  R13.7 (refined)              a wait whose result is kept (`ret = waitpid(pid, &status, 0)`) succeeded with the awaited pid when it delivered a status.

  R13.27 initializer separators the separator protocol of the initializer-list walk (C05 R05.14's engine) with member lists free: unnamed bit-fields (no part in initialization),
                               named bit-fields, anonymous members -- `,` is demanded only behind an element, so no valid initializer is diagnosed (sa/lib_c13sep.py).
  R13.28 probe loops           the unreachable() that closes the probe loops of hashmap.c is dead: `used` counts every non-NULL slot (C17 R17.2-R17.5 re-issued) and nothing else
                               writes the accounting fields.
  R13.29 phase globals         a static pointer global that the code resets with a literal NULL is dereferenced only where a non-null state is established on every way the
                               function is reached (structured must-analysis + greatest fixpoint over the unit's call graph), judged per phase: before the first store, after a
                               reset by a callee (sa/lib_c13glob.py).
  R13.30 position travels      `if (!X->F) error_tok(X->P, ..)`: pairs (F, P) derived; a function that stores F into an object field by field stores P too -- decided per OBJECT
                               (a store to the root variable of the base starts another object) and on every path: an object that has received F has received P when the function
                               lets go of it (variable rebound, return, end); a replacement derived from an object whose F the function has read carries F over if a sibling does.
  R13.34 decide, then judge    a function with a boolean / pointer result and a "not mine" exit (`return false` / NULL: the caller reads the same input another way) issues a
                               diagnostic (error_tok, error_at, error, warn_tok) only where no "not mine" exit is still ahead (sa/lib_c13try.py).
  R13.36 alignment from input  a constant expression stored into an `align` field is tested to be a power of two first (`v & (v - 1)`, directly or in a helper): the field reaches
                               `.align` unchanged and the assembler rejects 3, 5, 6 .. (sa/lib_c13lim.py).
  R13.37 include nesting       the function that splices a tokenized file into the input refuses a nesting beyond a limit (diagnostic under a comparison of a counted-up integer
                               with a constant): a self-including file is otherwise never answered (sa/lib_c13lim.py).
  R13.38 paren after pointers  a declarator function that reads `(` as a nested declarator (self-call behind the parenthesis) first excludes the parameter-list reading of its other
                               path by the next token: a type name or `)` begins a parameter list (C11 6.7.6.3p11) (sa/lib_c13lim.py).
  R13.35 directive located     a diagnostic about a preprocessing directive -- also one raised at the END of its operands, at the end marker of the copied line -- names the
                               directive's own line and file (obligations of C18 R18.9, re-issued).

  R13.31 flush examined       a function that writes a file through a stream opened for writing (fopen "w"/"a"/"+", stdout as "-", a function returning such a stream) examines the
                               RESULT OF FLUSHING it (fflush/fclose in a condition that ends the process or the function, ferror after an fflush, or a helper that does so for its
                               parameter on every way through it: derived) after its last write and before it gives the stream up; ferror() alone sees only what has already left
                               the stdio buffer, so an output smaller than the buffer on a full disk would be a silent success (sa/lib_c13out.py).
  R13.32 postfix forms        the parser function that owns the postfix-operator loop (derived: the loop tests the token against "[", ".", "->") leads every form it recognises
                               into that loop; a `return` before the loop is a postfix-expression (C11 6.5.2p1: a compound literal is one) that cannot be subscripted or followed
                               by . -> ++ (sa/lib_c13post.py).
  R13.33 compatible types     is_compatible() interpreted on pairs of separately built equal types (typedef copies of scalars, pointers, arrays of equal / unknown length, functions):
                               true on every path; _Generic without `default` is otherwise a diagnostic on a valid program (sa/lib_c13post.py).
  R13.17 (extended)            every aggregate shape of the psABI vocabulary behind k integer and l floating scalar arguments for the whole register-exhaustion grid (one class run out,
                               the other not): the sites that decide "in registers" (push as memory argument / pop into registers) agree, the pushed slots are released.

Not implemented (stated, not claimed): error_at's pointer lies inside current_file->contents (R13.6, second clause);
the two asserts of hashmap.c:rehash (R13.4, listed).
"""
from ..build import AnalysisBroken
from .. import lib_c13 as L
from .. import lib_c13decl as LD

# --------------------------------------------------------------------------------------------
# R13.1 frozen table: fields the code itself leaves NULL for some objects (each confirmed by reading
# the constructor sites).  `implied`: a kind fact on the owner that makes the field non-null;
# `only_when`: the field is optional only for these owner kinds (otherwise not judged).
NULLABLE_FIELDS = {
    ('Member', 'name'): {'why': 'unnamed bit-fields and anonymous struct/union members have no name'},
    ('Type', 'base'): {'implied': ('kind', frozenset(['TY_PTR', 'TY_ARRAY', 'TY_VLA'])), 'why': 'only pointer, array and VLA types have a base type'},
    ('Type', 'return_ty'): {'implied': ('kind', frozenset(['TY_FUNC'])), 'why': 'only function types have a return type'},
    ('Type', 'name'): {'why': 'abstract declarators have no name'},
    ('Initializer', 'expr'): {'why': 'elements without an initializer expression'},
    ('Initializer', 'mem'): {'why': 'union initializer without a selected member'},
    ('VarScope', 'var'): {'why': 'typedef and enum-constant scope entries have no variable'},
    ('Node', 'lhs'): {'only_when': ('kind', frozenset(['ND_RETURN'])), 'why': '`return;` has no operand'},
    ('Node', 'els'): {'only_when': ('kind', frozenset(['ND_IF'])), 'why': '`if` without `else`'},
    ('Node', 'init'): {'only_when': ('kind', frozenset(['ND_FOR'])), 'why': '`while` / `for(;..` have no init clause'},
    ('Node', 'inc'): {'only_when': ('kind', frozenset(['ND_FOR'])), 'why': '`while` / `for(..;)` have no increment'},
    ('Node', 'cond'): {'only_when': ('kind', frozenset(['ND_FOR'])), 'why': '`for(;;)` has no condition'},
    ('Type', 'vla_size'): {'only_when': ('kind', frozenset(['TY_VLA'])), 'why': 'a variable-length array type has no size variable until compute_vla_size() has run on it'},
}
NULLABLE_GLOBALS = {'cond_incl': 'no conditional inclusion is open'}

# Facts established in *another* function (callers, or the constructor of the object); each confirmed by
# reading.  (unit, function, type-rooted path) -> why.  These are assumptions of the check, printed in the evidence.
ASSUMED = {
    ('parse.c', 'array_initializer1', 'param#3(Initializer*)->ty->base'): 'only caller initializer2 dispatches on init->ty->kind == TY_ARRAY',
    ('parse.c', 'array_initializer2', 'param#3(Initializer*)->ty->base'): 'callers dispatch on init->ty->kind == TY_ARRAY',
    ('parse.c', 'string_initializer', 'param#3(Initializer*)->ty->base'): 'only caller initializer2 dispatches on init->ty->kind == TY_ARRAY',
    ('parse.c', 'count_array_init_elements', 'param#2(Type*)->base'): 'only caller array_initializer1 passes init->ty of an array',
    ('parse.c', 'asm_stmt', 'param#2(Token*)->ty->base'): 'a TK_STR token carries an array type (tokenize.c read_string_literal)',
    ('parse.c', 'asm_stmt', 'Token->ty->base'): 'a TK_STR token carries an array type (the same, when the cursor is a local)',
    ('preprocess.c', 'join_adjacent_string_literals', 'Token->ty->base'): 'a TK_STR token carries an array type',
    ('parse.c', 'function', 'Type->return_ty'): 'caller parse() calls function() only when is_function() saw TY_FUNC',
    ('parse.c', 'stmt', 'current_fn->ty->return_ty'): 'current_fn is a function object',
    ('codegen.c', 'copy_struct_reg', 'current_fn->ty->return_ty'): 'current_fn is a function object',
    ('codegen.c', 'copy_struct_mem', 'current_fn->ty->return_ty'): 'current_fn is a function object',
    # R13.9 (successor of a token that cannot be the end marker for reasons outside the engine's reach)
    ('tokenize.c', 'add_line_numbers', 'param#1(Token*)->next'): 'the end marker starts at the terminating NUL, where the byte scan stops (R13.6L terminating-NUL-visited): the cursor is not used after it',
    ('parse.c', 'resolve_goto_labels', 'Node->tok->next'): 'the token of a goto node is the `goto` keyword; stmt() has read the label name that follows it',
}


# R13.9: lists that are ended by a marker element (not by NULL): record -> (kind field, enumerator of the marker, link field).
# The marker's link is NULL, so the link of an element is a valid cursor only if the element is known not to be the marker.
END_MARKER = {'Token': ('kind', 'TK_EOF', 'next')}
# predicates p(tok, str) that are true only if the token's text has the length of str (shape checked by r139_pre): with a
# non-empty string the token is not the marker, whose length is 0 (checked by r139_pre)
LEN_PREDICATES = {'equal': (0, 1, 'true')}
# the same for functions whose body the engine cannot follow that far; each confirmed by reading (assumptions of the check):
MARKER_MODELS = {
    'is_typename': ((0, None, 'true'), 'true only for a keyword (looked up by the token\'s length in a table of non-empty keywords) or a typedef name (find_typedef tests TK_IDENT); the marker has length 0'),
    'struct_ref': ((1, None, 'return'), 'returns only if get_struct_member() finds a member whose (non-empty) name has the token\'s length; for the marker (length 0) "no such member" is diagnosed'),
}
MARKER_LEN_FIELD = {'Token': 'len'}
# functions in which `c != e` compares a cursor with a position reached from it through the links: c is before e, so it is not the marker
CURSOR_COMPARE = {('preprocess.c', 'join_adjacent_string_literals'): 'tok2 is reached from tok1 by following next over string literals; every token before it is a string literal'}
FIELD_RULE = {'Token.next': 'R13.9'}

# R13.11: integer fields that hold a value written in the input (any 64-bit value, 0 and -1 included); each confirmed by reading.
# Functions that can return such a value are derived from these (transitively, lib_c13.solve).
INPUT_VALUE_FIELDS = {
    ('Node', 'val'): 'the value of an integer constant of the program',
    ('Token', 'val'): 'the value of a numeric literal of the program',
}
# R13.12: operands that C leaves unevaluated (C11 6.5.13p4, 6.5.14p4, 6.5.15p4; 6.6p3 footnote: a constant expression may contain
# a division by zero in an operand that is not evaluated).  node kind -> (controlling operand, {lazy operand: outcome of the controlling operand that selects it})
LAZY_OPERANDS = {
    'ND_LOGAND': ('lhs', {'rhs': True}),
    'ND_LOGOR': ('lhs', {'rhs': False}),
    'ND_COND': ('cond', {'then': True, 'els': False}),
}
# R13.12: directive names whose controlling expression is skipped when an earlier group of the same conditional was taken (C11 6.10.1p6)
LAZY_DIRECTIVES = ('elif',)


def _world(P):
    W = L.World(P)
    W.nullable_fields = dict(NULLABLE_FIELDS)
    W.nullable_globals = dict(NULLABLE_GLOBALS)
    for rec, (kf, marker, link) in END_MARKER.items():
        en = None
        for u in W.units.values():
            en = en or u.enum_of.get(marker)
        uni = W.enum_universe.get(en) if en else None
        if not uni or marker not in uni:
            raise AnalysisBroken('the end marker %s of %s lists vanished' % (marker, rec))
        W.nullable_fields[(rec, link)] = {'implied': (kf, frozenset(uni - frozenset([marker]))),
                                          'why': 'the %s element is the last one of every %s list, its %s is NULL' % (marker, rec, link)}
    W.end_marker = dict(END_MARKER)
    W.len_predicates = dict(LEN_PREDICATES)
    for f, (m, why) in MARKER_MODELS.items():
        W.len_predicates[f] = m
    W.cursor_compare = dict(CURSOR_COMPARE)
    W.nonempty_strs = W.nonempty_string_params()
    W.zero_fields = dict(INPUT_VALUE_FIELDS)
    W.evaluators = _evaluators(W)
    W.record_calls |= W.evaluators
    W.reach_eval = _reaching(W, W.evaluators)
    for un, g, ifs, arm in _directive_arms(W):
        for c in arm.calls():
            if c.callee() in W.reach_eval:
                W.record_calls.add(c.callee())
    for (un, fn, path), why in ASSUMED.items():
        W.assumed_nonnull.setdefault((un, fn), set()).add(path)
    # R13.20: the states in which a function calls itself
    for un, u in W.units.items():
        if un != 'codegen.c':
            W.record_calls |= set(f for f, fd in u.functions.items() if fd.calls(f))
    return W


def _evaluators(W):
    """functions of the front end that compute the value of an expression tree: the first parameter is a Node, the result is an
    arithmetic value (not a truth value, not a pointer) and the function recurses into the operands"""
    out = set()
    for un, u in W.units.items():
        if un == 'codegen.c':
            continue
        for f, fd in u.functions.items():
            ps = [c for c in fd.inner if c.kind == 'ParmVarDecl']
            rt = (fd.type or '').split('(')[0].strip()
            if ps and L.rec_of(ps[0].type) == 'Node' and L.is_ptr_type(ps[0].type) and f in W.recursive and len(W.fn_unit.get(f, ())) == 1 \
                    and not L.is_ptr_type(rt) and rt not in ('void', '_Bool', 'bool'):
                out.add(f)
    return out


def _reaching(W, targets):
    """functions from which a call chain leads to one of `targets` (targets included)"""
    callers = {}
    for un, u in W.units.items():
        for f, fd in u.functions.items():
            for c in fd.calls():
                if c.callee():
                    callers.setdefault(c.callee(), set()).add(f)
    out = set(targets)
    work = list(targets)
    while work:
        g = work.pop()
        for f in callers.get(g, ()):
            if f not in out:
                out.add(f)
                work.append(f)
    return out


def _directive_arms(W):
    """(unit, function, IfStmt, then-branch) for every `if (... equal(tok, "<directive>") ...)` with a directive of LAZY_DIRECTIVES"""
    out = []
    for un, u in sorted(W.units.items()):
        for g, fd in sorted(u.functions.items()):
            for ifs in fd.find('IfStmt'):
                hit = False
                for c in ifs.inner[0].calls():
                    a = c.args()
                    if c.callee() in W.len_predicates and a and a[-1].str_value() in LAZY_DIRECTIVES:
                        hit = True
                if hit and len(ifs.inner) > 1:
                    out.append((un, g, ifs, ifs.inner[1]))
    return out


def run(P, rep, tier):
    for un in ('parse.c', 'type.c', 'codegen.c', 'main.c', 'tokenize.c', 'preprocess.c'):
        if un not in P.unit_names:
            raise AnalysisBroken('unit %s is not built any more' % un)
    rep.explanation = ('Crash/"internal error" disciplines decided on the sources: a forward guard-fact analysis (bounded disjunctive, per function, '
                       'one-level call summaries computed to a fixpoint over all units) proves every dereference of a value from a nullable source '
                       '(frozen field table, parameters that receive NULL, functions that return NULL) dominated by a non-null fact; variant fields are '
                       'derived from the constructor sites; size dispatchers are compared with the sizes their callers can pass under the callers\' kind '
                       'guards and the typing relation established by add_type; assertions of the struct-return helpers are interpreted on a witness catalogue of small aggregates; '
                       'the code after wait() is evaluated concretely for every exit code and every signal; '
                       'token lists are treated as ended by the TK_EOF element (successor NULL): the same guard-fact analysis, with kind facts from tests, from successful '
                       'equal() comparisons with non-empty strings and from preconditions that every caller establishes, proves each use of a successor; '
                       'gen_addr\'s conditional arms are compared with the type kinds the parser accepts as member bases; the line stamping of tokens is decided by the byte-loop analysis of C18. '
                       'host divisions whose divisor comes from the constant-expression evaluators are proved guarded against 0 (and -1 for signed ones) by the same guard facts; '
                       'the evaluators and the #elif arm are checked to leave alone what C leaves unevaluated (outcome of the controlling operand / group-taken flag remembered per path). '
                       'Acceptance of valid constructs: function(), declspec(), the additive/call/assignment/indirection typing checks and the constant-expression evaluators are interpreted on '
                       'concrete finite descriptions (specifier flags and declaration histories, token lists of specifiers, witness operand types, witness expression trees) that C11 allows; '
                       'none may reach a diagnostic. '
                       'The assertion on the code generator\'s stack counter is proved by re-issuing the stack-accounting obligations of C20 (R13.17). '
                       'End-of-translation-unit checks (a diagnostic whose only condition is that a stack-like global is non-empty) must not be reachable from the loop that pushes onto that '
                       'global (R13.18, call graph). Values of the input that index the compiler\'s own arrays are followed through out-parameters and loop counters by the guard-fact analysis and '
                       'must be bounded on both sides (R13.19). Direct self-calls must not re-enter with the same input (R13.20: identical parameters after an effect-free prefix; an unexamined '
                       'fresh object under the kind guard that selected the arm). '
                       'Subscripts of array fields whose element count the owner records (derived from the allocation sites) are compared with the relational bounds the dominating comparisons '
                       'establish: a tightest limit of `<= count` is an index one past the allocation (R13.21). Every function below the diagnostic printer in the call graph is shown to call no diagnostic function; where one does, the recursion diagnostic printer -> column computation -> examining function -> diagnostic is '
                       'proved to make progress: reported position not after the cursor (interpreted on every path), decoder applied strictly inside the window, window ends at the reported position (R13.22). '
                       'Every loop that runs while a diagnostic is printed moves one of the locals its condition tests by a non-zero amount on every path that completes an iteration; computed amounts are '
                       'bounded by the return values of the callee and the dominating guards (R13.39). '
                       'The bit-field templates\' immediates are encodable (obligations of C04 re-issued, R13.23). '
                       'Tokens made after tokenizing keep the file identity of their template (obligations of C18 R18.5 re-issued, R13.24). The entry function of the code generator is '
                       'interpreted on one-definition programs per witness parameter type and register pressure: no internal error, no failing assertion (R13.25). Values of nullable-table '
                       'fields (Type.vla_size among them) are not stored where every reader assumes a pointer, directly or through constructor parameters (derived), unless a null test or a '
                       'callee that assigns the field on every return dominates (R13.26). '
                       'Not decided: termination in general (loops, indirect recursion other than through the diagnostic printer), acceptance of all byte strings, recursion depth.')
    rep.assumptions += ['calloc/malloc/open_memstream succeed', 'every Node that reaches the code generator was typed by add_type and is not modified afterwards (typing relation injected into codegen.c)',
                        'a forced merge of analysis states (more than %d disjuncts, loop widening) makes disagreeing facts unknown, never may-be-NULL' % L.CAP, 'a callee does not reset an object field the caller has just tested (no alias kills); globals are killed only by direct writers',
                        'R13.9: the successor of the TK_EOF token is NULL; out-parameters (Token **rest) are not aliased; ' + '; '.join('%s() %s' % (f, why) for f, (m, why) in sorted(MARKER_MODELS.items()))
                        + '; ' + '; '.join('%s:%s %s' % (k[0], k[1], v) for k, v in sorted(CURSOR_COMPARE.items())),
                        'R13.11: values of the input enter through ' + ', '.join('%s.%s (%s)' % (k[0], k[1], v) for k, v in sorted(INPUT_VALUE_FIELDS.items())) + '; a narrowing conversion does not turn a non-zero value into 0; '
                        'divisors that are not values of the input (HashMap.capacity, Type.size, alignments) are invariants of the compiler\'s own data and are not judged',
                        'R13.12: a function that on every path returns 1 exactly after a non-zero test and 0 exactly after a zero test of an evaluator result for one Node parameter (derived from its return states) is a test of that node\'s value; '
                        'a test of a local that was initialised with an evaluator call and never assigned again is a test of that call; lazy operands are ' + '; '.join('%s: %s' % (k, ', '.join(sorted(v[1]))) for k, v in sorted(LAZY_OPERANDS.items())),
                        'a boolean field that every store sets to true only where a sub-object of the owner has validated kinds (derived, listed under derived_tables) implies those kinds where the field '
                        'is tested; the sub-object is not replaced afterwards; records also built by initializer lists are excluded',
                        'two pointer variables of which one is a plain copy of the other, neither assigned since, are equal: a store through one is a store through the other',
                        'R13.13-R13.16: the validity of each enumerated construct is stated from C11 (6.2.2, 6.5.x, 6.6, 6.7.x), independently of the code; functions outside the interpreted one and its '
                        'private helpers are opaque (declarator, assign, cast, const_expr, find_func, find_tag, get_struct_member are replaced by the contract "consumes its tokens, returns the described object"); '
                        'add_type leaves a node that already has a type alone',
                        'R13.17: the assumptions of C20 (children satisfy the contract, typing relation of add_type, stack effects per Intel SDM); x87-only imbalances are C20\'s, not re-issued',
                        'R13.18: every call inside the loop that contains the push can run while the global is non-empty (flow-insensitive over the loop body and the call graph below it)',
                        'R13.19: only values obtained in the function itself are judged (results of input-valued functions, literal-value fields, out-parameters a callee fills on every return); '
                        'a comparison with something that is not itself an unbounded value of the input counts as an upper limit (whether it is the right limit is not decided); '
                        '++ keeps a lower bound, -- an upper bound (no overflow)',
                        'R13.20: a function in W.pure has no effect; a local all of whose definitions are call results is no part of the parameter',
                        'R13.21: an array field has the element count of its allocation site for as long as the owner exists (owner and array are replaced together); where the index is compared with the '
                        'same count field of another type object than the owner\'s (a `ty` parameter next to the initializer), that object is assumed to describe the same array; an index with no known relation to a count is listed, not judged',
                        'R13.25: the witness catalogue stands for all parameter types (the prologue depends on kind, size, alignment and the floating/integer classification of each eightbyte only); '
                        'one parameter of the witness type after 0, 12 or 14 scalar parameters; gen_stmt and println are opaque',
                        'R13.26: only sources whose table entry has no `implied` kinds are judged (the others are judged at dereferences, R13.1); a parameter counts as stored into a field when the '
                        'store is unconditional; a callee establishes a field when every normal return has assigned it or excluded the kinds for which it is optional',
                        'R13.39: a loop whose condition reads memory is stuck only on a path without stores and without calls to functions that store; direction of the step and wrap-around are not judged',
                        'R13.22: the printer finds the start of the line at or before the reported position; the nested printer starts from the same line start, so it examines the same bytes in the same order',
                        'facts established in other functions, each confirmed by reading: ' + '; '.join('%s:%s %s (%s)' % (k[0], k[1], k[2], v) for k, v in sorted(ASSUMED.items()))]
    W = _world(P)
    engs = L.solve(W)
    flags = L.derive_flag_kinds(W, engs)
    if flags:
        # a flag that is set only for validated kinds: the functions that test it are analysed again with that invariant
        for (un, f), e in sorted(engs.items()):
            if un != 'codegen.c' and any(n.kind == 'MemberExpr' and n.name in flags for n in e.fd.walk()):
                engs[(un, f)] = L.Engine(W, W.units[un], f).run()
    pre = L.derive_entry_facts(W, engs, skip_units=('codegen.c',))
    rep.extra['end_marker_preconditions (each established by every caller)'] = {'%s:%s' % k: {'param#%d%s' % (i + 1, suf): sites for (i, suf), sites in sorted(v.items())} for k, v in sorted(pre.items())}
    rep.extra['derived_tables'] = {
        'nullable_params': sorted('%s#%d' % (f, i + 1) for (f, i) in W.nullable_params),
        'nullable_results': sorted(f for f in W.nullable_rets if f in W.fn_unit),
        'constructor_kinds': {f: (k if isinstance(k, str) else 'param#%d' % (k[1] + 1)) for f, k in sorted(W.ret_kind.items())},
        'fixpoint_rounds': W.rounds,
        'truth_helpers (return the truth value of an evaluator result for the parameter)': {f: 'param#%d' % (i + 1) for f, i in sorted(W.truth_helpers.items())},
        'flags_set_only_for_validated_kinds': {'%s.%s' % k: {suf: sorted(K) for suf, K in v.items()} for k, v in sorted(W.flag_kinds.items())},
    }
    rel = typing_relation(W, engs)
    rep.extra['typing_relation_from_add_type'] = {k: {'nonnull': sorted(v[0]), 'kinds': {p: sorted(f[1]) for p, f in v[1].items()}} for k, v in sorted(rel.items())}
    cu = W.units['codegen.c']
    hook = {'on_kind': lambda eng, S, base, K: _inject(rel, eng, S, base, K)}
    for f in cu.functions:
        engs[('codegen.c', f)] = L.Engine(W, cu, f, hooks=hook).run()
    r131(W, engs, rep)
    r132(W, engs, rep)
    r133(W, engs, rep)
    r133k(W, rep)
    r134(P, W, engs, rep)
    r135(W, rep)
    r136(W, engs, rep)
    r137(P, rep)
    r136_lines(P, rep)
    r138(W, engs, rep)
    r139_pre(W, rep)
    r1310_phases(P, rep)
    r1311(W, engs, rep)
    r1312(W, engs, rep)
    r1317(P, W, rep, tier)
    r1318(W, rep)
    r1319(W, engs, rep)
    r1320(W, engs, rep)
    r1321(W, engs, rep)
    r1322(P, W, rep)
    r1339(P, W, rep)
    r1323(P, rep, tier)
    r1324(P, rep)
    r1325(P, W, rep)
    r1326(W, engs, rep)
    r1327(P, rep)
    r1328(P, W, rep)
    r1329(P, W, rep)
    r1331(P, rep)
    r1332(P, rep)
    r1334(P, rep)
    r1335(P, rep)
    r1336(P, rep)
    for rule, fam in (('R13.13', LD.r1313_function), ('R13.14', LD.r1314_declspec), ('R13.15', LD.r1315_typing), ('R13.16', LD.r1316_constexpr)):
        try:
            fam(P, rep, rule)
        except AnalysisBroken as e:
            rep.undecided(rule, 'parse.c:engine:interpretation', 'the front-end function cannot be interpreted on concrete inputs: %s' % e)


def r1310_phases(P, rep):
    """translation phases 1 and 2 (C11 5.1.1.2) in tokenize_file: the pass that turns CR LF into LF runs before the pass that deletes
    backslash-newline, or a continuation line of a CRLF file keeps its backslash and a valid program is rejected. The passes are recognised by
    what they compare against, not by name: a function applied to the file buffer whose body tests for '\\r' is the newline pass, one that tests for
    a backslash followed by '\\n' without knowing '\\r' is the splice pass"""
    rep.rule('R13.10', 'tokenize_file normalises line ends (CR LF -> LF) before it splices continuation lines, and both before tokenizing', floor=1)
    u = P.unit('tokenize.c')
    fn = u.fn('tokenize_file')
    if fn is None:
        rep.undecided('R13.10', 'tokenize.c:tokenize_file', 'tokenize_file vanished'); return
    where = 'tokenize.c:%d' % fn.line

    def lits(f, seen=None):
        out = set()
        for n in f.walk():
            if n.kind == 'CharacterLiteral' and isinstance(n.value, int):
                out.add(n.value)
        return out
    seq = []
    for c in fn.calls():
        name = c.callee()
        if name in u.functions and name != 'tokenize_file' and c.args():
            L_ = lits(u.functions[name])
            role = None
            if 13 in L_:
                role = 'newline'
            elif 92 in L_ and 10 in L_ and len(u.params(name)) == 1:
                role = 'splice'
            if name == 'tokenize':
                role = 'tokenize'
            if role:
                seq.append((c.line, role, name))      # fn.calls() walks the body in evaluation order of its straight-line statements
    roles = [r for _, r, _ in seq]
    if 'splice' not in roles or 'tokenize' not in roles:
        rep.undecided('R13.10', 'tokenize.c:tokenize_file:phase-order', 'the splice pass / the tokenize call could not be recognised among %r' % (seq,), where=where); return
    if 'newline' not in roles:
        # no separate CR pass: the splice pass would have to know CR itself, which the role test above excludes
        rep.ob('R13.10', 'tokenize.c:tokenize_file:phase-order', False, 'no pass that handles carriage returns is applied to the file buffer before continuation lines are spliced (%r)' % (seq,), where=where); return
    ok = roles.index('newline') < roles.index('splice') < roles.index('tokenize')
    rep.ob('R13.10', 'tokenize.c:tokenize_file:phase-order', ok,
           'tokenize_file applies %s: continuation lines are spliced before CR LF is turned into LF, so backslash CR LF is not a line continuation and a valid CRLF source is rejected with a stray backslash' % ' -> '.join(n for _, _, n in seq), where=where)


# --------------------------------------------------------------------------------------------
def typing_relation(W, engs):
    """facts add_type() guarantees about a node of kind K when it returns (per kind: paths below the node that are
    non-null, kind sets of types below the node).  Kinds whose type the parser may set itself (then add_type returns
    early) are excluded.  Used as an assumption for the code generator: every node was typed and is not modified after."""
    tu = W.units.get('type.c')
    if tu is None or 'add_type' not in tu.functions:
        raise AnalysisBroken('type.c:add_type vanished')
    eng = L.Engine(W, tu, 'add_type', hooks={'keep_exit_states': True}).run()
    if not eng.params:
        raise AnalysisBroken('add_type has no parameter')
    p0 = '%s@%s' % (eng.params[0].name, eng.params[0].id)
    preset = set()
    for (un, f), e in engs.items():
        if f == 'add_type':
            continue
        for rec, fld, vs, node in e.stores:
            if rec == 'Node' and fld == 'ty':
                if vs is None or vs[0] != 'in':
                    return {}
                preset |= set(vs[1])
    groups = {}
    for S in eng.exit_states:
        kf = S.vs.get(p0 + '->kind')
        if kf and kf[0] == 'in' and all(isinstance(x, str) for x in kf[1]):
            for K in kf[1]:
                groups.setdefault(K, []).append(S)
    rel = {}
    for K, sts in groups.items():
        if K in preset:
            continue
        J = L.join_states(sts)
        nn = set(q[len(p0):] for q, v in J.nul.items() if q.startswith(p0 + '->') and v[0] == 'NN')
        vs = {q[len(p0):]: f for q, f in J.vs.items() if q.startswith(p0 + '->') and f[0] == 'in' and q != p0 + '->kind'}
        if nn or vs:
            rel[K] = (nn, vs)
    return rel


def _inject(rel, eng, S, base, K):
    r = rel.get(K)
    if r is None:
        return
    for suf in r[0]:
        cur = S.nul.get(base + suf)
        if cur is None or cur[0] in ('U',):
            S.nul[base + suf] = ('NN', None)
    for suf, f in r[1].items():
        if base + suf not in S.vs:
            S.vs[base + suf] = f


# --------------------------------------------------------------------------------------------
def _src_name(eng, d):
    s = d['src']
    if s is None:
        return 'value'
    if s[0] == 'field':
        return s[1]
    if s[0] == 'param':
        return eng.show(d['path']) if d['path'] else 'parameter'
    if s[0] == 'ret':
        return s[1].split('(')[0].replace('the result of ', '') + '()'
    if s[0] == 'global':
        return s[1]
    return 'null-on-some-path'


def _why(s):
    if s is None:
        return ''
    if s[0] == 'field':
        return '%s can be NULL (%s)' % (s[1], s[2]) if len(s) > 2 and s[2] else '%s can be NULL' % s[1]
    return s[1] if len(s) < 3 else '%s: %s' % (s[1], s[2])


def r131(W, engs, rep):
    rep.rule('R13.1', 'every dereference of a value from a nullable source (frozen field table, parameter that can receive NULL, function that can return NULL, '
                      'global that is NULL in some state) is dominated by a non-null fact for the same access path', floor=60)
    rep.rule('R13.9', 'a token cursor never runs past the end-of-input token: the successor of a token (Token.next) is dereferenced only where the token is known not to be the TK_EOF '
                      'marker (a test of its kind, a successful comparison of its text with a non-empty string, a fact established by every caller or by a callee that diagnoses '
                      'the marker), or after a null test of the successor; the successor of TK_EOF is NULL', floor=100)
    rep.rule('R13.6', 'the token argument of every error_tok/warn_tok call is never a value that may be NULL (the diagnostic can be located)', floor=60)
    seen_src = {}
    obs = {}
    for (un, f), e in sorted(engs.items()):
        for d in e.derefs.values():
            name = _src_name(e, d)
            how = d['how']
            rule = FIELD_RULE.get(name, 'R13.1') if d['src'] and d['src'][0] == 'field' else 'R13.1'
            if how in ('arg1 of error_tok()', 'arg1 of warn_tok()'):
                continue   # judged by R13.6 per call site
            path = e.show(d['path']) if d['path'] else name
            construct = '%s%s%s' % (path if path != '?' else name, ('[%s]' % d['ctx']) if d['ctx'] else '', how if how[0] in '-*[' else ' as ' + how)
            if d['src'] and d['src'][0] in ('ret',):
                construct = '%s %s' % (name, construct)
            key = '%s:%s:%s' % (un, f, construct.replace(' ', '_'))
            seen_src[name if d['src'] and d['src'][0] == 'field' else (d['src'][0] if d['src'] else '?')] = True
            o = obs.get((rule, key))
            if o is None or (d['bad'] and o[0]):
                msg = ''
                if d['bad']:
                    msg = ('%s() dereferences `%s` (%s) although it may be NULL here: %s; no dominating test, assertion or earlier dereference makes it non-null%s'
                           ' -> the compiler dies with SIGSEGV instead of printing a located diagnostic'
                           % (f, d['expr'], how, _why(d['src']), (' (in the arm/guard %s)' % d['ctx']) if d['ctx'] else ''))
                    if rule == 'R13.9':
                        msg = ('%s() uses `%s` (%s), which was loaded from the successor field of a token that is not known to differ from the end-of-input token here: when the '
                               'input ends at this point the cursor has run past TK_EOF, whose successor is NULL; no test of the token\'s kind, successful comparison with a non-empty '
                               'string, caller guarantee or null test dominates the use%s -> SIGSEGV instead of a located diagnostic'
                               % (f, d['expr'], how, (' (in the arm/guard %s)' % d['ctx']) if d['ctx'] else ''))
                obs[(rule, key)] = (not d['bad'], msg, '%s:%d' % (un, d['node'].line), {'source': _why(d['src']), 'expression': d['expr'], 'context': d['ctx']})
    for (rule, key), (ok, msg, where, facts) in sorted(obs.items()):
        rep.ob(rule, key, ok, msg, where=where, facts=facts)
    # liveness per frozen table entry that is judged unconditionally
    for (rec, fld), e in NULLABLE_FIELDS.items():
        if 'only_when' in e:
            continue
        if '%s.%s' % (rec, fld) not in seen_src:
            rep.undecided('R13.1', 'table:%s.%s' % (rec, fld), 'no dereference of the nullable field %s.%s was recognised any more (field renamed or access shape not understood)' % (rec, fld))
    for kind in ('param', 'ret'):
        if kind not in seen_src:
            rep.undecided('R13.1', 'table:%s' % kind, 'no dereference of a nullable %s was recognised' % ('parameter' if kind == 'param' else 'function result'))


# --------------------------------------------------------------------------------------------
def variant_fields(W, engs):
    """(record, field) -> set of kinds under which the field is assigned, for fields whose every
    store happens under a known kind of the owner"""
    stores = {}
    for (un, f), e in engs.items():
        for rec, fld, vs, node in e.stores:
            stores.setdefault((rec, fld), []).append(vs)
    out = {}
    for k, l in stores.items():
        ks = set()
        ok = True
        for vs in l:
            if vs is None or vs[0] != 'in' or not all(isinstance(x, str) for x in vs[1]):
                ok = False
                break
            ks |= vs[1]
        if ok and ks:
            out[k] = frozenset(ks)
    return out


def _is_null_test(n):
    """the read value is only tested against NULL"""
    p = n.parent
    c = n
    while p is not None and p.kind in ('ParenExpr', 'ImplicitCastExpr'):
        c, p = p, p.parent
    if p is None:
        return False
    if p.kind == 'UnaryOperator' and p.opcode == '!':
        return True
    if p.kind in ('IfStmt', 'WhileStmt', 'DoStmt', 'ConditionalOperator') and p.inner and (p.inner[0] is c or (p.kind == 'DoStmt' and p.inner[-1] is c)):
        return True
    if p.kind == 'ForStmt':
        return True
    if p.kind == 'BinaryOperator' and p.opcode in ('&&', '||'):
        return True
    if p.kind == 'BinaryOperator' and p.opcode in ('==', '!='):
        other = p.inner[1] if p.inner[0] is c else p.inner[0]
        return other.int_value() == 0
    return False


def r132(W, engs, rep):
    rep.rule('R13.2', 'a pointer field of Node/Type that is assigned only when constructing kinds K is never read under a dominating kind fact that excludes all of K '
                      '(such a read always yields NULL)', floor=30)
    var = variant_fields(W, engs)
    # record field types
    ptr = set()
    for u in W.units.values():
        for rec in ('Node', 'Type'):
            for (fn, ft, bf) in u.records.get(rec, []):
                if L.is_ptr_type(ft):
                    ptr.add((rec, fn))
    for need in (('Node', 'cas_addr'), ('Type', 'return_ty'), ('Node', 'member')):
        if need not in var:
            rep.undecided('R13.2', 'derivation:%s.%s' % need, 'field %s.%s is no longer recognised as assigned under a known kind only (constructor sites changed shape)' % need)
    obs = {}
    for (un, f), e in sorted(engs.items()):
        for node, rec, fld, vs, bp, nul in e.reads:
            K = var.get((rec, fld))
            if K is None or (rec, fld) not in ptr:
                continue
            if (rec, fld) in NULLABLE_FIELDS and 'implied' in NULLABLE_FIELDS[(rec, fld)]:
                continue    # dereferences of these are judged by R13.1 with the same kind facts
            if nul == 'NN':
                continue    # the code has tested this very value non-null on this path
            if not vs or vs[0] != 'in' or not all(isinstance(x, str) for x in vs[1]):
                continue
            if _is_null_test(node):
                continue
            bad = not (K & vs[1])
            under = ','.join(sorted(vs[1])) if len(vs[1]) <= 3 else '%d kinds' % len(vs[1])
            key = '%s:%s:%s.%s%s' % (un, f, rec, fld, ('[%s]' % under) if bad else '')
            o = obs.get(key)
            if o is None or (bad and o[0]):
                msg = ''
                if bad:
                    msg = ('%s() reads `%s` where the owner\'s kind is known to be %s, but %s.%s is assigned only when constructing %s: the value is always NULL here '
                           'and its use crashes the compiler' % (f, node.src(), under, rec, fld, ','.join(sorted(K))))
                obs[key] = (not bad, msg, '%s:%d' % (un, node.line), {'assigned_for': sorted(K), 'read_under': sorted(vs[1])})
    for key, (ok, msg, where, facts) in sorted(obs.items()):
        rep.ob('R13.2', key, ok, msg, where=where, facts=facts)


# --------------------------------------------------------------------------------------------
def size_table(W, engs):
    """TypeKind -> set of sizes a type of that kind can have, or 'any'; read from type.c's compound literals,
    the new_type() calls and the stores to Type.size under a known kind"""
    SZ = {}
    tu = W.units['type.c']

    def add(k, v):
        if v == 'any' or SZ.get(k) == 'any':
            SZ[k] = 'any'
        else:
            SZ.setdefault(k, set()).add(v)
    for g, d in tu.globals.items():
        for cl in d.find('CompoundLiteralExpr'):
            if L.rec_of(cl.type) != 'Type':
                continue
            for il in cl.inner:
                if il.kind == 'InitListExpr' and len(il.inner) >= 2:
                    k = il.inner[0].strip_all()
                    sz = il.inner[1].int_value()
                    if k.kind == 'DeclRefExpr' and k.ref_kind == 'EnumConstantDecl':
                        add(k.ref_name, sz if sz is not None else 'any')
    for (un, f), e in engs.items():
        for node, c, S, vals in e.calls:
            if c == 'new_type' and len(vals) >= 2 and vals[0].ename:
                add(vals[0].ename, vals[1].const if vals[1].const is not None else 'any')
        for rec, fld, vs, node in e.stores:
            if rec == 'Type' and fld == 'size' and f != 'new_type':
                if vs and vs[0] == 'in' and all(isinstance(x, str) for x in vs[1]):
                    for k in vs[1]:
                        add(k, 'any')
                else:
                    raise AnalysisBroken('%s:%s stores Type.size under an unknown kind' % (un, f))
    uni = W.enum_universe.get('TypeKind')
    if not uni:
        raise AnalysisBroken('enum TypeKind vanished')
    for k in uni:
        if k not in SZ:
            raise AnalysisBroken('no size information recovered for %s' % k)
    return SZ, uni


def _kinds_at(S, base, uni):
    f = S.vs.get(base + '->kind')
    if f is None:
        return set(uni), False
    if f[0] == 'in':
        return set(x for x in f[1] if isinstance(x, str)), True
    return set(uni) - set(f[1]), True


def _offending(kinds, SZ, accepted):
    out = []
    for k in sorted(kinds):
        s = SZ[k]
        if s == 'any':
            out.append((k, 'any size'))
        elif not s <= accepted:
            out.append((k, 'size %s' % ','.join(str(x) for x in sorted(s - accepted))))
    return out


def r133(W, engs, rep):
    rep.rule('R13.3', 'every size that can reach a size dispatcher ending in unreachable() ("internal error") is in the dispatcher\'s list: the sizes are those of the '
                      'type kinds still possible at the call under the caller\'s kind guards and the typing relation of add_type; where an extracted helper passes the size of a '
                      'parameter\'s type on without a kind guard of its own, each of its call sites (all known: unique definition, address not taken) must establish kinds with accepted '
                      'sizes under the guards that dominate the call, and the helper is judged under the union of what the guarded sites establish', floor=6)
    SZ, uni = size_table(W, engs)
    size_owner = set()
    for u in W.units.values():
        for rec, fields in u.records.items():
            if any(fn == 'size' for fn, ft, bf in fields):
                size_owner.add(rec)
    if size_owner - {'Type'}:
        raise AnalysisBroken('field name `size` is no longer unique to Type: %s' % sorted(size_owner))
    rep.extra['sizes_by_kind'] = {k: (v if v == 'any' else sorted(v)) for k, v in sorted(SZ.items())}
    # 1. dispatch sites
    disp = {}     # function -> {'param': i | None, 'path': shown, 'accepted': set, 'line': n, 'unit': un, 'raw': path}
    for (un, f), e in sorted(engs.items()):
        for node, c, S, vals in e.calls:
            if c != 'error' or not node.args() or not (node.args()[0].str_value() or '').startswith('internal error'):
                continue
            cands = [(p, fct) for p, fct in S.vs.items() if fct[0] == 'notin' and all(isinstance(x, int) for x in fct[1])]
            res = []
            for p, fct in cands:
                if p.endswith('->size') or ('@' in p and p.split('@', 1)[1] in e.param_idx):
                    res.append((p, fct))
                elif S.ali.get(p, '').endswith('->size'):      # a local copy of some type's size
                    res.append((S.ali[p], fct))
            cands = res
            if len(cands) != 1:
                continue
            p, fct = cands[0]
            d = disp.setdefault((un, f), {'accepted': set(fct[1]), 'line': node.line, 'path': p, 'show': e.show(p),
                                          'param': e.param_idx.get(p.split('@', 1)[1]) if ('@' in p and '-' not in p) else None, 'states': []})
            d['accepted'] &= set(fct[1])
            d['states'].append(S)
    if not disp:
        rep.undecided('R13.3', 'dispatchers', 'no size dispatcher ending in unreachable() was recognised')
        return
    notjudged = []
    obs = {}

    # functions whose address is taken have callers the call graph does not show
    taken = set()
    for u in W.units.values():
        for g, fd in u.functions.items():
            direct_callee = set(id(c.inner[0].strip_all()) for c in fd.calls() if c.inner)
            for n in fd.walk():
                if n.kind == 'DeclRefExpr' and n.ref_kind == 'FunctionDecl' and id(n) not in direct_callee:
                    taken.add(n.ref_name)
        for gv in u.globals.values():
            for n in gv.walk():
                if n.kind == 'DeclRefExpr' and n.ref_kind == 'FunctionDecl':
                    taken.add(n.ref_name)
    site_engs = {}

    def callers_with(un, f):
        """engines of the functions that call f (defined in unit un), analysed again with the states at the calls of f kept; None if a call cannot be attributed"""
        out = []
        for (un2, g), e2 in sorted(engs.items()):
            nodes = e2.fd.calls(f)
            if not nodes:
                continue
            if W.resolve(e2.u, f) is not W.units[un]:
                continue
            k = (un2, g, f)
            if k not in site_engs:
                saved = set(W.record_calls)
                W.record_calls.add(f)
                try:
                    site_engs[k] = L.Engine(W, W.units[un2], g, hooks=e2.hooks).run()
                finally:
                    W.record_calls.clear()
                    W.record_calls.update(saved)
            out.append((un2, g, site_engs[k], nodes))
        return out

    def carry(un, f, e, d, callee, q, kinds_here):
        """the helper f hands `param...->size` to a dispatcher without a kind guard of its own: the guard may be the callers'.  Assume/guarantee: every call site of f
        gets the obligation that the kinds still possible there (intersected with what f itself knows) have accepted sizes only; f is then judged under the union of the
        kinds its guarded call sites establish.  Returns that union, or None where the callers cannot be consulted (f is judged in isolation)."""
        root = L._root(q)
        pid = root.split('@', 1)[1] if '@' in root else None
        if pid not in e.param_idx or root in e.assigned_params or len(W.fn_unit.get(f, ())) != 1 or f in taken:
            return None
        pi = e.param_idx[pid]
        suffix = q[len(root):-6]              # between the parameter and ->size
        fields = set(x for x in suffix.replace('[', '->').split('->') if x) | set(['kind', 'size'])
        if any(fld in fields for rec, fld, ks, n in e.stores):
            return None                       # f itself replaces part of the path: the callers' fact is about another object
        sites = callers_with(un, f)
        if not sites:
            return None
        good = set()
        found = []
        for un2, g, e2, nodes in sites:
            seen = set()
            for node2, c, Sc, vals in e2.calls:
                if c != f or pi >= len(vals):
                    continue
                seen.add(id(node2))
                ap = vals[pi].path
                if g == f and un2 == un and ap == root:
                    continue                  # the helper hands its own parameter on: inductive
                if ap is None or (ap + '#rel') in Sc.vs:
                    kk, kn, shown = set(uni), False, node2.args()[pi].src() + suffix + '->size'
                else:
                    kk, kn = _kinds_at(Sc, ap + suffix, uni)
                    shown = e2.show(ap + suffix + '->size')
                kk &= kinds_here
                direct = Sc.vs.get(ap + suffix + '->size') if ap is not None else None
                if direct and direct[0] == 'in' and all(isinstance(x, int) for x in direct[1]):
                    off = [('size', str(x)) for x in sorted(direct[1] - d['accepted'])]
                else:
                    off = _offending(kk, SZ, d['accepted'])
                found.append((un2, g, e2, node2, shown, kk, kn, off))
                if not off:
                    good |= kk
            if any(id(n) not in seen for n in nodes):
                return None                   # a call of f the analysis did not reach: not every call site can be given the obligation
        if not good:
            return None                       # no call site guards the call: the defect (if it is one) is the helper's
        acc = ','.join(str(x) for x in sorted(d['accepted']))
        for un2, g, e2, node2, shown, kk, kn, off in found:
            key = '%s:%s:%s(%s)->%s' % (un2, g, f, shown, callee)
            msg = ''
            if off:
                key += '<-' + ','.join(k for k, _ in off)
                msg = ('%s() calls %s() where `%s` is not limited to the kinds the other call sites of %s() establish: %s() hands that size to %s%s, which handles only the sizes {%s} and otherwise '
                       'stops with "internal error at <compiler source line>"; under the guards that dominate this call the type can still be %s%s -> the compiler reports an internal error instead '
                       'of a located diagnostic or correct code' % (g, f, shown, f, f, callee, '' if callee == 'dispatch' else '()', acc, ', '.join('%s (%s)' % x for x in off),
                                                                    '' if kn else ' (no kind guard dominates the call)'))
            if key not in obs or (off and obs[key][0]):
                obs[key] = (not off, msg, '%s:%d' % (un2, node2.line), {'accepted_sizes': sorted(d['accepted']), 'possible_kinds': sorted(kk), 'offending': off, 'helper': '%s:%s' % (un, f)})
        return good

    def judge(un, f, e, node, callee, d, S, v, desc_path, q):
        base = q[:-6]
        kinds, known = _kinds_at(S, base, uni)
        direct = S.vs.get(q)
        if direct and direct[0] == 'in' and all(isinstance(x, int) for x in direct[1]):
            off = [('size', str(x)) for x in sorted(direct[1] - d['accepted'])]
        else:
            off = _offending(kinds, SZ, d['accepted'])
            if off and callee != 'dispatch':
                K = carry(un, f, e, d, callee, q, kinds)
                if K is not None:
                    kinds, known = K, True
                    off = _offending(kinds, SZ, d['accepted'])
        key = '%s:%s:%s(%s)' % (un, f, callee, e.show(q))
        if off:
            key += '<-' + ','.join(k for k, _ in off)
        acc = ','.join(str(x) for x in sorted(d['accepted']))
        msg = ''
        if off:
            msg = ('%s() lets `%s` reach %s, which handles only the sizes {%s} and otherwise stops with "internal error at <compiler source line>"; under the guards that '
                   'dominate this point the type can still be %s%s -> the compiler reports an internal error instead of a located diagnostic or correct code'
                   % (f, desc_path, ('its own size dispatch' if callee == 'dispatch' else callee + '()'), acc, ', '.join('%s (%s)' % x for x in off), '' if known else ' (no kind guard constrains it here, in its callers or in add_type)'))
        o = obs.get(key)
        if o is None:
            obs[key] = (not off, msg, '%s:%d' % (un, node.line), {'accepted_sizes': sorted(d['accepted']), 'possible_kinds': sorted(kinds), 'offending': off})

    for (dun, df), d in sorted(disp.items()):
        if d['param'] is not None:
            i = d['param']
            ncalls = 0
            for (un, f), e in sorted(engs.items()):
                for node, c, S, vals in e.calls:
                    if c != df or i >= len(vals) or W.resolve(e.u, df) is not W.units[dun]:
                        continue
                    ncalls += 1
                    v = vals[i]
                    a = node.args()[i]
                    if v.const is not None and v.path is None:
                        key = '%s:%s:%s(%d)' % (un, f, df, v.const)
                        ok = v.const in d['accepted']
                        obs[key] = (ok, '%s() calls %s with the constant size %d, which it does not handle ("internal error")' % (f, df, v.const), '%s:%d' % (un, node.line), None)
                        continue
                    q = None
                    if v.path is not None:
                        q = v.path if v.path.endswith('->size') else S.ali.get(v.path)
                    if q is None or not q.endswith('->size') or (q + '#rel') in S.vs or (v.path + '#rel') in S.vs:
                        notjudged.append('%s:%s:%s(%s)' % (un, f, df, a.src()))
                        continue
                    judge(un, f, e, node, df, d, S, v, a.src(), q)
            if ncalls == 0:
                rep.undecided('R13.3', '%s:%s:no-caller' % (dun, df), 'size dispatcher %s() has no recognisable caller' % df)
        else:
            # dispatch on a type path inside the function itself; add what the callers know about it
            e = engs[(dun, df)]
            q = d['path']
            root = q.split('-', 1)[0]
            pi = e.param_idx.get(root.split('@', 1)[1]) if '@' in root else None
            for S in d['states']:
                S2 = S
                if pi is not None and (q[:-6] + '->kind') not in S.vs:
                    # union of the callers' facts on the corresponding argument path
                    acc = None
                    for (un, f), e2 in engs.items():
                        for node, c, Sc, vals in e2.calls:
                            if c != df or pi >= len(vals) or vals[pi].path is None:
                                continue
                            kk, known = _kinds_at(Sc, vals[pi].path + q[len(root):-6], uni)
                            acc = kk if acc is None else (acc | kk)
                    if acc is not None and acc != set(uni):
                        S2 = S.copy()
                        S2.vs[q[:-6] + '->kind'] = ('in', frozenset(acc))
                node = [n for n, c, Sx, _ in e.calls if Sx is S][0]
                judge(dun, df, e, node, 'dispatch', d, S2, None, q and e.show(q), q)
    for key, (ok, msg, where, facts) in sorted(obs.items()):
        rep.ob('R13.3', key, ok, msg, where=where, facts=facts)
    rep.extra['size_dispatch'] = {'dispatchers': {'%s:%s' % k: {'on': v['show'], 'accepted': sorted(v['accepted'])} for k, v in sorted(disp.items())},
                                  'call_sites_not_judged (argument is not a plain Type.size)': sorted(set(notjudged))}


# --------------------------------------------------------------------------------------------
def r133k(W, rep):
    """keyword dispatch: every keyword that lets the declaration-specifier loop run has a branch in it"""
    u = W.units['parse.c']
    it = u.functions.get('is_typename')
    if it is None:
        raise AnalysisBroken('parse.c:is_typename vanished')
    kws = set()
    for d in it.find('VarDecl'):
        for il in d.find('InitListExpr'):
            vals = [c.str_value() for c in il.inner]
            if vals and all(v is not None for v in vals):
                kws |= set(vals)
    if len(kws) < 10:
        rep.undecided('R13.3', 'parse.c:is_typename:keyword-table', 'the type keyword table of is_typename() is not recognised any more (%d strings)' % len(kws))
        return
    hosts = []
    for f, fd in u.functions.items():
        for loop in fd.find('WhileStmt') + fd.find('ForStmt'):
            cond = loop.inner[0] if loop.kind == 'WhileStmt' else None
            if cond is None or not cond.calls('is_typename'):
                continue
            ie = [c for c in loop.calls('error') if c.args() and (c.args()[0].str_value() or '').startswith('internal error')]
            if ie:
                hosts.append((f, loop, ie[0]))
    if not hosts:
        rep.undecided('R13.3', 'parse.c:declspec:keyword-dispatch', 'no `while (is_typename(tok))` loop ending in unreachable() found (declspec changed shape)')
        return
    for f, loop, ie in hosts:
        handled = set()
        scopes = [loop]
        for c in loop.calls():          # helpers the loop hands the token to (one level)
            fd2 = u.functions.get(c.callee() or '')
            if fd2 is not None and fd2 is not u.functions.get(f):
                scopes.append(fd2)
        for sc in scopes:
            for c in sc.calls(('equal', 'consume')):
                a = c.args()
                v = a[-1].str_value() if a else None
                if v is not None:
                    handled.add(v)
        for k in sorted(kws):
            rep.ob('R13.3', 'parse.c:%s:keyword("%s")' % (f, k), k in handled,
                   'is_typename() accepts the keyword `%s`, so the specifier loop of %s() is entered for it, but no branch of the loop compares the token with "%s": '
                   'the keyword chain falls into unreachable() and a valid declaration is answered with "internal error"' % (k, f, k),
                   where='parse.c:%d' % ie.line)


# --------------------------------------------------------------------------------------------
def _canon(n):
    """rendering of an expression that does not depend on the names of locals/parameters"""
    k = n.kind
    if k in ('ParenExpr', 'ImplicitCastExpr', 'ConstantExpr', 'CStyleCastExpr'):
        return _canon(n.inner[-1])
    if k == 'DeclRefExpr':
        if n.ref_kind in ('VarDecl', 'ParmVarDecl') and n.ref_id not in n.unit.by_id:
            return '(%s)' % (n.type or '?').replace(' ', '')
        return n.ref_name or '?'
    if k == 'MemberExpr':
        return _canon(n.inner[0]) + ('->' if n.d.get('isArrow') else '.') + (n.name or '?')
    if k in ('IntegerLiteral', 'CharacterLiteral'):
        return str(n.value)
    if k == 'UnaryOperator':
        return n.opcode + _canon(n.inner[0])
    if k == 'BinaryOperator':
        op = {'||': '_or_', '&&': '_and_', '|': '_bitor_'}.get(n.opcode, n.opcode)
        return '%s%s%s' % (_canon(n.inner[0]), op, _canon(n.inner[1]))
    if k == 'CallExpr':
        return '%s(%s)' % (n.callee() or '?', ','.join(_canon(a) for a in n.args()))
    return n.src().replace(' ', '').replace('|', '!')


def _assert_cond(call):
    """condition expression of the assert() whose expansion contains this __assert_fail call"""
    p = call.parent
    c = call
    while p is not None and p.kind in ('ParenExpr', 'ImplicitCastExpr', 'CStyleCastExpr'):
        c, p = p, p.parent
    if p is not None and p.kind == 'ConditionalOperator' and p.inner[2] is c:
        return p.inner[0], True
    if p is not None and p.kind == 'IfStmt':
        return p.inner[0], (len(p.inner) > 2 and p.inner[2] is c)
    if p is not None and p.kind == 'CompoundStmt' and p.parent is not None and p.parent.kind == 'IfStmt':
        q = p.parent
        return q.inner[0], (len(q.inner) > 2 and q.inner[2] is p)
    return None, None


def _witness_types(P, cu):
    from ..interp import Obj
    E = cu.enums
    tf = [f for f, t, b in (cu.records.get('Type') or [])]
    mf = [f for f, t, b in (cu.records.get('Member') or [])]
    if not tf or not mf or 'members' not in tf or 'size' not in tf:
        raise AnalysisBroken('struct Type/Member fields not recognised')

    def T(kind, size, align, **kw):
        f = {x: 0 for x in tf}
        f.update({'kind': E[kind], 'size': size, 'align': align})
        f.update(kw)
        return Obj('Type', fields=f)

    def S(members, size, align, kind='TY_STRUCT'):
        nxt = 0
        for ty, off in reversed(members):
            f = {x: 0 for x in mf}
            f.update({'ty': ty, 'offset': off, 'next': nxt, 'align': ty.fields['align']})
            nxt = Obj('Member', fields=f)
        return T(kind, size, align, members=nxt)
    fl, db, ch, it_ = T('TY_FLOAT', 4, 4), T('TY_DOUBLE', 8, 8), T('TY_CHAR', 1, 1), T('TY_INT', 4, 4)
    ld = T('TY_LDOUBLE', 16, 16)
    arr = lambda b, n: T('TY_ARRAY', b.fields['size'] * n, b.fields['align'], base=b, array_len=n)
    W = [('struct{}', S([], 0, 1)), ('union{}', S([], 0, 1, 'TY_UNION')), ('struct{float[0]}', S([(arr(fl, 0), 0)], 0, 4)),
         ('struct{struct{}}', S([(S([], 0, 1), 0)], 0, 1)),
         ('struct{char}', S([(ch, 0)], 1, 1)), ('struct{char[3]}', S([(arr(ch, 3), 0)], 3, 1)), ('struct{float}', S([(fl, 0)], 4, 4)),
         ('struct{int}', S([(it_, 0)], 4, 4)), ('struct{char[5]}', S([(arr(ch, 5), 0)], 5, 1)), ('struct{double}', S([(db, 0)], 8, 8)),
         ('struct{float,float}', S([(fl, 0), (fl, 4)], 8, 4)), ('struct{int,float}', S([(it_, 0), (fl, 4)], 8, 4)),
         ('union{float,double}', S([(fl, 0), (db, 0)], 8, 8, 'TY_UNION')), ('union{float,char[3]}', S([(fl, 0), (arr(ch, 3), 0)], 4, 4, 'TY_UNION')),
         ('struct{char[9]}', S([(arr(ch, 9), 0)], 9, 1)), ('struct{float[3]}', S([(arr(fl, 3), 0)], 12, 4)),
         ('struct{double,float}', S([(db, 0), (fl, 8)], 16, 8)), ('struct{double,int}', S([(db, 0), (it_, 8)], 16, 8)),
         ('struct{long,float}', S([(T('TY_LONG', 8, 8), 0), (fl, 8)], 16, 8)), ('struct{double,double}', S([(db, 0), (db, 8)], 16, 8)),
         ('struct{float[4]}', S([(arr(fl, 4), 0)], 16, 4)), ('struct{char[16]}', S([(arr(ch, 16), 0)], 16, 1)), ('struct{long double}', S([(ld, 0)], 16, 16)),
         ('struct{double,struct{}}', S([(db, 0), (S([], 0, 1), 8)], 8, 8))]
    return W, T


def r134(P, W, engs, rep):
    rep.rule('R13.4', 'assertions of non-test code cannot fail: either the dominating guard facts make the failing branch unreachable, or (struct-return helpers of the '
                      'code generator) the asserting function, interpreted on a witness catalogue of aggregates of at most 16 bytes, never reaches __assert_fail', floor=4)
    sites = []
    for (un, f), e in sorted(engs.items()):
        if f.endswith('_test'):
            continue
        for c in e.fd.calls('__assert_fail'):
            sites.append((un, f, e, c))
    if not sites:
        rep.undecided('R13.4', 'asserts', 'no assert() found in non-test code (assert.h expansion not recognised)')
        return
    notjudged = []
    witness_fns = {}
    for un, f, e, call in sites:
        cond, neg = _assert_cond(call)
        cs = _canon(cond) if cond is not None else 'line'
        key = '%s:%s:assert(%s)' % (un, f, cs)
        reach = [S for n, c, S, v in e.calls if n is call]
        if not reach:
            rep.ob('R13.4', key, True, '', where='%s:%d' % (un, call.line))
            continue
        # a value-set fact on the asserted path that contradicts `path == CONST`
        done = False
        if cond is not None:
            m = cond.strip()
            if m.kind == 'BinaryOperator' and m.opcode == '==':
                a, b = m.inner[0].strip(), m.inner[1].strip()
                if b.kind == 'DeclRefExpr' and b.ref_kind == 'EnumConstantDecl' and a.kind == 'DeclRefExpr':
                    p = e.root_path(a)
                    bad = set()
                    for S in reach:
                        fct = S.vs.get(p)
                        if fct and fct[0] == 'in' and all(isinstance(x, str) for x in fct[1]):
                            bad |= set(fct[1])
                        else:
                            bad = None
                            break
                    if bad:
                        rep.ob('R13.4', key + '<-' + ','.join(sorted(bad)), False,
                               '%s() asserts `%s`, but the guards before it let the value%s %s through (these values are produced by the functions/stores that feed it): '
                               'the assertion aborts the process (SIGABRT) instead of a diagnostic' % (f, cond.src(), 's' if len(bad) > 1 else '', ', '.join(sorted(bad))),
                               where='%s:%d' % (un, call.line), facts={'values': sorted(bad)})
                        done = True
        if done:
            continue
        if un == 'codegen.c':
            witness_fns.setdefault(f, []).append((call, key, cond))
        else:
            notjudged.append(key)
    # witness interpretation of the code generator's asserting helpers
    if witness_fns:
        from ..interp import Interp, Obj, Unsupported
        cu = W.units['codegen.c']
        wl, T = _witness_types(P, cu)
        of = [x for x, t, b in (cu.records.get('Obj') or [])]
        for f, lst in sorted(witness_fns.items()):
            params = cu.params(f)
            ptypes = [(p.type or '').replace(' ', '') for p in params]
            uses_current_fn = any(n.kind == 'DeclRefExpr' and n.ref_name == 'current_fn' for n in cu.fn(f).walk())
            # only helpers whose asserted type is the function's return type (no parameter) or the type of the one Obj parameter
            ok_shape = (ptypes == [] and uses_current_fn) or ptypes == ['Obj*']
            if ok_shape:
                for call, key, cond in lst:
                    roots = [n for n in (cond.walk() if cond is not None else []) if n.kind == 'DeclRefExpr' and n.ref_kind == 'VarDecl' and n.ref_id not in cu.by_id]
                    good = bool(roots)
                    for r in roots:
                        init = None
                        rid = r.ref_id
                        for _ in range(4):     # follow plain copies `Type *ty = rty;`
                            decl = [d for d in cu.fn(f).find('VarDecl') if d.id == rid]
                            init = decl[0].inner[-1].strip() if decl and 'init' in decl[0].d and decl[0].inner else None
                            if init is not None and init.kind == 'DeclRefExpr' and init.ref_kind == 'VarDecl' and init.ref_id not in cu.by_id:
                                rid = init.ref_id
                                continue
                            break
                        if init is None or init.kind != 'MemberExpr':
                            good = False
                            continue
                        b = init.inner[0].strip()
                        if ptypes == ['Obj*']:
                            good = good and init.name == 'ty' and b.kind == 'DeclRefExpr' and b.ref_kind == 'ParmVarDecl'
                        else:
                            good = good and _canon(init) == 'current_fn->ty->return_ty'
                    ok_shape = ok_shape and good
            if not ok_shape:
                notjudged += [k for c, k, cd in lst]
                continue
            fails = {}     # line of the failing assert -> [witness names]
            try:
                for name, w in wl:
                    if ptypes == []:
                        fo = {x: 0 for x in of}
                        fo.update({'ty': T('TY_FUNC', 1, 1, return_ty=w)})
                        it = Interp(P, cu, {'opaque': ['println'], 'rec_limit': 12, 'globals': {'current_fn': Obj('Obj', fields=fo)}})
                        res = it.explore(f, lambda ctx: [])
                    else:
                        fo = {x: 0 for x in of}
                        fo.update({'ty': w, 'offset': -16})
                        var = Obj('Obj', fields=fo)
                        it = Interp(P, cu, {'opaque': ['println'], 'rec_limit': 12})
                        res = it.explore(f, lambda ctx: [var])
                    if not res:
                        raise AnalysisBroken('no path of %s() could be interpreted for the witness %s' % (f, name))
                    for ctx, out in res:
                        if out[0] == 'noreturn' and out[1] == '__assert_fail':
                            fails.setdefault(out[3], []).append(name)
            except (Unsupported, AnalysisBroken) as ex:
                for c, k, cd in lst:
                    rep.undecided('R13.4', k, 'the asserting function cannot be interpreted on the witness types (%s)' % ex, where='codegen.c:%d' % c.line)
                continue
            for call, key, cond in lst:
                bad = fails.get(call.line, [])
                if bad:
                    key2 = key + '<-' + ','.join(bad)
                    rep.ob('R13.4', key2, False,
                           '%s() asserts `%s`, but for the aggregate type%s %s (constructible, at most 16 bytes) the guards before the assertion are passed and the asserted '
                           'condition is false (a has_flonum test is vacuously true for an aggregate without members): the compiler aborts (SIGABRT) instead of generating code'
                           % (f, cond.src() if cond is not None else '?', 's' if len(bad) > 1 else '', ', '.join(bad)),
                           where='codegen.c:%d' % call.line, facts={'failing_witnesses': bad, 'witnesses_tried': [n for n, w in wl]})
                else:
                    rep.ob('R13.4', key, True, '', where='codegen.c:%d' % call.line)
    rep.extra['asserts_not_judged'] = sorted(set(notjudged))


# --------------------------------------------------------------------------------------------
def r135(W, rep):
    """parse_args never reads argv past argc: an option that consumes the next argument is validated by the first loop"""
    rep.rule('R13.5', 'every option whose handler consumes the following argument (argv[++i]) is listed in take_arg(), whose loop rejects a missing argument before '
                      'any handler runs (otherwise `chibicc -X` as the last word hands NULL to the handler)', floor=8)
    u = W.units['main.c']
    ta, pa = u.functions.get('take_arg'), u.functions.get('parse_args')
    if ta is None or pa is None:
        raise AnalysisBroken('main.c: take_arg/parse_args vanished')
    table = set()
    for il in ta.find('InitListExpr'):
        vals = [c.str_value() for c in il.inner]
        if vals and all(v is not None for v in vals):
            table |= set(vals)
    if len(table) < 4:
        rep.undecided('R13.5', 'main.c:take_arg:table', 'the option table of take_arg() is not recognised')
        return
    # the validating loop: a read argv[++i] under `if (take_arg(argv[i]))`
    validated = False
    for n in pa.walk():
        if n.kind != 'ArraySubscriptExpr':
            continue
        idx = n.inner[1].strip()
        base = n.inner[0].strip()
        if not (idx.kind == 'UnaryOperator' and idx.opcode in ('++',) and base.kind == 'DeclRefExpr' and base.ref_kind == 'ParmVarDecl'):
            continue
        guards = []
        p = n.parent
        c = n
        took = False
        while p is not None and p is not pa:
            if p.kind == 'IfStmt' and p.inner[0] is not c:
                in_then = p.inner[1] is c
                lits = []
                for call in p.inner[0].calls(('strcmp',)):
                    a = call.args()
                    lit = a[1].str_value() if len(a) > 1 else None
                    if lit is not None:
                        lits.append(lit)
                if p.inner[0].calls('take_arg'):
                    took = True
                if lits and in_then:
                    guards = lits
                    break
                if took:
                    break
            c, p = p, p.parent
        where = 'main.c:%d' % n.line
        if took and not guards:
            validated = True
            chk = n.parent
            while chk is not None and chk.kind in ('ImplicitCastExpr', 'ParenExpr'):
                chk = chk.parent
            ok = chk is not None and chk.kind == 'UnaryOperator' and chk.opcode == '!'
            rep.ob('R13.5', 'main.c:parse_args:missing-argument-rejected', ok,
                   'the validation loop does not test argv[++i] for NULL after take_arg(argv[i])', where=where)
            continue
        if not guards:
            rep.undecided('R13.5', 'main.c:parse_args:argv[++i]', 'an argv[++i] read is not under a recognisable `!strcmp(argv[i], "-opt")` guard', where=where)
            continue
        for g in guards:
            rep.ob('R13.5', 'main.c:parse_args:argv[++i]("%s")' % g, g in table,
                   'the handler of `%s` consumes argv[++i] but `%s` is not in take_arg()\'s table, so a missing argument is not rejected: `chibicc %s` as the last word '
                   'passes argv[argc] == NULL on (strdup/strlen/strcmp of NULL -> SIGSEGV, or silently ignored)' % (g, g, g), where=where)
    if not validated:
        rep.undecided('R13.5', 'main.c:parse_args:validation-loop', 'no `if (take_arg(argv[i])) if (!argv[++i]) usage` validation found')


# --------------------------------------------------------------------------------------------
def r136(W, engs, rep):
    """every error_tok/warn_tok call: the token argument is not a value that may be NULL"""
    obs = {}
    for (un, f), e in sorted(engs.items()):
        for node, c, S, vals in e.calls:
            if c not in ('error_tok', 'warn_tok') or not vals:
                continue
            a = node.args()
            msg = a[1].str_value() if len(a) > 1 else None
            v = vals[0]
            bad = v.nul in ('N', 'NULL')
            key = '%s:%s:%s(%s)' % (un, f, c, ('"%s"' % msg.replace(' ', '_')) if msg is not None else a[0].src().replace(' ', ''))
            o = obs.get(key)
            if o is None or (bad and o[0]):
                what = ''
                if bad:
                    what = ('%s() reports "%s" through the token `%s`, which may be NULL here (%s): the diagnostic itself dereferences it and the compiler dies with SIGSEGV '
                            'instead of printing file:line' % (f, msg, a[0].src(), _why(v.src)))
                obs[key] = (not bad, what, '%s:%d' % (un, node.line))
    for key, (ok, what, where) in sorted(obs.items()):
        rep.ob('R13.6', key, ok, what, where=where)
    # the printing side: "<file>:<line>: " from the reported position, then exit non-zero
    tu = W.units['tokenize.c']
    va = tu.functions.get('verror_at')
    if va is None:
        rep.undecided('R13.6', 'tokenize.c:verror_at', 'the diagnostic printer verror_at() vanished')
        return
    vparams = [c for c in va.inner if c.kind == 'ParmVarDecl']
    ids = [p.id for p in vparams]
    ok = False
    printed = set()
    for c in va.calls(('fprintf', 'dprintf', 'vfprintf')):
        a = c.args()
        if not a or a[0].src() != 'stderr':
            continue
        for x in a[2:]:
            x = x.strip()
            if x.kind == 'DeclRefExpr' and x.ref_id in ids:
                printed.add(ids.index(x.ref_id))
        fmt = a[1].str_value() if len(a) > 1 else None
        if fmt and '%s:%d' in fmt and len(a) >= 4:
            x, y = a[2].strip(), a[3].strip()
            if x.kind == 'DeclRefExpr' and y.kind == 'DeclRefExpr' and x.ref_id in ids and y.ref_id in ids and 'char' in (x.type or '') and (y.type or '') == 'int':
                ok = True
    cands_f = [k for k, p in enumerate(vparams) if (p.type or '').replace(' ', '') == 'char*']
    cands_l = [k for k, p in enumerate(vparams) if (p.type or '') == 'int']
    fi = cands_f[0] if cands_f else None
    li = cands_l[0] if len(cands_l) == 1 else None
    where = 'tokenize.c:%d' % va.line
    if ok:
        rep.ob('R13.6', 'tokenize.c:verror_at:prints-file:line', True, '', where=where)
    elif fi is not None and li is not None and fi in printed and li in printed:
        rep.undecided('R13.6', 'tokenize.c:verror_at:prints-file:line', 'verror_at() prints its file-name and line parameters to stderr, but not in the recognised single "%s:%d" format', where=where)
    else:
        rep.ob('R13.6', 'tokenize.c:verror_at:prints-file:line', False,
               'verror_at() no longer prints "<file name>:<line number>: " to stderr (its %s parameter is not printed): diagnostics do not name a file and a line'
               % ('line-number' if (li is None or li not in printed) else 'file-name'), where=where)
    if fi is None or li is None:
        return
    for f in ('error_tok', 'warn_tok', 'error_at'):
        fd = tu.functions.get(f)
        if fd is None:
            rep.undecided('R13.6', 'tokenize.c:%s' % f, '%s() vanished' % f)
            continue
        calls = fd.calls('verror_at')
        ps = [c for c in fd.inner if c.kind == 'ParmVarDecl']
        good = len(calls) == 1 and bool(ps)
        if good:
            a = calls[0].args()
            # names that carry the reported position: the first parameter and locals initialised from it
            carriers = set([ps[0].id])
            for d in fd.find('VarDecl'):
                if 'init' in d.d and any(n.kind == 'DeclRefExpr' and n.ref_id in carriers for n in d.walk()):
                    carriers.add(d.id)
            uses = lambda x: any(n.kind == 'DeclRefExpr' and n.ref_id in carriers for n in x.walk())
            if f == 'error_at':
                good = 'current_file' in a[fi].src() and uses(a[3])
                what = 'error_at() does not report the current file with the position it was given'
            else:
                good = uses(a[fi]) and uses(a[li]) and uses(a[3])
                what = '%s() does not take the file name, line number and position it reports from its own token argument' % f
        else:
            what = '%s() does not call verror_at() exactly once' % f
        rep.ob('R13.6', 'tokenize.c:%s:location-of-its-argument' % f, good, what, where='tokenize.c:%d' % fd.line)
    for f in ('error', 'error_at', 'error_tok'):
        fd = tu.functions.get(f)
        if fd is None:
            continue
        body = tu.body(f)
        last = body.inner[-1] if body is not None and body.inner else None
        key = 'tokenize.c:%s:exits-nonzero' % f
        where = 'tokenize.c:%d' % fd.line
        if fd.find('ReturnStmt') or last is None or last.kind != 'CallExpr' or last.callee() not in W.noreturn:
            rep.ob('R13.6', key, False, '%s() can return to its caller or does not end in a call that terminates the process: after the diagnostic the compiler would continue' % f, where=where)
        elif last.callee() in ('exit', '_exit', '_Exit') and last.args():
            v = last.args()[0].int_value()
            if v is None:
                rep.undecided('R13.6', key, 'the exit code of %s() is not a constant' % f, where=where)
            else:
                rep.ob('R13.6', key, v != 0, '%s() ends in exit(0): the compiler reports success after a diagnostic' % f, where=where)
        else:
            rep.ob('R13.6', key, True, '', where=where)


# --------------------------------------------------------------------------------------------
def r1325(P, W, rep):
    """what the code generator does at the entry of a function definition depends on the types of the parameters only (offsets, register classes, the size
    dispatchers store_gp / store_fp, assertions on the size).  The entry function of the code generator is interpreted (Engine I) on a program that consists of
    one definition whose last parameter has a witness type -- every scalar class, aggregates of every eightbyte classification up to 16 bytes, the aggregates
    without members, an aggregate passed in memory -- with the argument registers free, nearly used up and used up.  No path may end in unreachable()
    ("internal error") or a failing assert()."""
    rep.rule('R13.25', 'the prologue the code generator emits for a function definition (parameter offsets, saving the register-passed parameters) reaches neither '
                       'unreachable() ("internal error") nor a failing assertion for any parameter type: the entry function of the code generator, interpreted on a one-function '
                       'program per witness parameter type (scalars, aggregates of every eightbyte classification up to 16 bytes including those without members, an aggregate '
                       'passed in memory) and register pressure (none, one register of each class left, none left), always returns', floor=60)
    from ..interp import Interp, Obj, Sym, Arr, Unsupported
    cu = W.units['codegen.c']
    entry = 'codegen'
    if entry not in cu.functions:
        rep.undecided('R13.25', 'codegen.c:codegen:entry', 'the entry function codegen() of the code generator vanished')
        return
    where0 = 'codegen.c:%d' % cu.fn(entry).line
    eparams = [(p.type or '').replace(' ', '') for p in cu.params(entry)]
    if not eparams or eparams[0] != 'Obj*':
        rep.undecided('R13.25', 'codegen.c:codegen:entry', 'codegen() no longer takes the list of objects as its first parameter (%s)' % eparams, where=where0)
        return
    wl, T = _witness_types(P, cu)
    of = [x for x, t, b in (cu.records.get('Obj') or [])]
    nf = [x for x, t, b in (cu.records.get('Node') or [])]
    if 'params' not in of or 'locals' not in of or 'offset' not in of or 'body' not in of:
        raise AnalysisBroken('struct Obj fields not recognised')
    lg, db = T('TY_LONG', 8, 8), T('TY_DOUBLE', 8, 8)
    vd = T('TY_VOID', 1, 1)
    scal = [('_Bool', T('TY_BOOL', 1, 1, is_unsigned=1)), ('char', T('TY_CHAR', 1, 1)), ('short', T('TY_SHORT', 2, 2)), ('int', T('TY_INT', 4, 4)), ('long', lg),
            ('enum', T('TY_ENUM', 4, 4)), ('float', T('TY_FLOAT', 4, 4)), ('double', db), ('long double', T('TY_LDOUBLE', 16, 16)), ('pointer', T('TY_PTR', 8, 8, base=vd))]
    ch = T('TY_CHAR', 1, 1)
    big = [w for n, w in wl if n == 'struct{char[16]}']
    if big:
        import copy
        m = big[0].fields['members']
        arr24 = T('TY_ARRAY', 24, 1, base=ch, array_len=24)
        mm = Obj('Member', fields=dict(m.fields, ty=arr24))
        scal.append(('struct{char[24]}', T('TY_STRUCT', 24, 1, members=mm)))
    pressures = [('', []), ('5 long,7 double,', [lg] * 5 + [db] * 7), ('6 long,8 double,', [lg] * 6 + [db] * 8)]
    # the diagnostics / assertions a path can end in: line -> (function, description)
    sinks = {}
    for f, fd in cu.functions.items():
        for c in fd.calls('error'):
            a = c.args()
            m = (a[0].str_value() or '?') if a else '?'
            sinks[c.line] = (f, 'unreachable()' if m.startswith('internal error') else 'error("%s")' % m)
        for c in fd.calls('__assert_fail'):
            cond, neg = _assert_cond(c)
            sinks[c.line] = (f, 'assert(%s)' % (_canon(cond) if cond is not None else '?'))

    def mkvar(w, nxt):
        fo = {x: 0 for x in of}
        fo.update({'ty': w, 'name': 'p', 'is_local': 1, 'align': w.fields['align'], 'next': nxt})
        return Obj('Obj', fields=fo)
    body = Obj('Node', fields={x: 0 for x in nf})
    n = 0
    fails = {}
    for wname, w in wl + scal:
        for pname, pre in pressures:
            key = 'codegen.c:%s:definition(%s%s)' % (entry, pname, wname)
            head = mkvar(w, 0)
            for t in reversed(pre):
                head = mkvar(t, head)
            fo = {x: 0 for x in of}
            ab = {x: 0 for x in of}
            ab['offset'] = -8
            fo.update({'name': 'f', 'is_function': 1, 'is_definition': 1, 'is_live': 1, 'params': head, 'locals': head, 'body': body,
                       'ty': T('TY_FUNC', 1, 1, return_ty=T('TY_INT', 4, 4)), 'alloca_bottom': Obj('Obj', fields=ab)})
            prog = Obj('Obj', fields=fo)
            it = Interp(P, cu, {'opaque': ['println', 'gen_stmt'], 'cut': {'get_input_files': lambda it, ctx, call, args: Arr([0])}, 'rec_limit': 12, 'globals': {'depth': 0}})
            try:
                res = it.explore(entry, lambda ctx: [prog] + [Sym('arg%d' % i, t) for i, t in enumerate(eparams[1:])], max_paths=200)
            except (Unsupported, AnalysisBroken) as ex:
                rep.undecided('R13.25', key, 'codegen() cannot be interpreted on a function definition with this parameter: %s' % ex, where=where0)
                continue
            if not res:
                rep.undecided('R13.25', key, 'no path of codegen() could be followed for a function definition with this parameter', where=where0)
                continue
            n += 1
            bad = sorted(set((out[1], out[3]) for ctx, out in res if out[0] == 'noreturn'))
            if not bad:
                rep.ob('R13.25', key, True, '', where=where0)
                continue
            for fn, line in bad:
                fails.setdefault((fn, line), []).append((pname, wname, w.fields['size']))
    for (fn, line), lst in sorted(fails.items()):
        sf, sd = sinks.get(line, ('?', fn + '()'))
        names = sorted(set(wn for pn, wn, sz in lst))
        rep.ob('R13.25', 'codegen.c:%s:%s<-definition(%s)' % (sf, sd.replace(' ', '_'), ','.join(names)), False,
               'for a function definition with a parameter of type %s the code generator ends in %s of %s() instead of emitting the prologue (parameter lists tried: %s): '
               'the compiler %s on a program it has accepted'
               % (', '.join('%s (size %d)' % (wn, sz) for wn, sz in sorted(set((wn, sz) for pn, wn, sz in lst))), sd, sf, '; '.join('(%s%s)' % (pn, wn) for pn, wn, sz in lst),
                  'aborts (SIGABRT)' if fn == '__assert_fail' else 'stops with an internal error / a diagnostic without a source position'),
               where='codegen.c:%d' % line, facts={'parameter_lists': [pn + wn for pn, wn, sz in lst], 'ends_in': '%s:%s' % (sf, sd)})
    rep.extra['R13.25'] = {'definitions_interpreted': n, 'witness_parameter_types': [x for x, w in wl + scal], 'register_pressure': [x or 'none' for x, y in pressures]}


# --------------------------------------------------------------------------------------------
def r1326(W, engs, rep):
    """R13.1 takes every pointer field outside the nullable table for non-null.  That is an invariant the constructors have to establish: a value read from a field
    of the table (one the code leaves NULL for some objects) must not be stored into such a field -- directly, or by handing it to a parameter that a function
    stores there unconditionally (derived, transitive: new_var_node(var) -> Node.var) -- unless a null test, or a callee that assigns the field on every return
    (derived from the return states: compute_vla_size() -> Type.vla_size), dominates.  Otherwise the NULL surfaces later, far from its source, where a reader
    dereferences the field without a test (add_type: node->var->ty): SIGSEGV."""
    rep.rule('R13.26', 'a pointer read from a field the code leaves NULL for some objects (nullable table: no name, no initializer expression, no variable in the scope entry, no size '
                       'variable of a variable-length array type yet) is stored into a pointer field that every reader takes for non-null -- directly or through a parameter a '
                       'constructor stores there unconditionally (derived) -- only where a null test or a callee that assigns the field on every return (derived) dominates', floor=6)
    obs = {}
    for (un, f), e in sorted(engs.items()):
        for k, d in sorted(e.nnsinks.items(), key=lambda x: (x[1]['node'].line, x[0][1])):
            how = d['how'].replace(' ', '_')
            key = '%s:%s:%s->%s(%s%s)' % (un, f, e.show(d['path']) if d['path'] else d['src'][1], d['field'], how, ('_for_%s()' % d['user']) if d.get('user') else '')
            o = obs.get(key)
            if o is not None and (o[0] is False or not d['bad']):
                continue
            what = ''
            if d['bad']:
                what = ('%s() %s `%s`, which may be NULL here (%s); it ends up in %s, a field that no reader tests before dereferencing it: the compiler dies with SIGSEGV later '
                        '(e.g. when the node is typed) instead of answering with a located diagnostic or output'
                        % (f, 'stores' if d['how'] == 'store' else 'passes as %s' % d['how'], d['expr'], _why(d['src']), d['field']))
            obs[key] = (not d['bad'], what, '%s:%d' % (un, d['node'].line), {'source': d['src'][1], 'sink': d['field'], 'kinds': d['ctx']})
    for key, (ok, what, where, facts) in sorted(obs.items()):
        rep.ob('R13.26', key, ok, what, where=where, facts=facts)
    rep.extra['R13.26'] = {'parameters_stored_into_fields_taken_for_non-null': {'%s#%d' % (f, i + 1): fld for (f, i), fld in sorted(W.mustnn.items())},
                           'functions_that_assign_a_nullable_field_on_every_return': {'%s#%d' % (f, i + 1): sorted(x[1] for x in v) for (f, i), v in sorted(W.establishes.items())}}


# --------------------------------------------------------------------------------------------
def r1324(P, rep):
    """a located diagnostic names the file the token is in: tokens that are made after tokenizing (converted string literals, number / string tokens of builtin
    macros, results of # and ##) are created while `current_file` is whatever file was tokenized last; error_tok()/warn_tok() print tok->file->name with tok->line_no,
    so a token that keeps the creator's stamp is reported in another file, at a line that need not exist there.  The obligations are C18's (R18.5)."""
    rep.rule('R13.24', 'the file and line a located diagnostic prints are those of the reported token: every function that makes a token from a template token after '
                       'tokenizing (converted string literals, tokens of builtin macros, # and ##) hands on the template\'s file identity and line, not the stamp of the '
                       'file that happened to be tokenized last (obligations of C18 R18.5, re-issued)', floor=6)
    from ..report import Report, reissue
    from ..interp import Unsupported
    sub = Report('C18')
    try:
        from .. import lib_c18b
        if hasattr(lib_c18b, 'r185'):
            lib_c18b.r185(P, sub)
        else:
            from . import c18
            c18.run(P, sub, 'quick')
    except (AnalysisBroken, Unsupported, ImportError) as e:
        rep.undecided('R13.24', 'tokenize.c:synthesised-tokens:engine', 'the functions that make tokens from a template cannot be interpreted: %s' % e)
        return
    why = ('error_tok()/warn_tok() print tok->file->name and tok->line_no of the token they are given: a diagnostic at this token names a file the construct is not in '
           '(and a line that need not exist in that file), so the input is not answered with a located diagnostic: ')
    n = reissue(rep, 'R13.24', sub, why, keep=lambda o: o['key'].split(':', 1)[0] == 'R18.5')
    rep.extra['R13.24'] = {'obligations_of_C18_reissued': n}


def r1334(P, rep):
    """decide, then judge: sa/lib_c13try.py"""
    from .. import lib_c13try
    lib_c13try.run(P, rep)


def r1335(P, rep):
    """a located diagnostic names the construct it is about: a diagnostic raised while a directive is processed -- in particular at the end marker that terminates the
    copied operands of the directive -- carries the line and file of the directive, not of whatever follows it (the next line, the including file, line N+1 of an N-line
    file: a position that need not exist in the input).  The obligations are C18's (R18.9)."""
    rep.rule('R13.35', 'a diagnostic about a preprocessing directive (raised at one of its tokens, at the end marker of its copied operands, or later at a token the directive '
                       'stored for that purpose) is located on the directive: never, on every path, at a token behind the end of the directive\'s line (obligations of C18 R18.9, '
                       're-issued)', floor=15)
    from ..report import Report, reissue
    from ..interp import Unsupported
    sub = Report('C18')
    try:
        from .. import lib_c18d
        lib_c18d.r189(P, sub)
    except (AnalysisBroken, Unsupported, ImportError, AttributeError) as e:
        rep.undecided('R13.35', 'preprocess.c:directive-diagnostics:engine', 'the directive loop cannot be interpreted: %s' % e)
        return
    why = ('error_tok() prints tok->file->name and tok->line_no of the token it is given: this diagnostic names a line (after the last directive of a file: a file, or a line '
           'that does not exist) the construct is not on, so the input is not answered with a LOCATED diagnostic: ')
    n = reissue(rep, 'R13.35', sub, why, keep=lambda o: o['key'].split(':', 1)[0] == 'R18.9')
    rep.extra['R13.35'] = {'obligations_of_C18_reissued': n}


def r1336(P, rep):
    """limits on values of the input: alignment is a power of two (R13.36), #include nesting is bounded (R13.37): sa/lib_c13lim.py"""
    from .. import lib_c13lim
    lib_c13lim.run_align(P, rep)
    lib_c13lim.run_depth(P, rep)
    lib_c13lim.run_paren(P, rep)


def r1327(P, rep):
    """initializer lists of valid programs reach no diagnostic for any member list (unnamed bit-fields, named bit-fields, anonymous members): sa/lib_c13sep.py"""
    from .. import lib_c13sep
    lib_c13sep.run(P, rep)


def r1331(P, rep):
    """an output that cannot be written is answered with a diagnostic: the result of flushing every stream opened for writing a file is examined after the last write
    (sa/lib_c13out.py)"""
    from .. import lib_c13out
    lib_c13out.run(P, rep)


def r1332(P, rep):
    """R13.32 (every postfix-expression form reaches the operator loop) and R13.33 (separately built equal types are compatible): sa/lib_c13post.py"""
    from .. import lib_c13post
    lib_c13post.run_postfix(P, rep)
    lib_c13post.run_compat(P, rep)


def r1329(P, W, rep):
    """R13.29 phase globals (a pointer global the code itself resets to NULL is dereferenced only in an established state, per phase) and R13.30 (the position field of a
    diagnostic about a missing field value travels with that field): sa/lib_c13glob.py"""
    from .. import lib_c13glob
    units = [un for un in ('parse.c', 'tokenize.c', 'preprocess.c', 'codegen.c', 'main.c', 'type.c') if un in P.unit_names]
    lib_c13glob.run(P, rep, units, skip=set(W.nullable_globals), nullable_rets=set(W.nullable_rets))
    lib_c13glob.run_pairs(P, rep, [un for un in ('parse.c', 'type.c', 'preprocess.c', 'tokenize.c') if un in P.unit_names])


def r1328(P, W, rep):
    """the probe loops of the hash table end in unreachable() ("internal error"): they leave through a return because a NULL slot exists on every probe sequence, which is
    the invariant `used` = number of slots that are not NULL (live entries AND tombstones) < capacity.  The premises are C17's obligations (re-issued); what C17 does not
    state -- nothing outside the functions it interprets writes the accounting fields -- is decided here over all units."""
    rule = 'R13.28'
    rep.rule(rule, 'the probe loops of hashmap.c cannot fall into their closing unreachable(): every probe sequence meets a NULL slot because `used` counts every slot that is '
                   'not NULL, tombstones included (incremented exactly when a NULL slot is claimed, left alone by delete, recomputed only by a rehash that re-inserts the live '
                   'entries into a fresh table), the load test with a high watermark below 100% precedes every insertion probe and the probe visits distinct slots (obligations of '
                   'C17 R17.2-R17.5 re-issued); no other function of any unit writes HashMap.used / capacity / buckets', floor=12)
    from ..report import Report, reissue
    from ..interp import Unsupported
    hu = 'hashmap.c'
    try:
        u = P.unit(hu)
    except AnalysisBroken as e:
        rep.undecided(rule, '%s:unit' % hu, str(e))
        return
    # the abort sites this rule is about: functions of the unit with a loop over the buckets that is followed by a call of a noreturn diagnostic
    sites = []
    for f, fd in sorted(u.functions.items()):
        body = u.body(f)
        if body is None:
            continue
        top = [c for c in body.inner]
        for i, st in enumerate(top):
            if st.kind in ('ForStmt', 'WhileStmt') and any(m.kind == 'MemberExpr' and m.name == 'buckets' for m in st.walk()) and any(m.kind == 'ReturnStmt' for m in st.walk()):
                for later in top[i + 1:]:
                    for c in later.walk():
                        if c.kind == 'CallExpr' and c.callee() in ('error', 'abort', '__assert_fail'):
                            sites.append(f)
    sites = sorted(set(sites))
    rep.extra[rule] = {'probe_loops_closed_by_an_abort': sites}
    if not sites:
        rep.undecided(rule, '%s:probe-loops' % hu, 'no probe loop followed by unreachable() found: the abort sites this rule is about are not recognised')
        return
    sub = Report('C17')
    try:
        from . import c17
        for need in ('get_entry', 'get_or_insert_entry', 'rehash', 'match', 'hashmap_put2', 'hashmap_get2', 'hashmap_delete2'):
            if need not in u.functions:
                raise AnalysisBroken('anchor function %s vanished from %s' % (need, hu))
        c17.r171(P, u, sub)
        c17.r172(P, u, sub)
        c17.r173(P, u, sub)
        c17.r175(P, u, sub)
    except (AnalysisBroken, Unsupported, ImportError, AttributeError) as e:
        rep.undecided(rule, '%s:table-functions:engine' % hu, 'the table functions cannot be interpreted: %s' % e)
        return
    why = ('%s end%s in unreachable(): a probe that meets no NULL slot prints "internal error" and exits on a valid program (find_macro probes the macro table for every '
           'identifier); a NULL slot is guaranteed only while `used` counts every non-NULL slot and stays below the capacity: ' % (' / '.join(sites), 's' if len(sites) == 1 else ''))

    def keep(o):
        r = o['key'].split(':', 1)[0]
        if r in ('R17.3', 'R17.4', 'R17.5'):
            return True
        return r == 'R17.2' and ('probe' in o['key'] or 'absent-only-at-null' in o['key'])
    n = reissue(rep, rule, sub, why, keep=keep)
    rep.extra[rule]['obligations_of_C17_reissued'] = n
    # who writes the accounting fields: only the functions interpreted above (insertion, rehash; delete is proved to leave them alone)
    interpreted = {'get_or_insert_entry', 'rehash', 'hashmap_delete2'}
    nw = 0
    for un in W.units:
        uu = W.units[un]
        for f, fd in sorted(uu.functions.items()):
            if un == hu and (f in interpreted or f == 'hashmap_test'):
                continue
            for m in fd.walk():
                tgt = None
                if m.kind in ('BinaryOperator', 'CompoundAssignOperator') and (m.opcode == '=' or m.kind == 'CompoundAssignOperator') and m.inner:
                    tgt = m.inner[0].strip()
                elif m.kind == 'UnaryOperator' and m.opcode in ('++', '--') and m.inner:
                    tgt = m.inner[0].strip()
                if tgt is None or tgt.kind != 'MemberExpr' or tgt.name not in ('used', 'capacity', 'buckets') or not tgt.inner:
                    continue
                bt = (tgt.inner[0].dtype or tgt.inner[0].type or '')
                if 'HashMap' not in bt:
                    continue
                nw += 1
                rep.ob(rule, '%s:%s:writes-HashMap.%s' % (un, f, tgt.name), False,
                       '%s writes HashMap.%s outside the insertion / rehash functions whose accounting is proved: the count of non-NULL slots the load test relies on is no '
                       'longer the one the probe loops need' % (f, tgt.name), where='%s:%d' % (un, m.line))
    rep.ob(rule, '%s:accounting-fields-written-only-by-insert-and-rehash' % hu, nw == 0, 'see the writers listed', where='%s:%d' % (hu, u.fn(sites[0]).line))


# --------------------------------------------------------------------------------------------
class _Undecidable(Exception):
    pass


def _ceval(n, env):
    """concrete evaluation of an int expression over the variables in env (decl id -> int)"""
    k = n.kind
    if k in ('ParenExpr', 'ConstantExpr'):
        return _ceval(n.inner[0], env)
    if k == 'ImplicitCastExpr' or k == 'CStyleCastExpr':
        v = _ceval(n.inner[-1], env)
        t = (n.dtype or n.type or '')
        return _wrap(v, t)
    if k in ('IntegerLiteral', 'CharacterLiteral'):
        return int(n.value)
    if k == 'DeclRefExpr':
        if n.ref_kind == 'EnumConstantDecl':
            v = n.unit.enum_value(n.ref_name)
            if v is None:
                raise _Undecidable('enumerator %s' % n.ref_name)
            return v
        if n.ref_id in env:
            return env[n.ref_id]
        raise _Undecidable('variable %s' % n.ref_name)
    if k == 'UnaryOperator':
        op = n.opcode
        if op in ('-', '+', '~', '!', '__extension__'):
            v = _ceval(n.inner[0], env)
            return {'-': -v, '+': v, '~': ~v, '!': int(not v), '__extension__': v}[op]
        raise _Undecidable('unary %s' % op)
    if k == 'BinaryOperator':
        op = n.opcode
        if op == '&&':
            return int(bool(_ceval(n.inner[0], env)) and bool(_ceval(n.inner[1], env)))
        if op == '||':
            return int(bool(_ceval(n.inner[0], env)) or bool(_ceval(n.inner[1], env)))
        if op == ',':
            _ceval(n.inner[0], env)
            return _ceval(n.inner[1], env)
        a = _ceval(n.inner[0], env)
        b = _ceval(n.inner[1], env)
        if op in ('/', '%') and b == 0:
            raise _Undecidable('division by zero')
        f = {'+': lambda: a + b, '-': lambda: a - b, '*': lambda: a * b, '&': lambda: a & b, '|': lambda: a | b, '^': lambda: a ^ b,
             '<<': lambda: a << b, '>>': lambda: a >> b, '==': lambda: int(a == b), '!=': lambda: int(a != b), '<': lambda: int(a < b),
             '>': lambda: int(a > b), '<=': lambda: int(a <= b), '>=': lambda: int(a >= b),
             '/': lambda: int(a / b), '%': lambda: a - int(a / b) * b}.get(op)
        if f is None or (op in ('<<', '>>') and not 0 <= b < 64):
            raise _Undecidable('operator %s' % op)
        return _wrap(f(), n.dtype or n.type or 'int')
    if k == 'ConditionalOperator':
        return _ceval(n.inner[1], env) if _ceval(n.inner[0], env) else _ceval(n.inner[2], env)
    if k == 'CallExpr':
        # a helper defined in the same unit whose body is a single `return expr;`
        c = n.callee()
        fd = n.unit.functions.get(c) if c else None
        if fd is not None:
            body = [x for x in fd.inner if x.kind == 'CompoundStmt']
            params = [x for x in fd.inner if x.kind == 'ParmVarDecl']
            if body and len(body[0].inner) == 1 and body[0].inner[0].kind == 'ReturnStmt' and body[0].inner[0].inner and len(params) == len(n.args()):
                env2 = {p.id: _wrap(_ceval(a, env), p.dtype or p.type or 'int') for p, a in zip(params, n.args())}
                return _wrap(_ceval(body[0].inner[0].inner[0], env2), (fd.type or 'int').split('(')[0].strip())
        raise _Undecidable('call to %s()' % c)
    if k == 'StmtExpr':
        # glibc: __extension__ ({ union { int __in; ... } __u; __u.__in = (status); __u.__i; }) in old headers
        raise _Undecidable('statement expression')
    raise _Undecidable(k)


_WIDTH = {'char': (8, True), 'signed char': (8, True), 'unsigned char': (8, False), 'short': (16, True), 'unsigned short': (16, False),
          'int': (32, True), 'unsigned int': (32, False), 'long': (64, True), 'unsigned long': (64, False), '_Bool': (1, False), 'bool': (1, False)}


def _wrap(v, t):
    w = _WIDTH.get(t.replace('const ', '').strip())
    if w is None:
        return v
    bits, signed = w
    if bits == 1:
        return int(v != 0)
    v &= (1 << bits) - 1
    if signed and v >> (bits - 1):
        v -= 1 << bits
    return v


def _cexec(stmts, env, noreturn, harmless):
    """concrete execution of a statement list; returns ('exit', code, callee) | ('return',) | ('fall',)"""
    for s in stmts:
        k = s.kind
        if k == 'CompoundStmt':
            r = _cexec(s.inner, env, noreturn, harmless)
            if r[0] != 'fall':
                return r
        elif k == 'NullStmt':
            continue
        elif k == 'IfStmt':
            c = _ceval(s.inner[0], env)
            if c:
                r = _cexec([s.inner[1]], env, noreturn, harmless)
            elif len(s.inner) > 2:
                r = _cexec([s.inner[2]], env, noreturn, harmless)
            else:
                r = ('fall',)
            if r[0] != 'fall':
                return r
        elif k == 'ReturnStmt':
            return ('return',)
        elif k == 'DeclStmt':
            for d in s.inner:
                if d.kind == 'VarDecl' and 'init' in d.d and d.inner:
                    env[d.id] = _wrap(_ceval(d.inner[-1], env), d.dtype or d.type or 'int')
        elif k == 'SwitchStmt':
            v = _ceval(s.inner[0], env)
            body = s.inner[-1]
            if body.kind != 'CompoundStmt':
                raise _Undecidable('switch shape')
            start = None
            dflt = None
            for i, c in enumerate(body.inner):
                x = c
                while x.kind in ('CaseStmt', 'DefaultStmt'):
                    if x.kind == 'DefaultStmt':
                        dflt = i if dflt is None else dflt
                    else:
                        lo = _ceval(x.inner[0], env)
                        hi = _ceval(x.inner[1], env) if len(x.inner) > 2 else lo
                        if lo <= v <= hi and start is None:
                            start = i
                    x = x.inner[-1]
            if start is None:
                start = dflt
            if start is None:
                continue
            seq = []
            for c in body.inner[start:]:
                x = c
                while x.kind in ('CaseStmt', 'DefaultStmt'):
                    x = x.inner[-1]
                seq.append(x)
            brk = False
            for x in seq:
                if x.kind == 'BreakStmt':
                    brk = True
                    break
                r = _cexec([x], env, noreturn, harmless)
                if r[0] != 'fall':
                    return r
        elif k == 'CallExpr':
            c = s.callee()
            if c in noreturn:
                code = None
                if c in ('exit', '_exit', '_Exit', 'quick_exit') and s.args():
                    code = _ceval(s.args()[0], env)
                elif c == 'abort':
                    code = 134
                else:
                    code = 1     # error(): exits 1 after the message (R14.7)
                return ('exit', code, c)
            if c in harmless:
                continue
            raise _Undecidable('call to %s()' % c)
        elif k == 'BinaryOperator' and s.opcode == '=' and s.inner[0].strip().kind == 'DeclRefExpr':
            env[s.inner[0].strip().ref_id] = _ceval(s.inner[1], env)
        else:
            raise _Undecidable('statement %s' % k)
    return ('fall',)


WAITERS = {'wait': 0, 'waitpid': 1, 'wait4': 1, 'wait3': 0}
HARMLESS = frozenset(['fprintf', 'printf', 'fputs', 'puts', 'fflush', 'perror', 'close', 'free'])


def r137(P, rep):
    rep.rule('R13.7', 'after waiting for a child, every non-zero wait status (exit code or signal) leads to exit with a non-zero code and status 0 does not '
                      '(a crashed cc1/as/ld is never reported as success)', floor=3)
    u = P.unit('main.c')
    W_noreturn = set(L.NORETURN_LIBC)
    for f, fd in u.fdecls.items():
        if any(c.kind in ('C11NoReturnAttr', 'NoReturnAttr') for c in fd.inner):
            W_noreturn.add(f)
    sites = []
    for f, fd in u.functions.items():
        for c in fd.calls(tuple(WAITERS)):
            sites.append((f, fd, c))
    if not sites:
        raise AnalysisBroken('main.c: no call to wait()/waitpid() found (anchor run_subprocess vanished)')
    for f, fd, call in sites:
        where = 'main.c:%d' % call.line
        a = call.args()[WAITERS[call.callee()]].strip_all() if len(call.args()) > WAITERS[call.callee()] else None
        if a is None or a.kind != 'UnaryOperator' or a.opcode != '&' or a.inner[0].strip().kind != 'DeclRefExpr':
            rep.undecided('R13.7', 'main.c:%s:status-variable' % f, 'the wait status is not stored into a plain local variable (argument %s)' % (a.src() if a else '?'), where=where)
            continue
        sid = a.inner[0].strip().ref_id
        body = u.body(f)
        top = call
        while top.parent is not None and top.parent is not body:
            top = top.parent
        if top.parent is not body:
            rep.undecided('R13.7', 'main.c:%s:wait-position' % f, 'wait() is not inside the function body', where=where)
            continue
        # the wait must not be conditional (an if/switch around it)
        p = call.parent
        cond_wait = False
        while p is not None and p is not body:
            if p.kind in ('IfStmt', 'SwitchStmt', 'ConditionalOperator'):
                cond_wait = True
            p = p.parent
        if cond_wait:
            rep.undecided('R13.7', 'main.c:%s:wait-position' % f, 'wait() is executed conditionally', where=where)
            continue
        rest = body.inner[body.inner.index(top) + 1:]
        # a wait that delivered a status succeeded: its result is the process id of the reaped child -- for waitpid(pid, ..) with a plain variable, the value of that
        # variable.  Where the result is kept in a variable (`ret = waitpid(pid, &status, 0)`, possibly retried in a loop), the code after the wait may test it.
        PID = 4242
        base_env = {}
        par = call.parent
        while par is not None and par.kind in ('ParenExpr', 'ImplicitCastExpr', 'CStyleCastExpr'):
            par = par.parent
        if par is not None and par.kind == 'BinaryOperator' and par.opcode == '=' and par.inner[0].strip().kind == 'DeclRefExpr' and par.inner[0].strip().ref_id != sid:
            base_env[par.inner[0].strip().ref_id] = PID
        elif par is not None and par.kind == 'VarDecl' and par.id != sid:
            base_env[par.id] = PID
        if WAITERS[call.callee()] == 1 and call.args():
            a0 = call.args()[0].strip_all()
            if a0.kind == 'DeclRefExpr' and a0.ref_kind in ('VarDecl', 'ParmVarDecl') and a0.ref_id != sid and a0.ref_id not in u.by_id:
                base_env[a0.ref_id] = PID
        mkenv = lambda st: dict(base_env, **{sid: st})
        # statuses wait() can deliver without WUNTRACED/WCONTINUED: exited(code) = code<<8, killed(sig[,core]) = sig | 0x80?
        classes = {'exit-code': [c << 8 for c in range(1, 256)],
                   'signal': [sig | core for sig in range(1, 127) for core in (0, 0x80)]}
        try:
            r0 = _cexec(rest, mkenv(0), W_noreturn, HARMLESS)
            rep.ob('R13.7', 'main.c:%s:status-0-is-success' % f, r0[0] != 'exit',
                   '%s() exits (code %s) although the child ended with status 0' % (f, r0[1] if r0[0] == 'exit' else ''), where=where)
            for cname, vals in sorted(classes.items()):
                bad = None
                for s in vals:
                    r = _cexec(rest, mkenv(s), W_noreturn, HARMLESS)
                    if r[0] != 'exit':
                        bad = (s, 'returns to its caller as if the child had succeeded')
                        break
                    if r[1] == 0 or (r[1] & 0xff) == 0:
                        bad = (s, 'calls %s(%d), i.e. reports success' % (r[2], r[1]))
                        break
                what = ''
                if bad:
                    s = bad[0]
                    d = ('child exit code %d' % (s >> 8)) if cname == 'exit-code' else ('child killed by signal %d%s' % (s & 0x7f, ' (core dumped)' if s & 0x80 else ''))
                    what = ('%s(): for wait status %d = 0x%04x (%s) the code after wait() %s: a front end that dies from SIGSEGV/SIGABRT would be followed by the '
                            'assembler on an empty file and the driver would exit 0 without any diagnostic' % (f, s, s, d, bad[1]))
                rep.ob('R13.7', 'main.c:%s:%s-is-failure' % (f, cname), bad is None, what, where=where, facts={'witness_status': bad[0] if bad else None})
        except _Undecidable as e:
            rep.undecided('R13.7', 'main.c:%s:status-test' % f, 'the code after wait() cannot be evaluated concretely (%s)' % e, where=where)


# --------------------------------------------------------------------------------------------
class _RuleProxy:
    """lets a rule function of another property report its obligations under a rule id of this property"""

    def __init__(self, rep, rule, prefix):
        self._rep, self._rule, self._prefix = rep, rule, prefix
        self.count = 0

    def rule(self, rule, doc, floor=1):
        pass

    def saw(self, *a, **k):
        pass

    def ob(self, rule, key, ok, what, where=None, facts=None):
        self.count += 1
        return self._rep.ob(self._rule, self._prefix + key, ok, what, where=where, facts=facts)

    def undecided(self, rule, key, why, where=None):
        self.count += 1
        return self._rep.undecided(self._rule, self._prefix + key, why, where=where)

    def __getattr__(self, name):
        return getattr(self._rep, name)


def r136_lines(P, rep):
    """the line a diagnostic names exists: every token of a file, the end-of-input token included, is stamped with the
    physical line count (>= 1).  Decided by the byte-loop analysis of C18 (R18.3), reported here under R13.6L."""
    rep.rule('R13.6L', 'the line number a located diagnostic prints exists in the input: add_line_numbers starts at 1, grows by one per newline, visits every byte up to and '
                       'including the terminating NUL (where the end-of-input token lives) and stamps the token that starts at the visited byte; tokenize() applies it to the whole '
                       'list after the end-of-input token was appended (no token keeps the calloc value 0)', floor=14)
    from . import c18
    from ..interp import Unsupported
    u = P.unit('tokenize.c')
    for f in ('add_line_numbers', 'tokenize', 'error_at'):
        if f not in u.functions:
            rep.undecided('R13.6L', 'tokenize.c:%s' % f, 'anchor function %s() vanished' % f)
            return
    px = _RuleProxy(rep, 'R13.6L', '')
    try:
        c18.r183(P, u, px)
    except (AnalysisBroken, Unsupported) as e:
        rep.undecided('R13.6L', 'tokenize.c:add_line_numbers:engine', 'the line-count analysis cannot interpret a construct it needs: %s' % e)


# --------------------------------------------------------------------------------------------
def _member_base_kinds(W, engs):
    """type kinds the parser accepts as the base of a member access: in the function(s) that build member nodes (they store
    Node.member), the kinds that do not reach the rejecting diagnostic on the base's type.  -> (kinds, [constructor functions])"""
    uni = W.enum_universe.get('TypeKind')
    if not uni:
        raise AnalysisBroken('enum TypeKind vanished')
    rejected = None
    ctors = []
    for (un, f), e in sorted(engs.items()):
        if un == 'codegen.c' or not any(rec == 'Node' and fld == 'member' for rec, fld, vs, node in e.stores):
            continue
        ctors.append('%s:%s' % (un, f))
        sites = {}
        for node, c, S, vals in e.calls:
            if c != 'error_tok' or not vals or vals[0].path is None or not vals[0].path.endswith('->tok'):
                continue
            # a diagnostic located at the base expression itself (first argument is <Node parameter>->tok) ...
            root = vals[0].path[:-len('->tok')]
            if not ('@' in root and root.split('@', 1)[1] in e.param_idx and L.rec_of(e.roots.get(root)) == 'Node'):
                continue
            fct = S.vs.get(root + '->ty->kind')
            sites.setdefault(node.id, []).append(fct)
        for fcts in sites.values():
            # ... that is reached only for some type kinds of the base
            if all(f is not None and f[0] == 'in' and f[1] < uni for f in fcts):
                for f in fcts:
                    rejected = set(f[1]) if rejected is None else (rejected | set(f[1]))
    if rejected is None:
        return None, ctors
    return frozenset(uni - rejected), ctors


def r138(W, engs, rep):
    """an expression the parser accepts as the base of `.member` has an address in the code generator"""
    rep.rule('R13.8', 'every expression the parser accepts as the base of a member access (its type kind passes the check of the member-node constructor) is given an address by '
                      'gen_addr: where gen_addr handles a node kind only under a condition, the rejecting branch ("not an lvalue") excludes every accepted type kind, directly or '
                      'through a node field that the parser sets for every accepted type kind (otherwise a valid program is rejected)', floor=3)
    A, ctors = _member_base_kinds(W, engs)
    if not A:
        rep.undecided('R13.8', 'parse.c:member-access:accepted-kinds', 'the type kinds accepted as the base of a member access are not recognised (constructors of member nodes: %s)' % (ctors or 'none'))
        return
    e = engs.get(('codegen.c', 'gen_addr'))
    if e is None or not e.params:
        raise AnalysisBroken('codegen.c:gen_addr vanished')
    p0 = '%s@%s' % (e.params[0].name, e.params[0].id)
    nptr = set(fn for u in W.units.values() for (fn, ft, bf) in u.records.get('Node', []) if L.is_ptr_type(ft))
    inv_cache = {}

    def parser_sets(field, kinds):
        """[(function, accepted type kinds for which a returned node has no `field`)] over the parser functions that store Node.field"""
        if field in inv_cache:
            return inv_cache[field]
        out, n = [], 0
        for (un, g), eg in sorted(engs.items()):
            if un == 'codegen.c' or not any(rec == 'Node' and fld == field for rec, fld, vs, node in eg.stores):
                continue
            n += 1
            ex = L.Engine(W, W.units[un], g, hooks={'keep_exit_states': True}).run()
            miss = set()
            for path, S in ex.exit_vals:
                if path is None or L.rec_of(ex.roots.get(L._root(path))) != 'Node':
                    continue
                nk = S.vs.get(path + '->kind')
                if nk and nk[0] == 'in' and not (set(nk[1]) & kinds):
                    continue
                tk = S.vs.get(path + '->ty->kind')
                poss = set(A) if tk is None else (set(A) & set(tk[1]) if tk[0] == 'in' else set(A) - set(tk[1]))
                st = S.nul.get(path + '->' + field)
                if poss and (st is None or st[0] == 'NULL'):
                    miss |= poss
            out.append(('%s:%s' % (un, g), sorted(miss), eg.fd.line))
        inv_cache[field] = (out, n)
        return inv_cache[field]

    judged = 0
    for node, c, S, vals in e.calls:
        if c != 'error_tok':
            continue
        kf = S.vs.get(p0 + '->kind')
        if not kf or kf[0] != 'in' or len(kf[1]) > 4 or not all(isinstance(x, str) for x in kf[1]):
            continue        # the state of "no handler for this kind": which kinds have an address at all is R04.4
        kinds = set(kf[1])
        kname = ','.join(sorted(kinds))
        where = 'codegen.c:%d' % node.line
        tk = S.vs.get(p0 + '->ty->kind')
        guards = sorted(p[len(p0) + 2:] for p, v in S.nul.items() if p.startswith(p0 + '->') and v[0] == 'NULL' and p[len(p0) + 2:] in nptr)
        off = None
        if tk is not None:
            off = sorted((set(A) & set(tk[1])) if tk[0] == 'in' else (set(A) - set(tk[1])))
        if off is not None and (not off or not guards):
            judged += 1
            rep.ob('R13.8', 'codegen.c:gen_addr:%s:accepted-base-has-address%s' % (kname, ('<-' + ','.join(off)) if off else ''), not off,
                   'gen_addr() sends a %s node whose type is %s to "not an lvalue", but the parser accepts an expression of that type as the base of a member access '
                   '(accepted kinds: %s) and its value lives in memory: a valid program such as `(a = b).m` / `(c ? a : b).m` is rejected'
                   % (kname, ' or '.join(off), ','.join(sorted(A))), where=where, facts={'accepted_base_kinds': sorted(A), 'rejected_under': sorted(off)})
            continue
        if not guards:
            rep.undecided('R13.8', 'codegen.c:gen_addr:%s:reject-condition' % kname, 'the condition under which gen_addr() rejects a %s node is neither a test of its type kind nor a null test of a node field' % kname, where=where)
            continue
        for fld in guards:
            res, n = parser_sets(fld, kinds)
            judged += 1
            if n == 0:
                rep.undecided('R13.8', 'codegen.c:gen_addr:%s:%s-set-by-parser' % (kname, fld), 'gen_addr() rejects a %s node without %s, but no parser function that sets Node.%s was found' % (kname, fld, fld), where=where)
                continue
            rep.ob('R13.8', 'codegen.c:gen_addr:%s:accepted-base-has-address(via-%s)' % (kname, fld), True, '', where=where)
            for g, miss, line in res:
                rep.ob('R13.8', '%s:%s-for-accepted-bases%s' % (g, fld, ('<-' + ','.join(miss)) if miss else ''), not miss,
                       '%s() returns a %s node of type %s without setting %s, and gen_addr() answers a member access on such a node with "not an lvalue" (the parser accepts '
                       'bases of kinds %s): a valid program such as `f().m` is rejected' % (g.split(':')[1], kname, ' or '.join(miss), fld, ','.join(sorted(A))),
                       where='%s:%d' % (g.split(':')[0], line), facts={'accepted_base_kinds': sorted(A)})
    if judged == 0:
        rep.undecided('R13.8', 'codegen.c:gen_addr:conditional-arms', 'no conditionally handled node kind of gen_addr() reaches its diagnostic (shape not recognised)')


# --------------------------------------------------------------------------------------------
def _conjuncts(n):
    n = n.strip()
    if n.kind == 'BinaryOperator' and n.opcode == '&&':
        return _conjuncts(n.inner[0]) + _conjuncts(n.inner[1])
    return [n]


def r139_pre(W, rep):
    """the two facts the length predicates of R13.9 rest on: the predicate is true only if the string ends at the token's length,
    and every construction of the end marker gives it length 0"""
    for f, (ti, si, when) in sorted(LEN_PREDICATES.items()):
        uns = W.fn_unit.get(f, [])
        if len(uns) != 1:
            rep.undecided('R13.9', 'predicate:%s' % f, 'the token/string comparison %s() is not defined exactly once' % f)
            continue
        u = W.units[uns[0]]
        fd = u.functions[f]
        ps = [c for c in fd.inner if c.kind == 'ParmVarDecl']
        rets = fd.find('ReturnStmt')
        lf = MARKER_LEN_FIELD.get(L.rec_of(ps[ti].type) if ti < len(ps) else None)
        ok = bool(rets) and lf is not None and si < len(ps)
        def is_len(x):
            x = x.strip_all()
            return (x.kind == 'MemberExpr' and x.name == lf and x.inner[0].strip_all().kind == 'DeclRefExpr' and x.inner[0].strip_all().ref_id == ps[ti].id)

        def is_str(x):
            x = x.strip_all()
            return x.kind == 'DeclRefExpr' and x.ref_id == ps[si].id
        for r in rets:
            if not ok:
                break
            if r.inner and r.inner[0].strip_all().int_value() == 0:
                continue            # `return false;`
            good = False
            for c in (_conjuncts(r.inner[0]) if r.inner else []):
                if c.kind != 'BinaryOperator' or c.opcode != '==':
                    continue
                for a, b in ((c.inner[0].strip_all(), c.inner[1].strip_all()), (c.inner[1].strip_all(), c.inner[0].strip_all())):
                    # str[tok->len] == 0   or   tok->len == strlen(str)
                    if a.kind == 'ArraySubscriptExpr' and b.int_value() == 0 and is_str(a.inner[0]) and is_len(a.inner[1]):
                        good = True
                    if is_len(a) and b.kind == 'CallExpr' and b.callee() == 'strlen' and b.args() and is_str(b.args()[0]):
                        good = True
            ok = ok and good
        key = '%s:%s:true-only-if-string-ends-at-token-length' % (uns[0], f)
        if ok:
            rep.ob('R13.9', key, True, '', where='%s:%d' % (uns[0], fd.line))
        else:
            rep.undecided('R13.9', key, '%s() is no longer recognised as `... && str[tok->len] == 0`: whether a successful comparison with a non-empty string excludes the end marker cannot be told' % f,
                          where='%s:%d' % (uns[0], fd.line))
    n = 0
    for rec, (kf, marker, link) in sorted(END_MARKER.items()):
        lf = MARKER_LEN_FIELD.get(rec)
        for un, u in sorted(W.units.items()):
            for f, fd in sorted(u.functions.items()):
                # (a) stores  X->kind = MARKER
                for b in fd.find('BinaryOperator'):
                    if b.opcode != '=':
                        continue
                    lhs, rhs = b.inner[0].strip(), b.inner[1].strip_all()
                    if not (lhs.kind == 'MemberExpr' and lhs.name == kf and L.rec_of(L.pointee(lhs.inner[0].type or '') if lhs.d.get('isArrow') else lhs.inner[0].type) == rec):
                        continue
                    if not (rhs.kind == 'DeclRefExpr' and rhs.ref_kind == 'EnumConstantDecl' and rhs.ref_name == marker):
                        continue
                    base = lhs.inner[0].src()
                    zero = any(x.opcode == '=' and x.inner[0].strip().kind == 'MemberExpr' and x.inner[0].strip().name == lf and x.inner[0].strip().inner[0].src() == base
                               and x.inner[1].int_value() == 0 for x in fd.find('BinaryOperator'))
                    n += 1
                    rep.ob('R13.9', '%s:%s:marker-has-length-0' % (un, f), zero,
                           '%s() turns a token into the end marker (%s) without setting its length to 0: equal(marker, "x") can then be true and the parser advances past the end of the list' % (f, marker),
                           where='%s:%d' % (un, b.line))
                # (b) constructor calls  g(MARKER, start, end)
                for c in fd.calls():
                    g = c.callee()
                    a = c.args()
                    idx = [i for i, x in enumerate(a) if x.strip_all().kind == 'DeclRefExpr' and x.strip_all().ref_kind == 'EnumConstantDecl' and x.strip_all().ref_name == marker]
                    if not idx or g not in W.fn_unit or W.ret_kind.get(g) != ('param', idx[0]):
                        continue
                    gu = W.resolve(u, g)
                    gd = gu.functions[g]
                    gp = [x.id for x in gd.inner if x.kind == 'ParmVarDecl']
                    pair = None
                    for x in gd.find('BinaryOperator'):
                        l = x.inner[0].strip()
                        if x.opcode == '=' and l.kind == 'MemberExpr' and l.name == lf:
                            r = x.inner[1].strip_all()
                            if r.kind == 'BinaryOperator' and r.opcode == '-':
                                p, q = r.inner[0].strip_all(), r.inner[1].strip_all()
                                if p.kind == q.kind == 'DeclRefExpr' and p.ref_id in gp and q.ref_id in gp:
                                    pair = (gp.index(p.ref_id), gp.index(q.ref_id))
                    n += 1
                    key = '%s:%s:marker-has-length-0' % (un, f)
                    if pair is None or max(pair) >= len(a):
                        rep.undecided('R13.9', key, 'the length %s() gives the token it constructs is not recognised as `end - start`' % g, where='%s:%d' % (un, c.line))
                    else:
                        rep.ob('R13.9', key, a[pair[0]].src() == a[pair[1]].src(),
                               '%s() constructs the end marker with the text %s..%s, which is not empty: equal(marker, "x") can then be true and the parser advances past the end of the list'
                               % (f, a[pair[1]].src(), a[pair[0]].src()), where='%s:%d' % (un, c.line))
    if n == 0:
        rep.undecided('R13.9', 'marker:constructions', 'no construction of the end marker was recognised')


# --------------------------------------------------------------------------------------------
def _divisor_field(e, d):
    """set of (record, field) the divisor of a division is read from: `x->f`, `x->f * c`, `c ? x->f : y->g`, or a local initialised with such an expression"""
    def field_of(n, depth=0):
        n = n.strip_all()
        if n.kind == 'BinaryOperator' and n.opcode == '*':
            a, b = n.inner[0].strip_all(), n.inner[1].strip_all()
            if a.int_value() not in (None, 0):
                return field_of(b, depth)
            if b.int_value() not in (None, 0):
                return field_of(a, depth)
            return set()
        if n.kind == 'UnaryOperator' and n.opcode in ('-', '+'):
            return field_of(n.inner[0], depth)
        if n.kind == 'ConditionalOperator':
            return field_of(n.inner[1], depth) | field_of(n.inner[2], depth)
        if n.kind == 'MemberExpr':
            bt = n.inner[0].type or ''
            rec = L.rec_of(L.pointee(bt) if n.d.get('isArrow') else bt)
            return set([(rec, n.name)]) if rec else set()
        if n.kind == 'DeclRefExpr' and n.ref_kind == 'VarDecl' and n.ref_id not in n.unit.by_id and depth < 2:
            decl = [x for x in e.fd.find('VarDecl') if x.id == n.ref_id]
            if decl and 'init' in decl[0].d and decl[0].inner:
                return field_of(decl[0].inner[-1], depth + 1)
        return set()
    return field_of(d['dnode'])


def r1311(W, engs, rep):
    """host arithmetic that traps: the compiler's own integer divisions"""
    rep.rule('R13.11', 'the compiler never divides by zero on the host: where the divisor of an integer `/` or `%` (or an argument handed to a parameter the callee divides by) is a value '
                       'of the input (result of the constant-expression evaluators, derived from the fields that hold literal values), a dominating test or diagnostic excludes 0; '
                       'where both operands of a signed division are values of the input, -1 is excluded as well (INT64_MIN / -1 traps like a zero divisor); a value of the input '
                       'that may be 0 is not stored into a field that the compiler divides by (SIGFPE instead of a located diagnostic)', floor=4)
    obs = {}
    notjudged = set()
    divfields = {}

    def put(key, ok, msg, where, facts=None, und=None):
        o = obs.get(key)
        if o is None or (not ok and o[0]):
            obs[key] = (ok, msg, where, facts, und)

    for (un, f), e in sorted(engs.items()):
        for d in e.divs.values():
            how = d['how']
            fld = _divisor_field(e, d)
            where = '%s:%d' % (un, d['node'].line)
            q = d['alias'] or d['path']
            shown = e.show(q) if q else _canon(d['dnode'])
            opname = (('s' if d['signed'] else 'u') + how) if how in ('/', '%') else how.replace(' ', '_')
            base = '%s:%s:%s%s:divisor=%s' % (un, f, (d['ctx'] + ':') if d['ctx'] else '', opname, shown)
            for x in fld:
                divfields.setdefault(x, set()).add('%s:%s' % (un, f))
            inp = d['src'] is not None and d['src'][0] in L.ZSRC
            if d['cls'] == 'zero' and d['path'] is None:
                put(base + ':nonzero', False, '%s() divides by the constant 0 (`%s`)' % (f, d['node'].src()), where)
                continue
            if not inp:
                if d['const'] is None and d['dnode'].strip_all().kind != 'UnaryExprOrTypeTraitExpr':
                    notjudged.add(base + ''.join(' [%s.%s]' % x for x in sorted(fld)))
                continue
            src = '%s: %s' % (d['src'][1], d['src'][2]) if len(d['src']) > 2 else d['src'][1]
            if d['cls'] in ('z', 'zero'):
                if d['rel']:
                    put(base + ':nonzero', True, '', where, und='the divisor `%s` (%s) is constrained by a relational test only; whether the test excludes 0 is not decided' % (d['dnode'].src(), src))
                else:
                    put(base + ':nonzero', False,
                        '%s() %s `%s`, a value of the input that can be 0 (%s), and no dominating test or diagnostic excludes 0%s: the host executes a division by zero and the compiler '
                        'dies with SIGFPE (through the driver: exit 1 without any message) instead of printing a located diagnostic'
                        % (f, ('divides by' if how in ('/', '%') else 'passes to a parameter that the callee divides by (%s)' % how), d['dnode'].src(), src, (' (in the arm %s)' % d['ctx']) if d['ctx'] else ''),
                        where, {'divisor': d['dnode'].src(), 'source': src})
            else:
                put(base + ':nonzero', True, '', where)
            if d['ovf'] is not None:
                put(base + ':not-minus-one', d['ovf'] == 'ok',
                    '%s() computes the signed `%s` on the host with both operands taken from the input (%s); the divisor is tested against 0 but not against -1: for the most negative '
                    'dividend (INT64_MIN / -1, INT64_MIN %% -1) the host division traps and the compiler dies with SIGFPE instead of answering%s'
                    % (f, d['node'].src(), src, (' (in the arm %s)' % d['ctx']) if d['ctx'] else ''), where, {'expression': d['node'].src()})
    # stores into fields the compiler divides by
    for (un, f), e in sorted(engs.items()):
        for rec, fld, cls, src, node in e.fstores:
            if (rec, fld) not in divfields or src is None or src[0] != 'zero':
                continue
            key = '%s:%s:store(%s.%s)<-%s:nonzero' % (un, f, rec, fld, src[1].replace(' ', ''))
            put(key, cls == 'nz',
                '%s() stores `%s`, a value of the input that can be 0 (%s), into %s.%s without excluding 0, and %s divide%s by that field: an input that makes it 0 ends in a host division by '
                'zero (SIGFPE) instead of a located diagnostic or the documented behaviour'
                % (f, node.inner[1].src() if len(node.inner) > 1 else '?', src[2] if len(src) > 2 else src[1], rec, fld, ', '.join(sorted(divfields[(rec, fld)])), 's' if len(divfields[(rec, fld)]) == 1 else ''),
                '%s:%d' % (un, node.line), {'divided_by_in': sorted(divfields[(rec, fld)])})
    for key, (ok, msg, where, facts, und) in sorted(obs.items()):
        if und and ok:
            rep.undecided('R13.11', key, und, where=where)
        else:
            rep.ob('R13.11', key, ok, msg, where=where, facts=facts)
    rep.extra['host_division'] = {'input_valued_functions (derived)': {k: v[2] for k, v in sorted(W.zero_rets.items())},
                                  'parameters_receiving_unchecked_input_values (derived)': {'%s#%d' % (f, i + 1): v[2] for (f, i), v in sorted(W.zero_params.items())},
                                  'parameters_divided_by (derived)': sorted('%s#%d' % (f, i + 1) for (f, i) in W.mustdiv),
                                  'fields_divided_by': sorted('%s.%s' % k for k in divfields),
                                  'divisors_not_judged (not a value of the input: invariants of the compiler\'s own data)': sorted(notjudged)}
    if not W.zero_rets:
        rep.undecided('R13.11', 'derivation:input-valued-functions', 'no function that returns a value of the input was derived from %s (fields renamed or the evaluator changed shape)'
                      % ', '.join('%s.%s' % k for k in sorted(INPUT_VALUE_FIELDS)))


# --------------------------------------------------------------------------------------------
def _engine_path(e, n):
    """engine path of an lvalue expression made of a variable and member accesses"""
    n = n.strip_all()
    if n.kind == 'DeclRefExpr' and n.ref_kind in ('VarDecl', 'ParmVarDecl'):
        return e.root_path(n)
    if n.kind == 'MemberExpr':
        b = _engine_path(e, n.inner[0])
        if b is None:
            return None
        return b + ('->' if n.d.get('isArrow') else '.') + n.name
    return None


def r1312(W, engs, rep):
    """what the language leaves unevaluated is not evaluated (and so not diagnosed)"""
    rep.rule('R13.12', 'text that C says is not evaluated is not handed to the constant-expression evaluators, whose diagnostics (division by zero, not a constant, syntax) would '
                       'reject a valid program: the right operand of && / ||, the unselected arm of ?: are evaluated only under the matching outcome of the controlling operand; the '
                       'expression of #elif only while no earlier group of the conditional was taken', floor=5)
    uni = None
    for u in W.units.values():
        uni = uni or W.enum_universe.get(u.enum_of.get('ND_COND'))
    if not uni or any(k not in uni for k in LAZY_OPERANDS):
        rep.undecided('R13.12', 'table:node-kinds', 'the node kinds %s are not all enumerators of one enum any more' % ', '.join(sorted(LAZY_OPERANDS)))
        return
    if not W.evaluators:
        rep.undecided('R13.12', 'derivation:evaluators', 'no recursive value evaluator over Node was recognised')
        return
    lazy_fields = set(x for k, (c, ops) in LAZY_OPERANDS.items() for x in ops)
    obs = {}
    seen_kinds = set()
    for (un, f), e in sorted(engs.items()):
        if un == 'codegen.c':
            continue
        for node, c, S, vals in e.calls:
            ai = 0 if c in W.evaluators else W.truth_helpers.get(c)      # a helper that returns the truth value of its node evaluates it
            if ai is None or ai >= len(vals) or vals[ai].path is None or '->' not in vals[ai].path:
                continue
            base, fld = vals[ai].path.rsplit('->', 1)
            an = node.args()[ai].strip_all()
            if fld not in lazy_fields or L.rec_of(an.inner[0].type if an.kind == 'MemberExpr' else None) != 'Node':
                continue
            kf = S.vs.get(base + '->kind')
            if kf is None and '@' in base and not any(ch in base for ch in '-.[') and base.split('@', 1)[1] in e.param_idx and base not in e.assigned_params \
                    and len(W.fn_unit.get(f, ())) == 1:
                # a helper of the evaluators that leaves the dispatch on the node kind to its callers (eval_double -> eval_flonum_binary): the node has one of the
                # kinds under which some caller hands it over
                pi = e.param_idx[base.split('@', 1)[1]]
                acc = None
                for (un2, f2), e2 in engs.items():
                    for node2, c2, S2, vals2 in e2.calls:
                        if c2 != f or pi >= len(vals2) or W.resolve(e2.u, f) is not e.u:
                            continue
                        if vals2[pi].path is None:
                            acc = set(uni)
                            continue
                        kk, known = _kinds_at(S2, vals2[pi].path, uni)
                        acc = kk if acc is None else (acc | kk)
                kinds = set(uni) if acc is None else set(x for x in acc if isinstance(x, str))
            elif kf is None:
                kinds = set(uni)
            elif kf[0] == 'in':
                kinds = set(x for x in kf[1] if isinstance(x, str))
            else:
                kinds = set(uni) - set(kf[1])
            for K in sorted(kinds & set(LAZY_OPERANDS)):
                ctrl, ops = LAZY_OPERANDS[K]
                if fld not in ops:
                    continue
                need = ops[fld]
                got = S.pc.get('value-of(%s->%s)' % (base, ctrl))
                ok = got is not None and got[0] == need
                seen_kinds.add(K)
                key = '%s:%s:%s:%s-evaluated-only-if-%s-is-%s' % (un, f, K, fld, ctrl, 'nonzero' if need else 'zero')
                if got is None:
                    why = 'without a test of the value of `->%s` that dominates the call' % ctrl
                else:
                    why = 'on the outcome `->%s is %s`' % (ctrl, 'nonzero' if got[0] else 'zero')
                msg = ('%s() evaluates the operand `%s` of a %s node %s; C evaluates it only if the %s operand is %s, and the evaluator diagnoses what it evaluates (division by zero, '
                       'not a compile-time constant): a valid constant expression such as `%s` is rejected with a diagnostic'
                       % (f, an.src(), K, why, ctrl, 'nonzero' if need else 'zero',
                          {'ND_LOGAND': '0 && 1/0', 'ND_LOGOR': '1 || 1/0', 'ND_COND': 'x ? 1 : 1/0'}.get(K, '?')))
                o = obs.get(key)
                if o is None or (not ok and o[0]):
                    obs[key] = (ok, msg, '%s:%d' % (un, node.line))
    for key, (ok, msg, where) in sorted(obs.items()):
        rep.ob('R13.12', key, ok, msg, where=where)
    for K in sorted(set(LAZY_OPERANDS) - seen_kinds):
        rep.undecided('R13.12', 'evaluators:%s' % K, 'no evaluator call on a lazy operand of %s was recognised (evaluators: %s)' % (K, ', '.join(sorted(W.evaluators))))
    # conditional inclusion: the expression of #elif
    arms = _directive_arms(W)
    njudged = 0
    for un, g, ifs, arm in arms:
        e = engs.get((un, g))
        if e is None:
            continue
        # the flag that records "a group of this conditional was taken": the boolean field this arm sets when its own group is taken
        flags = {}
        for b in arm.find('BinaryOperator'):
            if b.opcode != '=':
                continue
            lhs = b.inner[0].strip()
            if lhs.kind == 'MemberExpr' and (lhs.dtype or lhs.type or '') in ('_Bool', 'bool') and b.inner[1].strip_all().int_value() == 1:
                p = _engine_path(e, lhs)
                if p is not None:
                    flags[p] = lhs.src()
        calls = [c for c in arm.calls() if c.callee() in W.reach_eval]
        dname = [a.args()[-1].str_value() for a in ifs.inner[0].calls() if a.args() and a.args()[-1].str_value() in LAZY_DIRECTIVES][0]
        for c in calls:
            key = '%s:%s:#%s:%s()-only-if-no-group-taken' % (un, g, dname, c.callee())
            where = '%s:%d' % (un, c.line)
            if len(flags) != 1:
                rep.undecided('R13.12', key, 'the flag by which the #%s arm records that a group was taken is not recognised (boolean fields it sets to true: %s)' % (dname, sorted(flags.values()) or 'none'), where=where)
                njudged += 1
                continue
            fp, fsrc = list(flags.items())[0]
            states = [S for n, cal, S, v in e.calls if n is c]
            if not states:
                rep.undecided('R13.12', key, 'the call is not reached by the analysis', where=where)
                njudged += 1
                continue
            bad = 0
            for S in states:
                good = False
                for q in [fp] + [l for l, o in S.ali.items() if o == fp]:
                    n_ = S.nul.get(q)
                    w = S.vs.get(q)
                    if (n_ is not None and n_[0] == 'NULL') or (w is not None and w[0] == 'in' and set(w[1]) == {0}):
                        good = True
                if not good:
                    bad += 1
            njudged += 1
            rep.ob('R13.12', key, bad == 0,
                   '%s() hands the rest of a #%s line to %s() in a state where `%s` is not known to be false: once an earlier group of the conditional was taken the directive must be skipped '
                   'without looking at its expression (C11 6.10.1p6), but here it is parsed and evaluated, so `#if !defined(F) ... #elif F(x)` or `#if N == 0 ... #elif 100 / N` is rejected with '
                   '"not a function" / "division by zero" although the program is valid' % (g, dname, c.callee(), fsrc), where=where)
    if njudged == 0:
        rep.undecided('R13.12', 'directive:%s' % '/'.join(LAZY_DIRECTIVES), 'no evaluation of a controlling expression under a test for the directive name %s was recognised' % '/'.join('"%s"' % d for d in LAZY_DIRECTIVES))


# --------------------------------------------------------------------------------------------
_RSP_PART = None


def _touches_rsp(what):
    """does the text of a failed C20 arm obligation (R20.1/R20.2/R20.7: machine stack AND x87 stack) report a machine-stack imbalance?  Its parts are
    produced by sa/chibi.flow_heights and c20.check_kind; a part that is not recognised counts as relevant (never drops a violation silently)."""
    import re
    body = what.split('): ', 1)[1] if '): ' in what else what
    for part in body.split('; '):
        m = re.search(r'%rsp ([+-]?\d+) bytes and x87 depth', part)
        if m:
            if int(m.group(1)) != 0:
                return True
            continue
        m = re.search(r'inconsistent stack height at .*: \((-?\d+), -?\d+\) vs \((-?\d+), -?\d+\)', part)
        if m:
            if m.group(1) != m.group(2):
                return True
            continue
        if 'x87 mnemonic' in part:
            continue
        return True
    return False


def r1317(P, W, rep, tier):
    """assert(depth == 0): the counter of pushed slots returns to 0 at the end of every function.  By induction over the tree: each arm of gen_expr / gen_stmt /
    gen_addr leaves `depth` where it found it provided its children do.  That is what C20 proves from the emitted code: `depth` follows %rsp (R20.3), each arm and
    each call sequence is %rsp-neutral (R20.1/R20.2/R20.7 machine-stack part, R20.5).  The obligations are C20's; a breach of one of them is, for this property,
    an input on which the assertion aborts the compiler."""
    cu = W.units['codegen.c']
    sites = []
    for f, fd in sorted(cu.functions.items()):
        for c in fd.calls('__assert_fail'):
            cond, neg = _assert_cond(c)
            if cond is None:
                continue
            refs = [n for n in cond.walk() if n.kind == 'DeclRefExpr' and n.ref_kind == 'VarDecl' and n.ref_id in cu.by_id]
            # an assertion about a global integer counter of the code generator that its push/pop helpers maintain
            if refs and all(n.ref_name == refs[0].ref_name for n in refs) and (refs[0].type or '') == 'int' and not list(cond.find('MemberExpr')):
                sites.append((f, c, cond, refs[0].ref_name))
    sites = [s for s in sites if s[3] == 'depth']
    if not sites:
        rep.extra['R13.17'] = 'no assertion on the stack counter `depth` is left in codegen.c: nothing to prove'
        return
    rep.rule('R13.17', 'the assertion on the code generator\'s stack counter (`depth` is 0 again at the end of every function) cannot fail: on every path of every gen_expr / gen_stmt / '
                       'gen_addr arm `depth` moves exactly with the emitted %rsp motion, every arm is %rsp-neutral given the same of its children, and everything pushed for a call '
                       '(arguments, padding for 16-byte aligned arguments, alignment of the call) is released after it for every argument class and stack parity (obligations of C20, re-issued)', floor=150)
    from ..report import Report, reissue
    from ..interp import Unsupported
    from . import c20
    f0, c0, cond0, g = sites[0]
    where = 'codegen.c:%d' % c0.line
    sub = Report('C20')
    try:
        if hasattr(c20, '_seen_depth'):
            c20._seen_depth.clear()
        c20.run(P, sub, tier)
    except (AnalysisBroken, Unsupported) as e:
        rep.undecided('R13.17', 'codegen.c:%s:assert(%s)' % (f0, _canon(cond0)), 'the stack accounting of the code generator cannot be interpreted: %s' % e, where=where)
        return
    why = ('%s() asserts `%s` (codegen.c:%d); an expression or statement of this form leaves the counter off, so a valid program that contains it makes the assertion abort the '
           'compiler (SIGABRT) instead of producing assembly: ' % (f0, cond0.src(), c0.line))

    def keep(o):
        r = o['key'].split(':', 1)[0]
        if r == 'R20.3':
            return True
        if r == 'R20.5':
            return not o['key'].endswith(':x87')
        if r in ('R20.1', 'R20.2', 'R20.7'):
            return o['verdict'] != 'violation' or _touches_rsp(o['what'] or '')
        return False
    n = reissue(rep, 'R13.17', sub, why, keep=keep)
    if 'asserts_not_judged' in rep.extra:
        rep.extra['asserts_not_judged'] = [k for k in rep.extra['asserts_not_judged'] if k != 'codegen.c:%s:assert(%s)' % (f0, _canon(cond0))]
    rep.extra['R13.17'] = {'assertion': 'codegen.c:%s:assert(%s)' % (f0, _canon(cond0)), 'obligations_of_C20_reissued': n}
    rep.extra['R13.17']['calls_under_register_pressure'] = _r1317_pressure(P, rep, why, where)


def _r1317_pressure(P, rep, why, where):
    """the sites of the call sequence that decide 'this aggregate travels in registers' (what is pushed as a memory argument, what is popped into a register after the
    arguments were evaluated) have to agree for every state of BOTH register counters: an aggregate of one class after the registers of the OTHER class have run out, with
    one register left, with none left.  C20's R20.5 visits each argument class once; here every aggregate shape of the psABI vocabulary is put behind k integer and l floating
    scalars for every (k, l) of the register-exhaustion grid of C06, and the emitted sequence is run on the term machine: the slots pushed for the call are released and
    `depth` is back at its value before the call.  A sequence that takes more off the stack than it pushed is a definite imbalance (the assertion fails), not a limit of
    the analysis."""
    from ..report import Report
    from ..chibi import CG
    from ..lib_abi import Builder, STRUCTS, CLASS_ONLY
    from ..x86 import Unknown
    from ..interp import Unsupported
    from . import c20
    from .c06 import run_caller
    ks, ls = (0, 5, 6, 7), (0, 7, 8, 9)
    corners = ((ks[0], ls[0]), (ks[-1], ls[0]), (ks[0], ls[-1]), (ks[-1], ls[-1]))
    cg = CG(P)
    B = Builder(P)
    n = 0
    with c20._shapes():
        _S = STRUCTS
        shapes = sorted(_S)
        for t in shapes:
            size = _S[t][0]
            reduced = t in CLASS_ONLY or size > 16        # classification-only shapes and aggregates that are in memory whatever the counters say: the corners
            for k in ks:
                for l in ls:
                    if reduced and (k, l) not in corners:
                        continue
                    for depth0 in (0, 1):
                        if depth0 == 1 and (k, l) not in corners[1:]:
                            continue
                        if reduced and depth0 != (1 if (k, l) == corners[-1] else 0):
                            continue
                        types = ['long'] * k + ['double'] * l + [t, 'int', 'double']
                        key = 'codegen.c:ND_FUNCALL:%s-after-%dgp-%dsse/depth%d:pushed-slots-released' % (t, k, l, depth0)
                        n += 1
                        try:
                            ctx, tr, s = run_caller(cg, B, types, 'int', depth0)
                        except Unknown as e:
                            m = str(e)
                            if 'pop from an empty abstract stack' in m and 'x87' not in m or 'beyond the abstract stack' in m:
                                rep.ob('R13.17', key, False, why + 'for a call that passes an aggregate of shape %s after %d integer and %d floating scalar arguments the emitted sequence takes more off the '
                                       'machine stack than it pushed for the call (%s): the decision "this argument travels in registers" made when the arguments are pushed and the one made when they '
                                       'are popped into registers disagree, so `depth` ends below its value before the call' % (t, k, l, m), where=where)
                            else:
                                rep.undecided('R13.17', key, m, where=where)
                            continue
                        except (AnalysisBroken, Unsupported) as e:
                            rep.undecided('R13.17', key, 'the call sequence cannot be interpreted: %s' % e, where=where)
                            continue
                        dd = ctx.globals.get('depth')
                        rep.ob('R13.17', key, len(s.stack) == 0 and dd == depth0,
                               why + 'after a call that passes an aggregate of shape %s after %d integer and %d floating scalar arguments %d pushed slot(s) are still on the stack and `depth` is %r (was %d)'
                               % (t, k, l, len(s.stack), dd, depth0), where=where, facts={'trace': tr.text()[-12:]})
    return {'calls_interpreted': n, 'grid': {'integer_scalars_before': list(ks), 'floating_scalars_before': list(ls)}, 'shapes': shapes}


# --------------------------------------------------------------------------------------------
def _null_sense(cond, is_g):
    """True: cond holds exactly when the global is non-null; False: exactly when it is null; None: something else"""
    c = cond.strip()
    if c.kind == 'DeclRefExpr' and is_g(c):
        return True
    if c.kind == 'UnaryOperator' and c.opcode == '!':
        r = _null_sense(c.inner[0], is_g)
        return None if r is None else (not r)
    if c.kind == 'BinaryOperator' and c.opcode in ('!=', '=='):
        a, b = c.inner[0].strip_all(), c.inner[1].strip_all()
        for x, y in ((a, b), (b, a)):
            if x.kind == 'DeclRefExpr' and is_g(x) and y.int_value() == 0:
                return c.opcode == '!='
    return None


def r1318(W, rep):
    """valid input is not rejected by a check that belongs to the end of the input.  A global that the directive/statement loop pushes onto (`g = new; new->next = old g`) is
    legitimately non-empty while that loop runs; a diagnostic whose only condition is `g != NULL` says "still open at the end" and must not be reachable from inside the loop."""
    rep.rule('R13.18', 'a diagnostic whose only condition is that a stack-like global is non-empty (an end-of-translation-unit check such as "unterminated conditional directive") is not '
                       'reachable from the loop that pushes onto that global: inside that loop the non-empty state is what every valid program passes through, so the check would reject '
                       'valid input (C11 6.10.1: directives may appear inside a conditional group)', floor=1)
    diag = set(f for f in W.noreturn if f in W.fn_unit)
    callees = {}
    for un, u in W.units.items():
        for f, fd in u.functions.items():
            callees.setdefault(f, set()).update(c.callee() for c in fd.calls() if c.callee() in W.fn_unit)
    LOOPS = ('WhileStmt', 'ForStmt', 'DoStmt')
    for un, u in sorted(W.units.items()):
        if un == 'codegen.c':
            continue
        for g, gd in sorted(u.globals.items()):
            if not L.is_ptr_type(gd.type or ''):
                continue
            is_g = lambda n, g=g, u=u: n.ref_kind == 'VarDecl' and n.ref_name == g and n.ref_id in u.by_id
            # end checks on g
            checks = []
            for G, fd in sorted(u.functions.items()):
                body = u.body(G)
                for c in fd.calls(tuple(diag)):
                    n, p, sole, guarded = c, c.parent, True, False
                    while p is not None and p is not body and sole:
                        if p.kind == 'IfStmt' and p.inner[0] is not n:
                            sense = _null_sense(p.inner[0], is_g)
                            if sense is None or (p.inner[1] is n) != sense:
                                sole = False
                            guarded = True
                        elif p.kind != 'CompoundStmt':
                            sole = False
                        if sole and p.parent is not None and p.parent.kind == 'CompoundStmt':
                            # nothing before it leaves the function or stops the compiler
                            for sib in p.parent.inner:
                                if sib is p:
                                    break
                                if any(x.kind in ('ReturnStmt', 'GotoStmt') or (x.kind == 'CallExpr' and x.callee() in W.noreturn) for x in sib.walk()):
                                    sole = False
                        n, p = p, p.parent
                    if sole and guarded and p is body:
                        checks.append((G, c))
            if not checks:
                continue
            # the loops that push onto g, and what they can reach
            pushers = set()
            for f, fd in u.functions.items():
                for b in fd.find('BinaryOperator'):
                    if b.opcode == '=' and b.inner[0].strip().kind == 'DeclRefExpr' and is_g(b.inner[0].strip()):
                        r = b.inner[1]
                        if r.strip_all().int_value() == 0 or r.cast_kind == 'NullToPointer' or any(x.kind == 'DeclRefExpr' and is_g(x) for x in r.walk()):
                            continue        # reset / pop
                        pushers.add(f)
            reach = {}      # function -> (loop function, caller) it was first reached from
            for Lf, fd in sorted(u.functions.items()):
                for c in fd.calls(tuple(pushers)) if pushers else []:
                    loop = None
                    for a in c.ancestors():
                        if a.kind in LOOPS:
                            loop = a
                    if loop is None:
                        continue
                    work = []
                    for c2 in loop.calls():
                        if c2.callee() in W.fn_unit and c2.callee() not in reach:
                            reach[c2.callee()] = (Lf, Lf)
                            work.append(c2.callee())
                    while work:
                        x = work.pop()
                        for y in sorted(callees.get(x, ())):
                            if y not in reach:
                                reach[y] = (reach[x][0], x)
                                work.append(y)
            for G, c in checks:
                a = c.args()
                msg = next((x.str_value() for x in a if x.str_value() is not None), None)
                key = '%s:%s:end-check(%s)' % (un, G, g)
                where = '%s:%d' % (un, c.line)
                if not pushers:
                    rep.undecided('R13.18', key, 'no function that pushes onto %s was recognised' % g, where=where)
                    continue
                if G in reach:
                    chain = [G]
                    while reach[chain[-1]][1] != reach[chain[-1]][0] and len(chain) < 12:
                        chain.append(reach[chain[-1]][1])
                    chain.append(reach[G][0])
                    callers = sorted(x for x in reach if G in callees.get(x, ())) or [reach[G][0]]
                    rep.ob('R13.18', key + '<-' + ','.join(callers), False,
                           '%s() reports "%s" whenever `%s` is non-empty, i.e. it is the check for the end of the translation unit, but it can be called while the loop of %s() that pushes onto `%s` '
                           '(%s) is still running (%s): there a non-empty `%s` is the normal state of a valid program, which is then rejected'
                           % (G, msg, g, reach[G][0], g, ', '.join(sorted(pushers)), ' <- '.join(chain), g), where=where, facts={'call_chain': list(reversed(chain)), 'pushers': sorted(pushers)})
                else:
                    rep.ob('R13.18', key, True, '', where=where)


# --------------------------------------------------------------------------------------------
def r1319(W, engs, rep):
    """the compiler's own arrays are not indexed with an unchecked value of the input"""
    rep.rule('R13.19', 'where the index of a subscript in the front end is a value of the input (any 64-bit value: result of the constant-expression evaluators, value of a literal, or such a '
                       'value stored by a callee through an out-parameter), a test that excludes negative values and a test that limits it from above dominate the subscript on every path '
                       '(otherwise `[-1] = 1` reads or writes outside the compiler\'s array: SIGSEGV or silent corruption instead of a located diagnostic)', floor=1)
    n = 0
    for (un, f), e in sorted(engs.items()):
        if un == 'codegen.c':
            continue
        obs = {}
        for d in e.idxs.values():
            node = d['node']
            q = d['alias'] or d['path']
            shown = e.show(q) if q else _canon(node.inner[1])
            base = '%s:%s:%s[%s]' % (un, f, _canon(node.inner[0]), shown)
            src = '%s: %s' % (d['src'][1], d['src'][2]) if len(d['src']) > 2 else d['src'][1]
            for tag, ok, what in (('not-negative', d['lb'], 'no dominating test or diagnostic excludes negative values'), ('bounded-above', d['ub'], 'no dominating test limits it from above')):
                key = '%s:%s' % (base, tag)
                o = obs.get(key)
                if o is None or (o[0] and not ok):
                    obs[key] = (ok, '%s() indexes `%s` with `%s`, a value of the input (%s), and %s%s: for an input such as `[-1] = 1` / `[2147483647] = 1` the compiler reads or writes outside its own '
                                'array (SIGSEGV or silent corruption) instead of printing a located diagnostic'
                                % (f, node.inner[0].src(), node.inner[1].src(), src, what, (' (in the arm %s)' % d['ctx']) if d['ctx'] else ''), '%s:%d' % (un, node.line), {'index': node.inner[1].src(), 'source': src})
        for key, (ok, msg, where, facts) in sorted(obs.items()):
            n += 1
            rep.ob('R13.19', key, ok, msg, where=where, facts=facts)
    rep.extra['host_array_indices'] = {'out_parameters_that_carry_an_input_value (derived: function#parameter -> [source, not negative on every return, bounded above on every return, strictly below on every return, at most on every return])':
                                       {'%s#%d' % (f, i + 1): [v[0][1], v[1], v[2]] + [sorted('param#%d%s' % (k + 1, suf) for k, suf in x) for x in v[3:5]] for (f, i), v in sorted(W.out_taint.items())}}


def r1321(W, engs, rep):
    """an index into an array whose element count the owner records must be strictly below that count"""
    rep.rule('R13.21', 'where the front end subscripts an array field whose storage was allocated with an element count that is reachable from the owner of the field (derived from the '
                       'allocation sites: `X->F = calloc(X->G->H, ..)` gives len(X->F) = X->G->H) and the index is limited by comparisons with that count (directly, through a variable that '
                       'is itself limited by it, or through a bound a callee establishes on every return for a value it stores through an out-parameter), the limit is strict: an index that '
                       'may equal the count addresses the element one past the allocation (NULL or foreign heap data are then used as an element: SIGSEGV or corruption instead of a located diagnostic)', floor=4)
    specs = {'%s.%s' % k: sorted(x for x in v if x) for k, v in sorted(W.len_specs.items())}
    if not specs:
        rep.undecided('R13.21', 'tables:element-counts', 'no array field whose element count is a path from its owner was derived from the allocation sites any more')
        return
    unj = []
    for (un, f), e in sorted(engs.items()):
        if un == 'codegen.c':
            continue
        obs = {}
        for d in e.lidx.values():
            node = d['node']
            base = '%s:%s:%s' % (un, f, _canon(node.inner[0]))
            where = '%s:%d' % (un, node.line)
            if d['bad'] is not None:
                b = d['bad']
                key = '%s[%s]:index<=%s' % (base, b['index'], b['bound'].replace(' ', ''))
                obs[key] = (False, '%s() subscripts `%s` with `%s`, which is only known to be at most `%s`%s (a non-strict comparison): the array has exactly that many elements (%s.%s is allocated with '
                                   '%s elements), so an index equal to the count -- an input value N where the array has N elements -- addresses the element one past the allocation; what '
                                   'lies there (NULL or foreign heap data) is then used as an element: SIGSEGV or silent corruption instead of a located diagnostic%s'
                                   % (f, node.inner[0].src(), node.inner[1].src(), b['bound'], (' through `%s`' % b['via']) if b['via'] else '', d['rec'], d['field'],
                                      ' / '.join('owner' + x for x in d['sufs']), '' if b['tier'] == 1 else ' (the count compared with is that of another type object; assumed to describe the same array)'), where, {'bound': b})
            elif d['ok']:
                key = '%s[%s]:below-count' % (base, _canon(node.inner[1]))
                if key not in obs:
                    obs[key] = (True, '', where, {'tier': d['tier']})
            else:
                unj.append('%s[%s]' % (base, _canon(node.inner[1])))
        for key, (ok, msg, where, facts) in sorted(obs.items()):
            rep.ob('R13.21', key, ok, msg, where=where, facts=facts)
    rep.extra['array_element_counts'] = {'derived (record.field -> count, as a path from the owner)': specs,
                                         'subscripts_not_judged (no comparison of the index with an element count is known at the subscript)': sorted(set(unj))}


# --------------------------------------------------------------------------------------------
def _effect_free(W, u, n):
    """the subtree performs no store outside the function's own locals and calls only functions without side effects"""
    for x in n.walk():
        tgt = None
        if x.kind in ('BinaryOperator', 'CompoundAssignOperator') and (x.opcode == '=' or x.kind == 'CompoundAssignOperator'):
            tgt = x.inner[0]
        elif x.kind == 'UnaryOperator' and x.opcode in ('++', '--'):
            tgt = x.inner[0]
        elif x.kind == 'CallExpr' and x.callee() not in W.pure:
            return False
        if tgt is not None:
            t = tgt.strip()
            if not (t.kind == 'DeclRefExpr' and t.ref_kind in ('VarDecl', 'ParmVarDecl') and t.ref_id not in u.by_id):
                return False
    return True


def _leaves(W, s):
    """the statement never falls through (ends in return / a call that does not return)"""
    if s.kind in ('ReturnStmt', 'GotoStmt'):
        return True
    if s.kind == 'CallExpr':
        return s.callee() in W.noreturn
    if s.kind == 'CompoundStmt':
        return bool(s.inner) and _leaves(W, s.inner[-1])
    if s.kind == 'IfStmt':
        return len(s.inner) > 2 and _leaves(W, s.inner[1]) and _leaves(W, s.inner[2])
    return False


def _may_flow(W, x, c):
    """can control pass from the node x to the node c of the same function (syntactic, conservative: True when in doubt)"""
    chain_c = [c] + list(c.ancestors())
    ids_c = set(id(n) for n in chain_c)
    sx, A = x, x.parent
    below = [x]
    while A is not None and id(A) not in ids_c:
        sx, A = A, A.parent
        below.append(sx)
    if A is None:
        return True
    for n in chain_c[chain_c.index(A):] if A in chain_c else []:
        if n.kind in ('WhileStmt', 'ForStmt', 'DoStmt', 'LabelStmt'):
            return True
    if any(n.kind in ('CompoundStmt', 'IfStmt', 'ReturnStmt') and _leaves(W, n) for n in below):
        return False            # x lies in a statement that never falls through
    sc = chain_c[chain_c.index(A) - 1] if chain_c.index(A) > 0 else c
    if A.kind == 'CompoundStmt':
        return A.inner.index(sx) < A.inner.index(sc) if (sx in A.inner and sc in A.inner) else True
    if A.kind == 'IfStmt':
        return sx is A.inner[0]
    return True


def r1320(W, engs, rep):
    """non-progress recursion: the compiler answers with a stack overflow (SIGSEGV) instead of a diagnostic"""
    rep.rule('R13.20', 'a direct self-call of a front-end function is not a re-entry with the same input: it does not hand every parameter on unchanged after a prefix that only tests '
                       '(such a call repeats itself until the stack overflows), and where the recursing arm was selected by the kind of what a parameter points to and the argument is a '
                       'freshly computed object (every definition of that local is a call result; it is no part of the parameter), the function has examined the new object before the call (that kind is excluded, or the object is at least tested)', floor=30)
    for (un, f), e in sorted(engs.items()):
        if un == 'codegen.c':
            continue
        u = W.units[un]
        fd = e.fd
        calls = fd.calls(f)
        if not calls:
            continue
        body = u.body(f)
        pids = [p.id for p in e.params]
        # parameters the function never changes (no assignment, no address taken)
        changes = {}
        for x in fd.walk():
            t = None
            if x.kind in ('BinaryOperator', 'CompoundAssignOperator') and (x.opcode == '=' or x.kind == 'CompoundAssignOperator'):
                t = x.inner[0].strip()
            elif x.kind == 'UnaryOperator' and x.opcode in ('++', '--', '&'):
                t = x.inner[0].strip()
            if t is not None and t.kind == 'DeclRefExpr' and t.ref_id in pids:
                changes.setdefault(t.ref_id, []).append(x)
        # locals all of whose definitions are call results
        defs = {}
        for x in fd.walk():
            if x.kind == 'VarDecl' and x.id not in u.by_id:
                ex = [c for c in x.inner if not c.kind.endswith('Attr')]
                defs.setdefault(x.id, []).append(ex[-1] if ('init' in x.d and ex) else None)
            elif x.kind == 'BinaryOperator' and x.opcode == '=' and x.inner[0].strip().kind == 'DeclRefExpr':
                defs.setdefault(x.inner[0].strip().ref_id, []).append(x.inner[1])
            elif x.kind == 'UnaryOperator' and x.opcode in ('++', '--', '&') and x.inner[0].strip().kind == 'DeclRefExpr':
                if x.opcode != '&' or not (x.parent is not None and x.parent.kind == 'CallExpr' and x.parent.callee() == f):
                    defs.setdefault(x.inner[0].strip().ref_id, []).append(None)
        fresh = set(i for i, l in defs.items() if l and all(d is not None and d.strip_all().kind == 'CallExpr' and d.strip_all().callee() in W.fn_unit for d in l))
        seen = {}
        for c in calls:
            changed = set(pid for pid, xs in changes.items() if any(_may_flow(W, x, c) for x in xs))
            a = c.args()
            sig = ','.join(_canon(x) for x in a)
            key = '%s:%s:self-call(%s)' % (un, f, sig)
            where = '%s:%d' % (un, c.line)
            # (a) identical re-entry
            same = len(a) == len(pids) and bool(pids) and all(x.strip_all().kind == 'DeclRefExpr' and x.strip_all().ref_id == pids[i] and pids[i] not in changed for i, x in enumerate(a))
            bad = None
            if same:
                quiet = True
                n, p = c, c.parent
                while p is not None and quiet:
                    if p.kind == 'CompoundStmt':
                        for sib in p.inner:
                            if sib is n:
                                break
                            if sib.kind == 'IfStmt' and _leaves(W, sib.inner[1]) and (len(sib.inner) < 3 or _leaves(W, sib.inner[2])):
                                quiet = quiet and _effect_free(W, u, sib.inner[0])
                            else:
                                quiet = quiet and _effect_free(W, u, sib)
                    elif p.kind in ('IfStmt', 'ConditionalOperator') and p.inner[0] is not n:
                        quiet = quiet and _effect_free(W, u, p.inner[0])
                    elif p.kind in ('WhileStmt', 'ForStmt', 'DoStmt', 'SwitchStmt', 'LabelStmt', 'CaseStmt', 'DefaultStmt'):
                        quiet = False
                    elif p.kind == 'CallExpr' or p.kind.endswith('Operator'):
                        quiet = quiet and all(_effect_free(W, u, k) for k in p.inner if k is not n)
                    if p is body:
                        break
                    n, p = p, p.parent
                if quiet and p is body:
                    bad = ('%s() calls itself with every parameter unchanged, and nothing before the call has an effect (only tests and calls without side effects): whenever this '
                           'call is reached it is reached again at the next level, until the stack overflows (SIGSEGV instead of output or a located diagnostic)' % f)
                    key += ':same-input'
            # (b) fresh argument that can take the same arm
            if bad is None:
                for node, cal, S, vals in e.calls:
                    if node is not c or len(vals) != len(pids):
                        continue
                    for i, v in enumerate(vals):
                        x = a[i].strip_all()
                        pr = '%s@%s' % (e.params[i].name, pids[i])
                        if pids[i] in changed or x.kind != 'DeclRefExpr' or x.ref_id not in fresh or v.path is None:
                            continue
                        K = S.vs.get(pr + '->kind')
                        if not K or K[0] != 'in' or len(K[1]) > 3 or not all(isinstance(k, str) for k in K[1]):
                            continue
                        ak = S.vs.get(v.path + '->kind')
                        excl = ak is not None and ((ak[0] == 'in' and not (set(ak[1]) & set(K[1]))) or (ak[0] == 'notin' and set(K[1]) <= set(ak[1])))
                        # the new object is looked at nowhere but in this call: it goes into the recursion unexamined
                        def up(n):
                            n = n.parent
                            while n is not None and n.kind in ('ImplicitCastExpr', 'ParenExpr'):
                                n = n.parent
                            return n
                        def walks(n):
                            # `for (T *t = x; ...; t = ...) body` with a body that neither calls nor leaves: the list is walked, x itself is not judged there
                            d = up(n)
                            if d is None or d.kind != 'VarDecl' or d.parent is None or d.parent.kind != 'DeclStmt':
                                return False
                            L = d.parent.parent
                            if L is None or L.kind != 'ForStmt' or not L.inner or L.inner[0] is not d.parent:
                                return False
                            inc, bdy = L.inner[-2] if len(L.inner) >= 2 else None, L.inner[-1]
                            if any(y.kind in ('CallExpr', 'ReturnStmt', 'BreakStmt', 'GotoStmt', 'IndirectGotoStmt') for y in bdy.walk()):
                                return False
                            return inc is not None and inc is not d.parent and any(w.kind == 'BinaryOperator' and w.opcode == '=' and w.inner[0].strip_all().kind == 'DeclRefExpr'
                                                                                   and w.inner[0].strip_all().ref_id == d.id for w in inc.walk())
                        unexamined = all(up(n) is c or (up(n) is not None and up(n).kind == 'UnaryOperator' and up(n).opcode == '&' and up(up(n)) is c) or walks(n)
                                         for n in fd.walk() if n.kind == 'DeclRefExpr' and n.ref_id == x.ref_id)
                        if not excl and unexamined:
                            kn = ','.join(sorted(K[1]))
                            bad = ('%s() takes this arm because its parameter %d is of kind %s and calls itself with `%s`, a freshly computed object (result of %s, not a part of the parameter) whose kind '
                                   'it has not tested: if that is %s again -- e.g. a word that is not a macro is its own expansion -- the same arm is taken at every level and the recursion ends '
                                   'in a stack overflow (SIGSEGV) instead of a located diagnostic' % (f, i + 1, kn, a[i].src(), ' / '.join(sorted(set(d.strip_all().callee() + '()' for d in defs[x.ref_id]))), kn))
                            key += ':fresh-argument-of-kind(%s)' % kn
                            break
                    if bad:
                        break
            o = seen.get(key)
            if o is None:
                seen[key] = (bad is None, bad or '', where)
        for key, (ok, msg, where) in sorted(seen.items()):
            rep.ob('R13.20', key, ok, msg, where=where)


# --------------------------------------------------------------------------------------------
def _var_writes(fd, vid):
    """nodes of the function that may change the variable with declaration id vid: assignments, ++/--, its address taken"""
    out = []
    for x in fd.walk():
        t = None
        if x.kind in ('BinaryOperator', 'CompoundAssignOperator') and (x.opcode == '=' or x.kind == 'CompoundAssignOperator'):
            t = x.inner[0].strip()
        elif x.kind == 'UnaryOperator' and x.opcode in ('++', '--', '&'):
            t = x.inner[0].strip()
        if t is not None and t.kind == 'DeclRefExpr' and t.ref_id == vid:
            out.append(x)
    return out


def _inside(n, anc):
    while n is not None:
        if n is anc:
            return True
        n = n.parent
    return False


def _entry_copies(fd, body, pid):
    """ids of variables that hold the value the parameter pid had on entry for the whole function: the parameter itself if it is never changed, and locals
    declared with the parameter as initializer in a top-level statement that precedes every change of the parameter, never changed themselves"""
    ws = _var_writes(fd, pid)
    out = set()
    if not ws:
        out.add(pid)
    if body is None:
        return out
    for k, st in enumerate(body.inner):
        if any(_inside(w, st) for w in ws):
            break
        if st.kind != 'DeclStmt':
            continue
        for d in st.inner:
            if d.kind != 'VarDecl' or 'init' not in d.d:
                continue
            ex = [c for c in d.inner if not c.kind.endswith('Attr')]
            i = ex[-1].strip_all() if ex else None
            if i is not None and i.kind == 'DeclRefExpr' and i.ref_id == pid and not _var_writes(fd, d.id):
                out.add(d.id)
    return out


def _single_def(fd, x):
    """the expression a use of a local stands for: its initializer, if the local is declared with one and never changed afterwards"""
    x = x.strip_all()
    if x.kind == 'DeclRefExpr' and x.ref_kind == 'VarDecl':
        for d in fd.find('VarDecl'):
            if d.id == x.ref_id and 'init' in d.d and not _var_writes(fd, d.id):
                ex = [c for c in d.inner if not c.kind.endswith('Attr')]
                if ex:
                    return ex[-1].strip_all()
    return x


def _loop_slots(p):
    """(condition, body) of a while/for/if node"""
    if p.kind == 'ForStmt':
        raw, itr, slots = p.d.get('inner', []), iter(p.inner), []
        for r in raw:
            slots.append(next(itr) if (isinstance(r, dict) and r) else None)
        slots = (slots + [None] * 5)[:5]
        return slots[2], slots[4]
    return p.inner[0], (p.inner[1] if len(p.inner) > 1 else None)


def r1322(P, W, rep):
    """printing a diagnostic terminates.  The printer computes the column of the reported position by running input-examining code over the text of the line
    in front of that position; that code reports malformed input through the same diagnostic functions, i.e. it re-enters the printer.  The re-entry is
    harmless exactly if it makes progress: the window the printer examines ends before the reported position, the examining function is applied only to
    cursors inside the window, and what it reports is not after the cursor it was given.  Then every nested diagnostic has a strictly smaller position and
    the innermost one is printed.  If any of the three is off by one byte, the nested diagnostic covers the offending byte again and the compiler recurses
    until the stack overflows."""
    rep.rule('R13.22', 'printing a diagnostic terminates: every function the diagnostic printer runs (call graph below verror_at) either calls no diagnostic function -- one obligation per '
                       'function and one for the printer itself; if that holds for all of them the printer is never re-entered -- or, where code that the printer runs over the reported line '
                       '(column computation) can itself issue a located diagnostic, '
                       '(a) the position it reports is never after the cursor it was called with, (b) the function that applies it does so only to cursors strictly inside the window '
                       '[start, start+len) it was given, and (c) the printer\'s window ends at the reported position (len = position - start of the line): every nested diagnostic then has a '
                       'strictly smaller position; otherwise the nested printer examines the offending byte again and the compiler recurses until the stack overflows (SIGSEGV, no message)', floor=2)
    from ..interp import Interp, Sym, Lin, Unsupported
    PR = 'verror_at'
    tu = W.units['tokenize.c']
    va = tu.functions.get(PR)
    if va is None:
        rep.undecided('R13.22', 'tokenize.c:verror_at', 'the diagnostic printer verror_at() vanished')
        return
    fdef, callees = {}, {}
    for un, u in sorted(W.units.items()):
        for f, fd in u.functions.items():
            if len(W.fn_unit.get(f, ())) == 1:
                fdef[f] = (un, u, fd)
                callees[f] = set(c.callee() for c in fd.calls() if c.callee())

    def reach_from(f):
        out, work = set(), [f]
        while work:
            g = work.pop()
            for h in callees.get(g, ()):
                if h in fdef and h not in out:
                    out.add(h)
                    work.append(h)
        return out
    below = reach_from(PR)
    entries = set(f for f in fdef if PR in callees[f])       # the diagnostic functions: they call the printer
    closing = {}
    for D in sorted(((below - entries) | set([PR])) & set(fdef)):
        for c in fdef[D][2].calls():
            if c.callee() in entries:
                closing.setdefault(D, []).append(c)     # a function the printer runs issues a diagnostic: the printer is re-entered
    pwhere = 'tokenize.c:%d' % va.line
    # ---- (0) what the printer runs issues no diagnostic at all: one holding obligation per function below the printer (and one for the printer itself).  The
    #      progress obligations (a)-(c) exist only for the functions for which this is not so.
    ambiguous = set()
    for D in sorted((below | set([PR])) - entries):
        ambiguous |= set(h for h in callees.get(D, ()) if len(W.fn_unit.get(h, ())) > 1)
    for h in sorted(ambiguous):
        rep.undecided('R13.22', 'tokenize.c:verror_at:%s-ambiguous' % h, 'the diagnostic printer can reach %s(), which is defined in more than one unit (%s): what it calls is not followed'
                      % (h, ', '.join(sorted(W.fn_unit[h]))), where=pwhere)
    if PR not in closing:
        rep.ob('R13.22', 'tokenize.c:verror_at:calls-no-diagnostic-function', True, '', where=pwhere)
    for D in sorted(below - entries - set([PR])):
        if D not in closing:
            rep.ob('R13.22', '%s:%s:issues-no-diagnostic' % (fdef[D][0], D), True, '', where='%s:%d' % (fdef[D][0], fdef[D][2].line))
    if not closing:
        rep.ob('R13.22', 'tokenize.c:verror_at:no-re-entry', True, '', where=pwhere)
        rep.extra['diagnostic_printer_re_entry'] = {'functions_the_printer_runs': sorted(below - entries - set([PR])), 'diagnostic_functions': sorted(entries), 'calls_that_re_enter': {}}
        return
    vps = [c for c in va.inner if c.kind == 'ParmVarDecl']
    vids = [p.id for p in vps]
    rep.extra['diagnostic_printer_re_entry'] = {'functions_the_printer_runs': sorted(below - entries - set([PR])), 'diagnostic_functions': sorted(entries),
                                                'calls_that_re_enter': {D: sorted(set(c.callee() for c in cs)) for D, cs in sorted(closing.items())}}
    covered = set()
    if PR in closing:
        covered.add(PR)
        rep.undecided('R13.22', 'tokenize.c:verror_at:re-enters-directly', 'the diagnostic printer calls a diagnostic function itself: progress of that recursion is not analysed', where=pwhere)
    for G in sorted(g for g in callees[PR] if g in fdef and g not in entries and g != PR and ((set([g]) | reach_from(g)) & set(closing))):
        gun, gu, gfd = fdef[G]
        gwhere = '%s:%d' % (gun, gfd.line)
        gps = [c for c in gfd.inner if c.kind == 'ParmVarDecl']
        # ---- (c) the printer's window: a call G(B, position - B) with `position` an unchanged parameter of the printer
        window = None
        wkey = 'tokenize.c:verror_at:%s-window-ends-at-position' % G
        for c in va.calls(G):
            a = c.args()
            found = None
            for j, x in enumerate(a):
                y = _single_def(va, x)
                extra = 0
                while y.kind == 'BinaryOperator' and y.opcode in ('+', '-') and y.inner[1].int_value() is not None and y.inner[0].strip_all().kind == 'BinaryOperator':
                    extra += y.inner[1].int_value() * (1 if y.opcode == '+' else -1)
                    y = y.inner[0].strip_all()
                if y.kind == 'BinaryOperator' and y.opcode == '-':
                    l, r = y.inner[0].strip_all(), y.inner[1].strip_all()
                    if l.kind == 'DeclRefExpr' and l.ref_id in vids and not _var_writes(va, l.ref_id) and r.kind == 'DeclRefExpr':
                        for i, z in enumerate(a):
                            z = z.strip_all()
                            if i != j and z.kind == 'DeclRefExpr' and z.ref_id == r.ref_id:
                                found = (i, j, vids.index(l.ref_id), extra)
            if found is None:
                rep.undecided('R13.22', wkey, 'the call %s(%s) in the printer is not of the form (start, position - start): the window the printer examines is not recognised'
                              % (G, ', '.join(x.src() for x in a)), where='tokenize.c:%d' % c.line)
                window = False
                continue
            i, j, li, extra = found
            if window is not False:
                window = (i, j, li)
            rep.ob('R13.22', wkey if extra <= 0 else wkey + ':length+%d' % extra, extra <= 0,
                   'verror_at() computes the column with %s(%s): the window it examines reaches %d byte(s) beyond the position `%s` the diagnostic is about; when the code %s() runs reports that byte as '
                   'malformed, the nested printer examines it again -- the compiler recurses until the stack overflows (SIGSEGV) instead of printing the diagnostic'
                   % (G, ', '.join(x.src() for x in a), extra, vps[li].name, G), where='tokenize.c:%d' % c.line)
        if G in closing:
            covered.add(G)
            rep.undecided('R13.22', '%s:%s:reports-itself' % (gun, G), '%s(), which the printer calls, issues a diagnostic itself: the cursor it reports is not related to a window' % G, where=gwhere)
        if not window:
            continue
        # position parameter of each diagnostic function: the parameter it hands on unchanged as the printer's position
        ent = {}
        for E in sorted(entries):
            eun, eu, efd = fdef[E]
            eps = [x.id for x in efd.inner if x.kind == 'ParmVarDecl']
            pcs = efd.calls(PR)
            ent[E] = None
            if len(pcs) == 1:
                a = pcs[0].args()
                x = a[window[2]].strip_all() if window[2] < len(a) else None
                if x is not None and x.kind == 'DeclRefExpr' and x.ref_id in eps and not _var_writes(efd, x.ref_id):
                    ent[E] = eps.index(x.ref_id)
        for T in sorted(t for t in callees[G] if t in fdef and t not in entries and t != G and ((set([t]) | reach_from(t)) & set(closing))):
            un, u, fd = fdef[T]
            inside = sorted((set([T]) | reach_from(T)) & set(closing))
            covered |= set(inside)
            dps = [c for c in fd.inner if c.kind == 'ParmVarDecl']
            dwhere = '%s:%d' % (un, fd.line)
            if any(fdef[d][0] != un for d in inside):
                rep.undecided('R13.22', '%s:%s:reported-position' % (un, T), '%s() issues diagnostics through functions of another unit (%s): not followed' % (T, ', '.join(inside)), where=dwhere)
                continue
            # ---- (a) positions reported below T, relative to T's parameters (Engine I, every path; helpers of the unit are inlined)
            syms = [Sym(p.name or 'p%d' % i) for i, p in enumerate(dps)]
            try:
                it = Interp(P, u, {'opaque': [], 'loop_limit': 1})
                it.noreturn = set(it.noreturn) | entries
                paths = it.explore(T, lambda ctx: list(syms), max_paths=4000)
            except (AnalysisBroken, Unsupported) as e:
                rep.undecided('R13.22', '%s:%s:reported-position' % (un, T), '%s() cannot be interpreted: %s' % (T, e), where=dwhere)
                continue
            offs, odd, seen_ent = {}, {}, set()
            for ctx, out in paths:
                if out[0] != 'noreturn' or out[1] not in entries:
                    continue
                E, k = out[1], ent.get(out[1])
                seen_ent.add(E)
                if k is None:
                    continue
                v = out[2][k] if k < len(out[2]) else None
                l = Lin.of(v) if v is not None else None
                hit = None
                if isinstance(l, Lin) and len(l.terms) == 1:
                    (co, leaf), = l.terms.values()
                    if co == 1 and isinstance(leaf, Sym):
                        for i, s in enumerate(syms):
                            if leaf.key() == s.key():
                                hit = (E, i, l.c)
                if hit is None:
                    odd[(E, repr(v))] = out[3]
                else:
                    offs.setdefault(hit, out[3])
            for E in sorted(seen_ent):
                if ent.get(E) is None:
                    rep.undecided('R13.22', '%s:%s:%s:position' % (un, T, E), '%s(), which the diagnostic printer runs, reaches %s(): the position that call reports cannot be related to the cursor '
                                  '(%s() does not hand one of its parameters on to the printer unchanged)' % (T, E, E), where=dwhere)
            for (E, v), line in sorted(odd.items()):
                rep.undecided('R13.22', '%s:%s:%s(%s)' % (un, T, E, v.replace(' ', '')), 'the position %s() reports (%s) is not a parameter of %s() plus a constant' % (T, v, T), where='%s:%d' % (un, line))
            if not offs and not odd and not seen_ent:
                rep.undecided('R13.22', '%s:%s:reported-position' % (un, T), 'no path of %s() to a diagnostic was found although %s can issue one' % (T, ', '.join(inside)), where=dwhere)
            cursors = sorted(set(i for (E, i, o) in offs))
            for (E, i, o), line in sorted(offs.items()):
                rep.ob('R13.22', '%s:%s:%s(param#%d%s)' % (un, T, E, i + 1, ('%+d' % o) if o else ''), o <= 0,
                       '%s() is run by the diagnostic printer over the text in front of the reported position and reports malformed input at `%s + %d`, %d byte(s) after the cursor it was given: the '
                       'nested printer then examines the text up to that position, meets the same malformed bytes at the same cursor and reports them again -- the compiler recurses until the stack '
                       'overflows (SIGSEGV after thousands of lines of output) instead of printing the diagnostic once' % (T, dps[i].name, o, o), where='%s:%d' % (un, line))
            # ---- (b) G applies T only to cursors inside its window
            key = '%s:%s:%s-inside-window' % (gun, G, T)
            if len(cursors) != 1:
                if offs:
                    rep.undecided('R13.22', key, '%s() reports positions relative to more than one of its parameters: its cursor is not recognised' % T, where=gwhere)
                continue
            kD = cursors[0]
            gbody = gu.body(G)
            starts = _entry_copies(gfd, gbody, gps[window[0]].id) if window[0] < len(gps) else set()
            nid = gps[window[1]].id if window[1] < len(gps) else None
            for c in gfd.calls(T):
                a = c.args()
                cur = a[kD].strip_all() if kD < len(a) else None
                rel = None
                if cur is not None and cur.kind == 'DeclRefExpr' and nid is not None and not _var_writes(gfd, nid):
                    n, p = c, c.parent
                    while p is not None and p is not gfd:
                        if p.kind in ('WhileStmt', 'IfStmt', 'ForStmt'):
                            cnd, bdy = _loop_slots(p)
                            if cnd is not None and n is bdy:
                                # nothing between the test and the call changes the cursor
                                clean = True
                                if n.kind == 'CompoundStmt':
                                    for st in n.inner:
                                        if _inside(c, st):
                                            break
                                        if any(_inside(x, st) for x in _var_writes(gfd, cur.ref_id)):
                                            clean = False
                                for q in _conjuncts(cnd):
                                    q = q.strip_all()
                                    neg = False
                                    while q.kind == 'UnaryOperator' and q.opcode == '!':
                                        neg = not neg
                                        q = q.inner[0].strip_all()
                                    if q.kind != 'BinaryOperator' or q.opcode not in ('<', '<=', '>', '>='):
                                        continue
                                    op = q.opcode if not neg else {'<': '>=', '<=': '>', '>': '<=', '>=': '<'}[q.opcode]
                                    lo, hi = q.inner[0].strip_all(), q.inner[1].strip_all()
                                    if op in ('>', '>='):
                                        lo, hi, op = hi, lo, {'>': '<', '>=': '<='}[op]
                                    hi = _single_def(gfd, hi)
                                    if lo.kind == 'BinaryOperator' and lo.opcode == '-' and hi.kind == 'DeclRefExpr' and hi.ref_id == nid:
                                        x, y = lo.inner[0].strip_all(), lo.inner[1].strip_all()
                                        if x.kind == 'DeclRefExpr' and x.ref_id == cur.ref_id and y.kind == 'DeclRefExpr' and y.ref_id in starts and clean:
                                            if rel is None or op == '<':
                                                rel = op
                        n, p = p, p.parent
                if rel is None:
                    rep.undecided('R13.22', key, '%s() calls %s(%s) but no dominating loop or branch condition of the form `cursor - start < length` (start: the value of parameter %d on entry, '
                                  'length: parameter %d, unchanged) was recognised' % (G, T, ', '.join(x.src() for x in a), window[0] + 1, window[1] + 1), where='%s:%d' % (gun, c.line))
                else:
                    rep.ob('R13.22', key if rel == '<' else key + ':cursor<=end', rel == '<',
                           '%s() applies %s() to cursors up to and including start + length (`<=`): the printer hands it the text in front of the reported position, so the byte at the '
                           'position itself is examined too; when that byte is what %s() reports, the nested printer examines it again and the compiler recurses until the stack overflows'
                           % (G, T, T), where='%s:%d' % (gun, c.line))
    for D in sorted(set(closing) - covered):
        un, u, fd = fdef[D]
        rep.undecided('R13.22', '%s:%s:re-entry-not-recognised' % (un, D), '%s() can run below the diagnostic printer and issues a diagnostic (%s), but it is not reached through a call chain '
                      'printer -> window function -> examining function that the rule understands' % (D, ', '.join(sorted(set(c.callee() for c in closing[D])))), where='%s:%d' % (un, fd.line))


def r1339(P, W, rep):
    """printing a diagnostic terminates (loops): a loop of the diagnostic functions, the printer or a function the printer runs whose condition tests locals that the loop
    itself moves (cursor, index) must move at least one of them on every path that completes an iteration; an amount that is computed (result of a function, of a
    comparison, of a conditional expression) must exclude 0 under the guards that dominate the step.  Otherwise the printer examines the same byte for ever: the compiler
    hangs after the source line instead of printing the message and exiting."""
    rep.rule('R13.39', 'every loop that runs while a diagnostic is printed (diagnostic functions, verror_at and the call graph below it) makes progress: on every path that completes an '
                       'iteration at least one of the locals the loop condition tests is changed by an amount that is never 0 (constants, or computed amounts whose range -- return values '
                       'of the callee over all its paths, results of comparisons and conditional expressions, narrowed by the dominating guards -- excludes 0); where an iteration can be '
                       'completed with every tested local unchanged and nothing the condition reads stored to, the loop does not end and the compiler hangs instead of reporting. The same '
                       'is reported for any other loop of the compiler for which the analysis finds such a path (loops it cannot follow outside the printer are not judged)', floor=5)
    from .. import lib_c13prog as LP
    PR = 'verror_at'
    fdef, callees = {}, {}
    for un, u in sorted(W.units.items()):
        for f, fd in u.functions.items():
            if len(W.fn_unit.get(f, ())) == 1:
                fdef[f] = (un, u, fd)
                callees[f] = set(c.callee() for c in fd.calls() if c.callee())
    if PR not in fdef:
        rep.undecided('R13.39', 'tokenize.c:verror_at', 'the diagnostic printer verror_at() vanished')
        return
    below, work = set(), [PR]
    while work:
        g = work.pop()
        for h in callees.get(g, ()):
            if h in fdef and h not in below:
                below.add(h)
                work.append(h)
    entries = set(f for f in fdef if PR in callees[f])
    scope = below | entries | set([PR])
    world = LP.World(W)
    summary, nloops = {}, 0
    for f in sorted(fdef):
        un, u, fd = fdef[f]
        if not any(x.kind in ('WhileStmt', 'ForStmt', 'DoStmt') for x in fd.walk()):
            continue
        inscope = f in scope
        try:
            ex = LP.Exec(world, un, u, f).run()
        except (RecursionError, IndexError, KeyError, TypeError, AttributeError) as e:
            if inscope:
                rep.undecided('R13.39', '%s:%s:loops' % (un, f), 'the loops of %s() cannot be followed: %s %s' % (f, type(e).__name__, e), where='%s:%d' % (un, fd.line))
            continue
        seen = {}
        for rec in ex.loops:
            cname = '+'.join(rec['cursors']) or 'none'
            base = '%s:%s:loop-over-%s' % (un, f, cname)
            seen[base] = seen.get(base, 0) + 1
            key = base if seen[base] == 1 else '%s:(%s)' % (base, rec['cond'].replace(' ', '')[:60])
            where = '%s:%d' % (un, rec['node'].line)
            nloops += 1
            if rec['verdict'] == 'stuck':
                amounts = ', '.join('`%s` changes by an amount in %s' % kv for kv in sorted(rec['amounts'].items()))
                rep.ob('R13.39', key + ':step-may-be-zero', False,
                       'the loop `%s` in %s() can complete an iteration with every local its condition tests unchanged (%s) and nothing else the condition reads is stored to on that path: '
                       'the next iteration is the same one, the loop never ends%s' % (rec['cond'], f, amounts,
                       ' -- this code runs while a diagnostic is printed, so the compiler hangs after the source line instead of printing the message and exiting' if inscope else
                       ' -- the compiler hangs on the input that takes this path'), where=where, facts={'cursors': rec['cursors'], 'amounts': rec['amounts']})
            elif rec['verdict'] == 'progress':
                if inscope:
                    rep.ob('R13.39', key + ':progress', True, '', where=where)
                summary.setdefault('progress', []).append(key)
            elif rec['verdict'] == 'unknown':
                if inscope:
                    rep.undecided('R13.39', key + ':progress', 'the loop `%s` runs while a diagnostic is printed: %s' % (rec['cond'], rec['why']), where=where)
                summary.setdefault('not_followed', []).append(key)
            else:
                if inscope and rec['why'].startswith('the condition tests a variable whose address'):
                    rep.undecided('R13.39', key + ':progress', 'the loop `%s` runs while a diagnostic is printed: %s' % (rec['cond'], rec['why']), where=where)
                summary.setdefault('not_judged', []).append(key + ' (' + rec['why'] + ')')
    rep.extra['R13.39'] = {'functions_in_printer_scope': sorted(scope), 'loops_seen': nloops, 'proved_progress': len(summary.get('progress', ())),
                           'not_followed_outside_printer': len(summary.get('not_followed', ())), 'not_judged': len(summary.get('not_judged', ()))}


def r1323(P, rep, tier):
    """output that the assembler rejects is not output: the obligations of C04 on the immediates of the bit-field templates are re-issued here"""
    rep.rule('R13.23', 'a valid program is answered with assembly the assembler accepts: every ALU instruction template of the bit-field read and write sequences whose immediate operand is a '
                       'formula of the field\'s width / bit offset stays within a sign-extended 32-bit immediate for every field the layout admits, and the one width for which the host '
                       'computation of the mask is undefined (64) is singled out (obligations of C04 R04.1/R04.2, re-issued)', floor=12)
    from ..report import Report, reissue
    from ..interp import Unsupported
    sub = Report('C04')
    try:
        from . import c04
        from ..chibi import CG
        if hasattr(c04, 'r_bitfield') and hasattr(c04, 'wrap'):
            c04.r_bitfield(c04.wrap(CG(P)), sub)
        else:
            c04.run(P, sub, tier)
    except (AnalysisBroken, Unsupported) as e:
        rep.undecided('R13.23', 'codegen.c:gen_expr:bitfield-templates', 'the bit-field sequences of the code generator cannot be interpreted: %s' % e)
        return
    why = 'the compiler exits 0 with assembly that the assembler rejects, so a valid program is not compiled: '
    n = reissue(rep, 'R13.23', sub, why, keep=lambda o: 'immediates-encodable' in o['key'] or 'width-64-mask' in o['key'])
    rep.extra['R13.23'] = {'obligations_of_C04_reissued': n}
