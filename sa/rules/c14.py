"""C14 Driver process discipline under failure and concurrency (DESIGN.md §3 C14).

Engine R of the design (IR call graph / dominance) is realised over the typed AST:
whole-program call graph from resolved callees (lib_c14.CallGraph) and path facts from
Engine I with a process model (fork/exec/wait/exit, mkstemp, strarray_push) instead of
dominator trees.  "X dominates Y" is decided as "on every explored path Y is preceded by
X", which is robust against if<->switch, extracted helpers and reordered independent
statements.
"""
from ..interp import Obj, Sym, Arr, View, NORETURN, _Ref, ElemPlace
from ..build import AnalysisBroken
from .. import lib_c14 as L

U = 'main.c'

TMP_CREATE = ('mkstemp', 'mkostemp', 'mkstemps', 'mkostemps', 'mkdtemp', 'tmpfile', 'tmpnam', 'tmpnam_r', 'tempnam', 'mktemp')
PATH_CREATE = ('open', 'openat', 'creat', 'open64', 'creat64', 'freopen', 'mkdir', 'mkfifo', 'mknod', 'symlink', 'link', 'rename')
OUTPUT_GLOBALS = ('output_file', 'opt_o')       # user-visible output path of a cc1 process
DEP_GLOBALS = ('opt_MF',)                        # dependency file (-MF)
DEP_NAME_FNS = ('replace_extn',)                 # ... or derived from the input name (-MD)
SUBPROC = ('run_cc1', 'assemble', 'run_linker')


def _where(node, unit=U):
    return '%s:%d' % (unit, node.line)


def _creates_file(call):
    """(creates?, decidable?) for a call to fopen-like functions by its literal mode"""
    c = call.callee()
    if c in ('fopen', 'fopen64'):
        a = call.args()
        m = a[1].str_value() if len(a) > 1 else None
        if m is None:
            return True, False
        return (m[:1] in ('w', 'a') or '+' in m), True
    return True, True


def _root_global(v):
    """name of the global a path value was read from ('g:<name>'), else None"""
    if isinstance(v, Sym) and v.name.startswith('g:'):
        return v.name[2:].split('.')[0]
    if isinstance(v, Obj) and (v.label or '').startswith('g:'):
        return v.label[2:].split('.')[0]
    return None


class Agg:
    """one obligation per (rule, key, verdict): the same fact is usually established on many paths"""

    def __init__(self, rep, defined=None):
        self.rep = rep
        self.seen = {}
        self.defined = defined or (lambda fn: True)

    def ob(self, rule, key, ok, what, where=None, facts=None):
        k = (rule, key, bool(ok))
        if k in self.seen:
            self.seen[k] += 1
            return ok
        self.seen[k] = 1
        if not ok and (self.rep.pid, '%s:%s' % (rule, key)) not in self.rep.known:
            # the same construct is a known finding of a function that no longer exists: the anchor was
            # renamed (or replaced); cannot tell the old finding from a new one -> undecided, not a violation
            parts = key.split(':')
            if len(parts) >= 3:
                for (pid, kk) in self.rep.known:
                    kp = kk.split(':')
                    if pid == self.rep.pid and len(kp) >= 4 and kp[0] == rule and kp[1] == parts[0] and kp[3:] == parts[2:] \
                            and kp[2] != parts[1] and not self.defined(kp[2]):
                        self.rep.undecided(rule, key, 'this is the known finding %s, but its anchor function %s vanished and the construct now appears in %s: renamed anchor or new defect, cannot tell (%s)'
                                           % (kk, kp[2], parts[1], what), where=where)
                        return ok
        return self.rep.ob(rule, key, ok, what, where=where, facts=facts)

    def undecided(self, rule, key, why, where=None):
        k = (rule, key, None)
        if k in self.seen:
            self.seen[k] += 1
            return
        self.seen[k] = 1
        return self.rep.undecided(rule, key, why, where=where)

    def rule(self, *a, **kw):
        return self.rep.rule(*a, **kw)


NOLINK_FLAGS = ('opt_c', 'opt_S', 'opt_E', 'opt_M')     # modes of the driver that end before the link step


def _flag_on_path(ctx, name):
    """True / False when the path has decided the option flag, None when it never looked at it (or it is not concrete)"""
    v = ctx.globals.get(name)
    if isinstance(v, View):
        vals = set(bool(v.proj(c)) for c in v.cell.cands)
        return vals.pop() if len(vals) == 1 else None
    if isinstance(v, (int, bool)):
        return bool(v)
    return None


def _fmt_path(ctx, n=10):
    return ctx.trail[-n:]


def _lazy_record_globals(u, over=None):
    """file-scope records without initialiser (option lists, registries) hold anything: a function explored on its own is
    decided for every state the driver can be in, not only for the all-zero state (a fast path taken `when there is exactly
    one input` is a path of the function)"""
    glob = {}
    for name, g in u.globals.items():
        t = (g.dtype or g.type or '').replace('struct ', '').strip()
        if t in u.records and 'init' not in g.d:
            glob[name] = (lambda nm, tt: (lambda ctx: Obj(tt, lazy=True, label='g:' + nm)))(name, t)
    glob.update(over or {})
    return glob


def _ret_type(u, f):
    t = (u.fn(f).dtype or u.fn(f).type or '')
    return t.split('(')[0].strip()


def _driver_cut(u, facts):
    """functions of main.c at which an exploration of the driver's main always stops: the stage functions, the temp creator,
    the process launchers, the cc1 role and the option parser (the state after option parsing is what an exploration fixes)"""
    return set(SUBPROC) | set(facts.get('tmp_fns', ())) | set(facts.get('fork_fns', ())) | {'cc1', 'parse_args'}


def _light_helper(u, facts, f):
    """a helper main may have been split into: interpreted rather than cut, so that a test or a group of statements moved into
    a function is still seen (scalar or no result, no string parameter: its paths add nothing a symbolic exploration cannot carry)"""
    if f == 'main' or f in _driver_cut(u, facts) or '*' in _ret_type(u, f):
        return False
    return not any('char' in (p_.dtype or p_.type or '') for p_ in u.params(f))


def run(P, rep, tier):
    u = P.unit(U)
    for f in ('main', 'cc1'):
        if f not in u.functions:
            raise AnalysisBroken('anchor function %s vanished from %s' % (f, U))
    rep.explanation = ('Code-shape conditions that make failure handling and cleanup of the driver work on every path of main.c: '
                       'whole-program who-may-call facts (file creation, temp creation, fork, hard exits) over the resolved call graph of all units, '
                       'and path facts from abstract interpretation of run_subprocess / create_tmpfile / cleanup / cc1 / main with a process model '
                       '(fork returns 0, >0 or -1; posix_spawn* returns 0 or a positive errno value and has no child side in this program; system returns -1 or a wait status; exec succeeds or fails; '
                       'wait/waitpid/wait3/wait4/waitid deliver each class of wait status as the kernel encodes it; '
                       'exit-family calls end the path; a signal a process sends to itself, its process group, its child or its parent (raise, kill, killpg, pthread_kill, sigqueue, tgkill) acts on the receiver '
                       'according to the disposition the path set with signal()/sigaction(), else the default action). Decides: temp files are registered for exit-time cleanup, cleanup is installed before any temp exists '
                       'and unlinks all of them, the parent never terminates past its atexit handlers and the child never runs them, every non-zero wait status '
                       '(exit code or signal) stops the driver with a non-zero status, the user-visible output is opened only after every phase that can '
                       'fail has returned, the per-input pipeline order; for a fixed set of concrete command lines (each mode, with/without -o, multi-dot input names) '
                       'the file names handed to the stages and opened in cc1 are exactly the requested outputs and every inter-stage file is a mkstemp name (R14.8); '
                       'the same for concrete command lines interpreted through the real option parser (mode x language of the input chosen by suffix or -x x objects/libraries): files written and stages started are those the command line asks for; '
                       'a failed open of an input is fatal or reported upwards at every level of the call chain (R14.9); the front end (cc1 and its phases) is reachable only from what main calls in the cc1 role, never from '
                       'what it calls in the driver role, so a crash of the front end cannot take the process that owns the temporaries with it (R14.10); with one of the mode flags -E/-M/-S/-c set and everything else '
                       '(other options, option lists, the kind of the input) open, no path of main starts a stage the mode excludes (R14.11); in the launcher the driver may own one more child than the one it started '
                       '(inherited through exec): the stage it started must have been reaped, and its own status decided on, before the launcher returns (R14.4); functions explored on their own '
                       '(temp creator, launchers, stage functions) are decided for every state of the option lists, not only the empty one; '
                       'on every path of the function that owns a stdio stream (helpers that take the stream interpreted with it) a read that fails - with a zero or a short count - and a write that fails - before the stream is '
                       'examined, in fflush() or in the flush inside fclose() - ends the process with a non-zero status or is reported to callers that do (R14.14, R14.15); '
                       'R14.8 names cover the shapes of a path (dots and ./.. components in the directory part, base names without suffix). '
                       'Does not decide behaviour under real kill points or real concurrent schedules; '
                       'temp-name uniqueness is decided only as "names come from mkstemp".')
    rep.assumptions += ['wait status encoding of Linux/glibc (low 7 bits signal, bit 7 core, bits 8-15 exit code)',
                        'wait() returns -1 without writing the status when the caller has no child',
                        'the driver may own at most one child it did not start (a process keeps its children across exec); that child exits with status 0 at any time relative to the stage; '
                        'a wait for any child (wait, wait3, waitpid/wait4 with pid -1 / 0, waitid P_ALL / P_PGID) returns the children in either order',
                        'R14.11: every combination of the option globals is a possible state after option parsing; a function of main.c with a scalar or no result is part of main for this purpose',
                        'the driver starts with default signal dispositions; Linux signal numbers; the default action of every signal except SIGCHLD, SIGCONT, SIGURG, SIGWINCH and the stop signals terminates the process without running atexit handlers',
                        'posix_spawn/posix_spawnp report every failure to start the program (including, with glibc >= 2.24, a failed exec) as a positive errno return value, never as -1 and not through errno; '
                        'the alternative POSIX allows (child exits with 127) is covered by the wait statuses',
                        'loops over argument lists are analysed for 0..k generic iterations (k=1, main: 2)',
                        'assert() failures are internal errors (R13.4) and are not counted as driver terminations',
                        'a function whose address is taken counts as called from the function that takes it',
                        'R14.8: the state after option parsing is described by the option globals of main.c (opt_c, opt_S, opt_E, opt_M, opt_MD, opt_MF, opt_o, input_paths, base_file, output_file), all other statics are zero; '
                        'requested names follow the cc convention: <base name of the input with its last suffix replaced> in the current directory, a.out for a link, the -o operand verbatim; '
                        'libc string functions (strdup, strchr, strrchr, basename, dirname, strcmp, strncmp, strlen, strstr, strcpy, strcat, strndup) and format() behave as specified by ISO C / POSIX',
                        'R14.8 command lines: -E and -M write no file from the driver and start nothing but cc1; an assembler input is never compiled and a C input always is; objects, libraries and -l operands take part in a link only; '
                        'with -M an assembler input may be preprocessed or left alone',
                        'R14.10: the role of a process is decided by opt_cc1; the front end is cc1 and the phase functions tokenize_file / preprocess / parse / codegen; reachability is over the resolved call graph '
                        '(a call guarded by a condition that is false in the driver role still counts)',
                        'R14.9: fopen with a literal read mode is the only way an input is opened; a failure is reported by a constant return value',
                        'R14.12: a wait for an existing child can fail in two ways the environment decides: -1/EINTR (child still running; explored once per path) and, when the driver was started with SIGCHLD ignored '
                        '(the disposition survives exec) and no reachable call gives SIGCHLD another disposition, -1/ECHILD after the kernel reaped the child (no status written); errno is one cell per process, '
                        'written by the modelled wait calls only',
                        'R14.14 / R14.15: stdio as ISO C specifies it - a read after end of file or error delivers nothing; ferror/feof report the flags; the data of an output stream reaches the file in fflush() or, '
                        'when nothing flushed before, inside fclose(); a flush that was checked leaves nothing for fclose() to write (failures of close(2) itself are not modelled); every stream opened for writing has '
                        'buffered data; at most two reads deliver data before the input ends or fails; memory streams do not fail; a `for (;;)` loop is followed for three iterations',
                        'R14.16: the inputs of a command line are its operands as written (names are compared as strings, as cc does; links and `./` spellings are not resolved); a cc1 process gets the '
                        'argument vector R14.8 (handover) establishes; the external assembler and linker refuse an output that is one of their own input operands without writing it '
                        '(GNU as: "input and output files are the same", GNU ld: "input file is the same as output file"), so only outputs that differ from the operands of the stage itself can destroy an input',
                        'R14.13: decided structurally per function and stream variable (no path sensitivity): ferror/fflush/fclose on the variable inside an if-condition whose branch returns or ends the process, '
                        'in the function itself or in a program function it passes the stream to; standard output closed at exit is not covered']
    cg = L.CallGraph(P)
    reach_main = cg.reach('main')
    facts = {}
    rep = Agg(rep, defined=lambda fn: fn in cg.defs)
    import os, sys, time
    steps = [('R14.1who', lambda: r141_who(P, u, rep, cg, reach_main, facts)),
             ('R14.2', lambda: r142(P, u, rep, cg, facts)),
             ('R14.1paths', lambda: r141_paths(P, u, rep, cg, facts)),
             ('R14.3/4', lambda: r143_r144(P, u, rep, cg, reach_main, facts)),
             ('R14.5', lambda: r145(P, u, rep, cg)),
             ('R14.6', lambda: r146(P, u, rep, cg, facts)),
             ('R14.10', lambda: r1410(P, u, rep, cg, facts)),
             ('R14.11', lambda: r1411(P, u, rep, cg, facts)),
             ('R14.7', lambda: r147(P, rep, cg)),
             ('R14.8', lambda: r148(P, u, rep, cg, facts)),
             ('R14.16', lambda: r1416(P, u, rep, cg, facts)),
             ('R14.9', lambda: r149(P, rep, cg, reach_main, facts)),
             ('R14.13', lambda: r1413(P, rep, cg, reach_main)),
             ('R14.14/15', lambda: r14_stream_paths(P, rep, cg, reach_main, facts))]
    for name, f in steps:
        t0 = time.time()
        f()
        if os.environ.get('VERIF_TIMING'):
            sys.stderr.write('%s %.1fs\n' % (name, time.time() - t0))


# =============================================================== R14.1 (who) ===
def r141_who(P, u, rep, cg, reach_main, facts):
    rep.rule('R14.1', 'temporary files come only from mkstemp in one function, which registers the name for exit-time cleanup on every path from success to its return; '
                      'no other function creates files except the one output opener of main.c', floor=4)
    tmp_fns = set()
    for name in TMP_CREATE:
        for (cu, caller, call) in cg.sites.get(name, ()):
            if caller not in reach_main:
                continue
            ok = name == 'mkstemp' and cu.name == U
            rep.ob('R14.1', '%s:%s:temp-from-%s' % (cu.name, caller, name), ok,
                   'a temporary file is created with %s() in %s (%s): names that do not come from mkstemp in the driver are either predictable (races between concurrent invocations) or unknown to the exit-time cleanup'
                   % (name, caller, cg.witness(caller)), where=_where(call, cu.name))
            if ok:
                tmp_fns.add(caller)
    if not tmp_fns:
        rep.undecided('R14.1', '%s:temp-creator' % U, 'no reachable call of mkstemp found in main.c: the temp-file anchor vanished')
    facts['tmp_fns'] = tmp_fns
    rep.ob('R14.1', '%s:single-temp-creator' % U, len(tmp_fns) <= 1,
           'temporary files are created in several functions (%s): each must register its names' % ', '.join(sorted(tmp_fns)),
           where=_where(u.fn(sorted(tmp_fns)[0])) if tmp_fns else None)
    # other file creation
    openers = set()
    for name in ('fopen', 'fopen64') + PATH_CREATE:
        for (cu, caller, call) in cg.sites.get(name, ()):
            if caller not in reach_main:
                continue
            creates, decidable = _creates_file(call)
            if not decidable:
                rep.undecided('R14.1', '%s:%s:%s-mode' % (cu.name, caller, name), 'the mode argument of %s is not a string literal' % name, where=_where(call, cu.name))
                continue
            if not creates:
                rep.ob('R14.1', '%s:%s:%s-read-only' % (cu.name, caller, name), True, '', where=_where(call, cu.name))
                continue
            ok = cu.name == U and name == 'fopen'
            if ok:
                openers.add(caller)
            rep.ob('R14.1', '%s:%s:creates-file-with-%s' % (cu.name, caller, name), ok,
                   '%s() creates or truncates a file in %s (%s): only the output opener of main.c may create files, so that outputs appear only where the driver discipline (R14.5) controls them'
                   % (name, caller, cg.witness(caller)), where=_where(call, cu.name))
    facts['openers'] = openers
    rep.ob('R14.1', '%s:single-output-opener' % U, len(openers) == 1,
           'expected exactly one function of main.c that opens files for writing, found %s' % (sorted(openers) or 'none'),
           where=None)
    # who calls the opener: only code that runs in a cc1 process (reachable from cc1), never the driver parent directly
    cc1_reach = cg.reach('cc1')
    for op in sorted(openers):
        for (cu, caller, call) in cg.sites.get(op, ()):
            if caller not in reach_main:
                continue
            rep.ob('R14.1', '%s:%s:opens-output-in-cc1-only' % (cu.name, caller), caller in cc1_reach and caller != 'main',
                   '%s() is called from %s, which is not part of the cc1 process (%s): the driver parent must not create output files itself'
                   % (op, caller, cg.witness(caller)), where=_where(call, cu.name))


# ================================================================== R14.2 ===
def _string_array_globals(u):
    out = []
    for name, g in u.globals.items():
        t = (g.dtype or g.type or '').replace('struct ', '').strip()
        if t == 'StringArray':
            out.append(name)
    return out


def r142(P, u, rep, cg, facts):
    rep.rule('R14.2', 'atexit(cleanup) is installed unconditionally at the start of main, before anything that can create a temporary file; cleanup unlinks every registered name', floor=2)
    main = u.fn('main')
    body = u.body('main')
    sites = [c for c in main.calls('atexit')]
    handler = None
    if not sites:
        others = [(cu.name, caller) for (cu, caller, call) in cg.sites.get('atexit', ())]
        if others:
            rep.undecided('R14.2', '%s:main:atexit' % U, 'atexit is not called in main itself but in %r: shape not recognised' % others)
        else:
            rep.ob('R14.2', '%s:main:atexit-installed' % U, False,
                   'no exit-time handler is installed: temporary files are never removed', where=_where(main))
        facts['registry'] = None
        return
    tmp_reach = cg.reaches(set(TMP_CREATE))
    installed = False
    for c in sites:
        a = c.args()[0].strip() if c.args() else None
        h = a.ref_name if a is not None and a.kind == 'DeclRefExpr' and a.ref_kind == 'FunctionDecl' else None
        if h is None:
            rep.undecided('R14.2', '%s:main:atexit-argument' % U, 'atexit argument is not a function name', where=_where(c))
            continue
        unc, top = L.unconditional_in(c, body)
        before_bad = []
        if unc:
            for s in body.inner:
                if s is top:
                    break
                for cc in s.calls():
                    cal = cc.callee()
                    if cal in tmp_reach or cal in TMP_CREATE:
                        before_bad.append('%s()' % cal)
        ok = unc and not before_bad
        if ok:
            installed = True
            handler = h
        rep.ob('R14.2', '%s:main:atexit-%s' % (U, 'first' if ok else ('conditional' if not unc else 'late')), ok,
               ('atexit(%s) is executed only conditionally: on the other paths temporary files are never removed' % h) if not unc else
               ('atexit(%s) is preceded by %s, which can create a temporary file: an exit in between leaves it behind' % (h, ', '.join(sorted(set(before_bad))))),
               where=_where(c))
    facts['handler'] = handler
    facts['registry'] = None
    if not handler:
        return
    if handler not in u.functions:
        rep.undecided('R14.2', '%s:%s:definition' % (U, handler), 'exit handler is not defined in main.c')
        return
    # concrete run of the handler over a 3-element registry: every element must be unlinked
    arrs = _string_array_globals(u)
    if not arrs:
        rep.undecided('R14.2', '%s:%s:registry' % (U, handler), 'no StringArray global found in main.c')
        return

    def mk(name):
        return lambda ctx: Obj('StringArray', lazy=False, label='g:' + name,
                               fields={'data': Arr(['%s#%d' % (name, i) for i in range(3)] + [0] * 5, label=name + '.data'), 'len': 3, 'capacity': 8})
    try:
        it = L.make_interp(P, u, globals_={n: mk(n) for n in arrs})
        paths = it.explore(handler, lambda ctx: [])
    except AnalysisBroken as e:
        rep.undecided('R14.2', '%s:%s:interpretation' % (U, handler), str(e))
        return
    regs = set()
    for ctx, out in paths:
        un = [e[2][0] for e in L.calls_of(ctx, ('unlink', 'remove', 'unlinkat'))]
        names = [x for x in un if isinstance(x, str) and '#' in x]
        for x in names:
            regs.add(x.split('#')[0])
    if len(regs) != 1:
        rep.ob('R14.2', '%s:%s:unlinks-registry' % (U, handler), False,
               'the exit handler does not unlink the elements of exactly one name registry (found: %s): temporary files stay behind' % (sorted(regs) or 'no unlink of a registry element'),
               where=_where(u.fn(handler)))
        return
    reg = regs.pop()
    facts['registry'] = reg
    for ctx, out in paths:
        un = [e[2][0] for e in L.calls_of(ctx, ('unlink', 'remove', 'unlinkat'))]
        missing = [i for i in range(3) if '%s#%d' % (reg, i) not in un]
        ok = out[0] == 'ret' and not missing
        rep.ob('R14.2', '%s:%s:unlinks-every-element' % (U, handler), ok,
               ('the exit handler does not return normally (%s)' % (out[1],)) if out[0] != 'ret' else
               'with 3 registered names the exit handler unlinks only %d of them (missing element index %s): those temporary files stay behind' % (3 - len(missing), missing),
               where=_where(u.fn(handler)), facts={'unlinked': [str(x) for x in un]})
    # names enter the registry only in the temp creator (or a helper only it calls): a name pushed elsewhere did not come
    # from mkstemp, so the exit handler would unlink a file this process does not own exclusively
    creators = set(facts.get('tmp_fns', ()))
    for (cu, caller, call) in cg.sites.get('strarray_push', ()):
        a = call.args()
        if not a:
            continue
        tgt = a[0].strip_all()
        if tgt.kind == 'UnaryOperator' and tgt.opcode == '&' and tgt.inner:
            tgt = tgt.inner[0].strip_all()
        if not (tgt.kind == 'DeclRefExpr' and tgt.ref_kind == 'VarDecl' and tgt.ref_name == reg and cu.name == U and tgt.ref_id == u.globals[reg].id):
            continue
        callers = set(c for (_, c, _) in cg.sites.get(caller, ())) | set(c for (_, c, _) in cg.refs.get(caller, ()))
        ok = caller in creators or (bool(callers) and callers <= creators)
        rep.ob('R14.2', '%s:%s:%s' % (U, caller, 'registers-created-temporary' if ok else 'registers-name-not-from-temp-creator'), ok,
               '%s pushes %s onto the cleanup registry `%s` although it is not the function that creates temporaries with mkstemp (%s): the exit handler will unlink a file '
               'whose name was not made unique for this process - with a predictable name that is another invocation\'s file'
               % (caller, a[1].src() if len(a) > 1 else '?', reg, ', '.join(sorted(creators)) or 'none found'), where=_where(call))
    # the registry is written only by strarray_push in the temp creator (nobody shrinks or resets it)
    for fname, fd in u.functions.items():
        for n in fd.walk():
            if n.kind in ('BinaryOperator', 'CompoundAssignOperator', 'UnaryOperator') and (n.opcode in ('=', '++', '--') or n.kind == 'CompoundAssignOperator'):
                lhs = n.inner[0].strip()
                base = lhs
                while base.kind in ('MemberExpr', 'ArraySubscriptExpr') and base.inner:
                    base = base.inner[0].strip()
                if base.kind == 'DeclRefExpr' and base.ref_name == reg and base.ref_kind == 'VarDecl' and base.ref_id == u.globals[reg].id:
                    rep.ob('R14.2', '%s:%s:registry-modified' % (U, fname), False,
                           'the cleanup registry `%s` is modified directly (%s): registered names can be lost before exit' % (reg, n.src()), where=_where(n))


# ============================================================== R14.1 (paths) ===
def r141_paths(P, u, rep, cg, facts):
    reg = facts.get('registry')
    for fn in sorted(facts.get('tmp_fns', ())):
        if fn not in u.functions:
            continue
        def m_mkstemp(it, ctx, n, args):
            i = ctx.choose(2, 'mkstemp')
            st = L.proc_state(ctx)
            if i == 0:
                st.setdefault('tmp', []).append(args[0] if args else None)
                ctx.emit('call', 'mkstemp', args, n.line, 7)
                ctx.note('mkstemp succeeds')
                return 7
            ctx.note('mkstemp fails')
            st['tmp_failed'] = True
            return -1
        try:
            it = L.make_interp(P, u, opaque=['strarray_push'], extra_models={'mkstemp': m_mkstemp}, globals_=_lazy_record_globals(u))
            paths = it.explore(fn, lambda ctx: [])
        except AnalysisBroken as e:
            rep.undecided('R14.1', '%s:%s:interpretation' % (U, fn), str(e))
            continue
        nsucc = 0
        for ctx, out in paths:
            st = L.proc_state(ctx)
            tmp = st.get('tmp', [])
            if st.get('tmp_failed') and not tmp:
                ok = out[0] == 'noreturn' and _nonzero_exit(out)
                rep.ob('R14.1', '%s:%s:mkstemp-failure-%s' % (U, fn, 'is-fatal' if ok else 'ignored'), ok,
                       'when mkstemp fails %s carries on and hands out the unmodified template as if it were a created file' % fn,
                       where=_where(u.fn(fn)), facts={'path': _fmt_path(ctx)})
                continue
            if not tmp:
                continue
            nsucc += 1
            path = tmp[0]
            pushes = [e for e in L.calls_of(ctx, 'strarray_push') if len(e[2]) >= 2 and L.same_value(e[2][1], path)]
            if reg is None:
                rep.undecided('R14.1', '%s:%s:registers-name' % (U, fn), 'the cleanup registry could not be identified (R14.2)')
                continue
            good = [e for e in pushes if _root_global(e[2][0]) == reg]
            if out[0] == 'ret':
                ok = bool(good)
                rep.ob('R14.1', '%s:%s:%s' % (U, fn, 'registers-name' if ok else ('registers-name-in-wrong-list' if pushes else 'name-not-registered')), ok,
                       'a path of %s returns a freshly created temporary file without pushing its name to `%s`, the list the exit handler unlinks: the file is left behind on every exit' % (fn, reg),
                       where=_where(u.fn(fn)), facts={'path': _fmt_path(ctx)})
                rep.ob('R14.1', '%s:%s:returns-created-name' % (U, fn), L.same_value(out[1], path),
                       '%s returns %r, not the name it created and registered (%r)' % (fn, out[1], path), where=_where(u.fn(fn)))
            else:
                ok = bool(good)
                rep.ob('R14.1', '%s:%s:%s' % (U, fn, 'registered-before-exit' if ok else 'exits-before-registering'), ok,
                       'after mkstemp succeeded %s can terminate (%s) before the name is registered: that temporary file is left behind' % (fn, out[1]),
                       where=_where(u.fn(fn)), facts={'path': _fmt_path(ctx)})
        if nsucc == 0:
            rep.undecided('R14.1', '%s:%s:no-success-path' % (U, fn), 'no path on which mkstemp succeeds')


def _nonzero_exit(out):
    """outcome is a termination with a status that is certainly non-zero"""
    if out[0] != 'noreturn':
        return False
    fn, args = out[1], out[2]
    if fn in L.ERROR_FNS or fn in ('abort', '__assert_fail', '__builtin_trap') or fn in L.SELF_SIGNAL_FNS:
        return True     # (a process that dies by a signal is reported to its parent as failed)
    if fn in ('exit', '_exit', '_Exit', 'quick_exit'):
        return bool(args) and isinstance(args[0], int) and not isinstance(args[0], bool) and (args[0] & 0xff) != 0
    return False


# ============================================================ R14.3 / R14.4 ===
def _parent_end_key(out):
    if out[1] in L.EXEC_FNS:
        return 'parent-execs'
    if out[1] in L.SELF_SIGNAL_FNS:
        return 'parent-kills-itself-with-%s' % out[1]
    return 'parent-calls-%s' % out[1]


def _parent_end_msg(st, out):
    if out[1] in L.EXEC_FNS:
        return 'the driver itself is replaced by %s: cleanup never runs' % out[1]
    if out[1] in L.SELF_SIGNAL_FNS:
        return ('the driver (not the forked child) sends itself signal %s through %s() while the disposition of that signal is the default action: the process is terminated by the signal, '
                'atexit handlers do not run, every registered temporary file is left behind' % (st.get('killed_by', '?'), out[1]))
    return 'the driver (parent side of fork) terminates through %s(): atexit handlers do not run, every registered temporary file is left behind' % out[1]


def _static_sig(e):
    """signal number of an argument expression when it is a constant, else None"""
    if e is None:
        return None
    try:
        v = e.strip_all().int_value()
    except Exception:
        v = None
    return v if isinstance(v, int) and not isinstance(v, bool) else None


def _static_handler(e):
    """'dfl' / 'ign' / ('fn', name) / 'unknown' for a handler argument expression"""
    if e is None:
        return 'unknown'
    b = e.strip_all()
    if b.kind == 'DeclRefExpr' and b.ref_kind == 'FunctionDecl':
        return ('fn', b.ref_name)
    if b.kind == 'UnaryOperator' and b.opcode == '&' and b.inner:
        c = b.inner[0].strip_all()
        if c.kind == 'DeclRefExpr' and c.ref_kind == 'FunctionDecl':
            return ('fn', c.ref_name)
    v = _static_sig(e)
    if v == 0:
        return 'dfl'
    if v == 1:
        return 'ign'
    return 'unknown'


def _signal_installs(rep, cg, reach_main):
    """every reachable call that sets a signal disposition: (unit, caller, call, constant signal or None, handler kind).
    Decides on the way: SIGCHLD is never set to `ignore` (the kernel then reaps children itself and wait() delivers no status)."""
    out = []
    for name, (sidx, hidx) in sorted(L.SIGNAL_SET_FNS.items()):
        for (cu, caller, call) in cg.sites.get(name, ()):
            if caller not in reach_main:
                continue
            a = call.args()
            sig = _static_sig(a[sidx]) if len(a) > sidx else None
            h = _static_handler(a[hidx]) if len(a) > hidx else 'unknown'
            out.append((cu, caller, call, sig, h))
            if h == 'ign' and sig == L.SIGCHLD:
                rep.ob('R14.4', '%s:%s:ignores-SIGCHLD' % (cu.name, caller), False,
                       '%s(SIGCHLD, SIG_IGN) in %s (%s): terminated children are then discarded by the kernel, wait() returns -1 (ECHILD) without a status and the failure of a pipeline stage is never seen'
                       % (name, caller, cg.witness(caller)), where=_where(call, cu.name))
            elif h in ('ign', 'unknown') and sig is None:
                rep.undecided('R14.4', '%s:%s:%s-of-computed-signal' % (cu.name, caller, name),
                              '%s() sets the disposition of a signal that is not a constant to %s: cannot tell whether SIGCHLD stays deliverable' % (name, 'ignore' if h == 'ign' else 'a computed handler'),
                              where=_where(call, cu.name))
    for name in L.SIGACTION_FNS:
        for (cu, caller, call) in cg.sites.get(name, ()):
            if caller not in reach_main:
                continue
            a = call.args()
            sig = _static_sig(a[0]) if a else None
            if len(a) > 1 and _static_sig(a[1]) == 0:
                continue        # sigaction(sig, NULL, &old): query
            out.append((cu, caller, call, sig, 'unknown'))
            if sig is None or sig == L.SIGCHLD:
                rep.undecided('R14.4', '%s:%s:%s-of-SIGCHLD' % (cu.name, caller, name),
                              '%s() may change the disposition of SIGCHLD (SIG_IGN / SA_NOCLDWAIT make wait() deliver no status): flags and handler of the structure are not interpreted' % name,
                              where=_where(call, cu.name))
    for name in L.DISPOSITION_UNMODELLED:
        for (cu, caller, call) in cg.sites.get(name, ()):
            if caller in reach_main:
                out.append((cu, caller, call, None, 'unknown'))
    return out


def r143_r144(P, u, rep, cg, reach_main, facts):
    rep.rule('R14.3', 'outside the forked child the process ends only through exit()/return from main (atexit handlers run); inside the child only through exec* or _exit (the child never runs the parent\'s handlers, never continues the driver); '
                      'the driver is never replaced by exec and never terminated by a signal it (or its child) sends to it', floor=4)
    rep.rule('R14.4', 'on every path from process creation (fork, posix_spawn*, system) to the return the wait status is read, every non-zero status (exit code or signal) ends the driver with a non-zero status, '
                      'success continues, and a failed process creation - as that API reports it: fork/system -1, posix_spawn* a positive errno value - is fatal', floor=4)
    rep.rule('R14.12', 'a wait that FAILS is never taken for the completion of the child: when the wait is interrupted (-1/EINTR, child still running) the launcher waits again or ends the driver with a non-zero status; '
                       'when the driver was started with SIGCHLD ignored and does not reset it (the kernel reaps the child, the wait fails with -1/ECHILD, no status exists) the launcher ends the driver with a '
                       'non-zero status - the only normal return is after the examined status of the child it started was 0', floor=2)
    fork_fns = {}
    kinds = {}          # launcher function -> set of process-creation families it calls (fork / spawn / system)
    for name in L.LAUNCH_FNS:
        for (cu, caller, call) in cg.sites.get(name, ()):
            if caller in reach_main:
                fork_fns.setdefault(caller, cu)
                kinds.setdefault(caller, set()).add(L.LAUNCH_KIND[name])
    for name in L.LAUNCH_UNMODELLED:
        for (cu, caller, call) in cg.sites.get(name, ()):
            if caller in reach_main:
                rep.undecided('R14.3', '%s:%s:%s' % (cu.name, caller, name), 'process creation through %s() is not modelled' % name, where=_where(call, cu.name))
    facts['fork_fns'] = set(fork_fns)
    if not fork_fns:
        rep.undecided('R14.3', '%s:fork' % U, 'no reachable call of fork() / posix_spawn() / system(): the subprocess anchor vanished')
        return
    for name in L.WAIT_UNMODELLED:
        for (cu, caller, call) in cg.sites.get(name, ()):
            if caller in reach_main:
                rep.undecided('R14.4', '%s:%s:%s' % (cu.name, caller, name), '%s() is not modelled' % name, where=_where(call, cu.name))
    installs = _signal_installs(rep, cg, reach_main)
    facts['signal_installs'] = installs

    def sig_may_install(sig, done=()):
        return any((s is None or s == sig) and (cu_.name, call.line) not in done for (cu_, caller, call, s, h) in installs if h != 'dfl')
    # a reachable call that gives SIGCHLD a disposition other than `ignore` (SIG_DFL or a handler): the program does not depend
    # on what it inherited; where and whether it runs before the launchers is not decided, so the inherited-ignore
    # environment is then not explored (no alarm) instead of guessed
    sigchld_reset = any(s == L.SIGCHLD and h != 'ign' for (cu_, caller, call, s, h) in installs)
    entered_roles = {}   # function -> set of roles in which it was entered while exploring fork functions
    explored_sites = {}  # (unit, line of hard exit call) -> set of roles
    for fn, cu in sorted(fork_fns.items()):
        for kind in sorted(kinds[fn]):
            rep.ob('R14.3', '%s:%s:%s-in-driver' % (cu.name, fn, kind), cu.name == U,
                   'a process is created (%s) outside main.c (%s)' % (kind, cg.witness(fn)), where=_where(cu.fn(fn), cu.name))
        try:
            it = L.make_interp(P, cu, loop_limit=1, globals_=_lazy_record_globals(cu), inherited_child=True,
                               wait_failures=(lambda st_: not sigchld_reset) if 'system' not in kinds[fn] or len(kinds[fn]) > 1 else False)
            it.sig_may_install = sig_may_install
            paths = it.explore(fn, lambda ctx: [])
        except AnalysisBroken as e:
            rep.undecided('R14.3', '%s:%s:interpretation' % (cu.name, fn), str(e))
            continue
        w = _where(cu.fn(fn), cu.name)
        # outcomes every launcher must be seen in: fork has a child side in this program and fails with -1;
        # posix_spawn* has no child side here and fails with an errno value; system() fails with -1
        seen = {'parent': 0}
        if 'fork' in kinds[fn]:
            seen.update({'child': 0, 'fork-failed': 0})
        if 'spawn' in kinds[fn]:
            seen['spawn-failed'] = 0
        if 'system' in kinds[fn]:
            seen['fork-failed'] = 0
        if 'fork' not in kinds[fn]:
            # posix_spawn* / system create the child inside libc: it execs or _exits there and never runs code (or handlers) of this program
            rep.ob('R14.3', '%s:%s:child-side-stays-in-libc' % (cu.name, fn), True, '', where=w)
        inherited = {}      # parent paths by the number of children the process owns besides the one it started (decided at a wait for any child)
        wf_seen = {'ECHILD': 0, 'EINTR': 0}
        n_waiting_parent = 0
        for ctx, out in paths:
            st = L.proc_state(ctx)
            role = st['role']
            if role == 'parent' and st['waits']:
                n_waiting_parent += 1
            if role == 'parent' and st.get('sigchld_ignored') == 'inherited':
                wf_seen['ECHILD'] += 1
            if role == 'parent' and st.get('eintr'):
                wf_seen['EINTR'] += 1
            if role == 'parent' and st.get('inherited') is not None:
                inherited[st['inherited']] = inherited.get(st['inherited'], 0) + 1
            for (f, r) in st['entered']:
                entered_roles.setdefault(f, set()).add(r)
            if out[0] == 'noreturn' and out[1] in L.HARD_EXIT:
                explored_sites.setdefault((cu.name, out[3]), set()).add(role)
            trail = {'path': _fmt_path(ctx)}
            for (sname, sline, why) in st.get('sig_undecided', ()):
                rep.undecided('R14.3', '%s:%s:%s-effect' % (cu.name, fn, sname), '%s() is called on a path of %s and its effect cannot be decided: %s' % (sname, fn, why),
                              where='%s:%d' % (cu.name, sline))
            if st.get('child_signals_driver'):
                sname, sig, sline = st['child_signals_driver']
                rep.ob('R14.3', '%s:%s:child-signals-driver-with-%s' % (cu.name, fn, sname), False,
                       'the forked child sends signal %d to the driver (%s): the default action terminates the driver without running its atexit handlers, every registered temporary file is left behind' % (sig, sname),
                       where='%s:%d' % (cu.name, sline), facts=trail)
            if role == 'no-fork':
                # a path that ends before any process was created is still the driver
                if out[0] == 'noreturn' and (out[1] in L.HARD_EXIT or out[1] in L.SELF_SIGNAL_FNS or out[1] in L.EXEC_FNS):
                    rep.ob('R14.3', '%s:%s:%s' % (cu.name, fn, _parent_end_key(out)), False, _parent_end_msg(st, out), where='%s:%d' % (cu.name, out[3]), facts=trail)
                continue
            seen[role] = seen.get(role, 0) + 1
            # ---- R14.3
            if role == 'child':
                if out[0] == 'ret':
                    rep.ob('R14.3', '%s:%s:child-returns' % (cu.name, fn), False,
                           'the forked child can leave the fork()==0 region and return into the driver: it would run the rest of the pipeline and the atexit cleanup a second time',
                           where=w, facts=trail)
                elif out[1] in L.SELF_SIGNAL_FNS:
                    # the child kills itself: like _exit, no handler of the parent runs in it; the parent sees a signal status (R14.4)
                    rep.ob('R14.3', '%s:%s:child-ends-by-signal-to-itself' % (cu.name, fn), True, '', where=w)
                elif out[1] in L.EXEC_FNS or out[1] in ('_exit', '_Exit'):
                    rep.ob('R14.3', '%s:%s:child-ends-by-exec-or-_exit' % (cu.name, fn), True, '', where=w)
                    if out[1] in ('_exit', '_Exit'):
                        rep.ob('R14.3', '%s:%s:child-failure-status-nonzero' % (cu.name, fn), _nonzero_exit(out),
                               'the child reports a failed exec with status %r: the parent would take it for success' % (out[2][:1],), where='%s:%d' % (cu.name, out[3]), facts=trail)
                else:
                    rep.ob('R14.3', '%s:%s:child-calls-%s' % (cu.name, fn, out[1]), False,
                           'the forked child terminates through %s(): the atexit handler runs in the child and unlinks the temporary files the parent still needs (and stdio buffers are flushed twice)' % out[1],
                           where='%s:%d' % (cu.name, out[3]), facts=trail)
            else:
                if out[0] == 'noreturn' and (out[1] in L.HARD_EXIT or out[1] in L.SELF_SIGNAL_FNS or out[1] in L.EXEC_FNS):
                    rep.ob('R14.3', '%s:%s:%s' % (cu.name, fn, _parent_end_key(out)), False, _parent_end_msg(st, out),
                           where='%s:%d' % (cu.name, out[3]), facts=trail)
                else:
                    rep.ob('R14.3', '%s:%s:parent-ends-by-exit-or-return' % (cu.name, fn), True, '', where=w)
            # ---- R14.4
            if role == 'parent':
                stt = st['status']
                others = st.get('others_reaped', 0)       # children the path did not start that a wait-for-any call returned
                # ---- R14.12: a wait that failed is not the completion of the child
                if st.get('sigchld_ignored') == 'inherited':
                    k12 = '%s:%s:wait-fails-ECHILD' % (cu.name, fn)
                    if L.uninit_read(ctx, out):
                        rep.ob('R14.12', k12 + '-reads-uninitialised-status', False,
                               'when the driver is started with SIGCHLD ignored (SIG_IGN survives exec: nohup-like wrappers, build daemons) the kernel reaps the child itself and the wait fails with -1/ECHILD '
                               'without writing a status; on this path the function then decides on the status variable that was never written', where=w, facts=trail)
                    elif out[0] == 'ret':
                        rep.ob('R14.12', k12 + '-taken-for-success', False,
                               'when the driver is started with SIGCHLD ignored (SIG_IGN survives exec: nohup-like wrappers, build daemons) the kernel reaps the child itself: the wait blocks until the child is gone and '
                               'then ALWAYS fails with -1/ECHILD, no status is delivered. On this path the function returns normally after that failure: the exit status of every cc1/as/ld is lost, a failing '
                               'stage counts as successful, the driver carries on (assembles an empty temporary, links without the failed unit) and can exit 0', where=w, facts=trail)
                    else:
                        rep.ob('R14.12', k12 + '-is-fatal', _nonzero_exit(out),
                               'a wait that fails with ECHILD ends the driver through %s%r, which is not a certain non-zero status' % (out[1], tuple(out[2][:1])), where=w, facts=trail)
                    continue
                if st.get('eintr'):
                    k12 = '%s:%s:wait-fails-EINTR' % (cu.name, fn)
                    if out[0] == 'ret' and (stt is None or st['children'] > 0):
                        rep.ob('R14.12', k12 + '-taken-for-child-exit', False,
                               'a wait that is interrupted by a signal (-1/EINTR) leaves the child running and delivers no status; on this path the function returns normally without another wait: '
                               'the next stage reads a file the child is still writing and the failure of the child is never seen', where=w, facts=trail)
                        continue
                    if stt is None and L.uninit_read(ctx, out):
                        rep.ob('R14.12', k12 + '-reads-uninitialised-status', False,
                               'after a wait that was interrupted by a signal (-1/EINTR: no status written) the function decides on the status variable that was never written', where=w, facts=trail)
                        continue
                    if stt is None:
                        rep.ob('R14.12', k12 + '-is-fatal', _nonzero_exit(out),
                               'an interrupted wait ends the driver through %s%r, which is not a certain non-zero status' % (out[1], tuple(out[2][:1])), where=w, facts=trail)
                        continue
                    rep.ob('R14.12', k12 + '-is-retried', True, '', where=w)
                if stt is None or (st['children'] > 0 and out[0] == 'ret'):
                    if out[0] == 'ret' and others:
                        rep.ob('R14.4', '%s:%s:returns-before-own-child-is-reaped' % (cu.name, fn), False,
                               'the function waits for ANY child and takes the first one that exits for the one it started: a process keeps its children across exec, so when the driver was exec\'ed by a wrapper '
                               'that had forked a helper, wait() returns the helper, the function returns while the stage it started is still running and the status of that stage is never examined - '
                               'a failing cc1 goes unnoticed, the next stage reads a file that is still being written, the driver can exit 0',
                               where=w, facts=trail)
                    elif out[0] == 'ret':
                        rep.ob('R14.4', '%s:%s:child-not-waited-for' % (cu.name, fn), False,
                               'a path returns to the pipeline without having waited for the child: the next stage reads a file the child is still writing, and its failure is never seen',
                               where=w, facts=trail)
                    continue
                cls, val = stt
                if st.get('status_dropped'):
                    rep.ob('R14.4', '%s:%s:status-discarded' % (cu.name, fn), False, 'the wait status is not stored (NULL status pointer)', where=w, facts=trail)
                    continue
                if L.uninit_read(ctx, out):
                    rep.ob('R14.4', '%s:%s:%s-reads-uninitialised-value' % (cu.name, fn, cls), False,
                           'after a successful wait the decision depends on a variable that was never written', where=w, facts=trail)
                    continue
                if out[0] == 'ret':
                    rep.ob('R14.4', '%s:%s:own-child-reaped-before-return' % (cu.name, fn), True, '', where=w)
                if cls == 'child-success':
                    rep.ob('R14.4', '%s:%s:child-success-%s' % (cu.name, fn, 'continues' if out[0] == 'ret' else 'terminates-driver'), out[0] == 'ret',
                           'a child that exited with status 0 makes the driver terminate (%s): the pipeline stops after its first stage' % (out[1],), where=w, facts=trail)
                else:
                    what = 'exited with code %d' % (val >> 8) if cls == 'child-exit-code' else 'was killed by signal %d%s' % (val & 0x7f, ' (core dumped)' if val & 0x80 else '')
                    if out[0] == 'ret' and others:
                        rep.ob('R14.4', '%s:%s:failed-child-masked-by-status-of-another-child' % (cu.name, fn), False,
                               'the function waits for ANY child and decides on the status the last wait delivered: when the process owns a child it did not start (a process keeps its children across exec: '
                               '`helper & exec chibicc ...`) and that child exits with status 0 after the stage, the status of the stage that %s (wait status %#x) is overwritten and the failure is '
                               'treated as success - the driver carries on with the next pipeline stage and can exit 0' % (what, val),
                               where=w, facts=trail)
                    elif out[0] == 'ret':
                        rep.ob('R14.4', '%s:%s:%s-ignored' % (cu.name, fn, cls), False,
                               'a child that %s (wait status %#x) is treated as success: the driver carries on with the next pipeline stage (assembles a truncated temporary, links anyway) and can exit 0' % (what, val),
                               where=w, facts=trail)
                    elif not _nonzero_exit(out):
                        rep.ob('R14.4', '%s:%s:%s-exits-zero' % (cu.name, fn, cls), False,
                               'a child that %s makes the driver terminate through %s%r, which is not a certain non-zero status' % (what, out[1], tuple(out[2][:1])), where=w, facts=trail)
                    else:
                        rep.ob('R14.4', '%s:%s:%s-is-fatal' % (cu.name, fn, cls), True, '', where=w)
            elif role == 'fork-failed':
                if L.uninit_read(ctx, out):
                    rep.ob('R14.4', '%s:%s:fork-failure-reads-uninitialised-status' % (cu.name, fn), False,
                           'when fork() fails (-1) there is no child: wait() returns -1 without writing the status, and the following test reads the uninitialised variable - '
                           'the driver continues as if the subprocess had succeeded, or fails without a message, depending on stack garbage',
                           where=w, facts=trail)
                elif out[0] == 'ret':
                    rep.ob('R14.4', '%s:%s:fork-failure-ignored' % (cu.name, fn), False,
                           'when fork() fails the function returns as if the subprocess had run successfully', where=w, facts=trail)
                else:
                    rep.ob('R14.4', '%s:%s:fork-failure-is-fatal' % (cu.name, fn), _nonzero_exit(out),
                           'a failed fork() ends the driver with a status that is not certainly non-zero (%s%r)' % (out[1], tuple(out[2][:1])), where=w, facts=trail)
            elif role == 'spawn-failed':
                api = st.get('launch_api', 'posix_spawn')
                err = st.get('launch_error', 'an errno value')
                if L.uninit_read(ctx, out):
                    rep.ob('R14.4', '%s:%s:spawn-failure-reads-uninitialised-status' % (cu.name, fn), False,
                           'when %s() fails it returns a positive errno value (%s) and there is no child: wait() returns -1 without writing the status, and the following test reads the uninitialised variable'
                           % (api, err), where=w, facts=trail)
                elif out[0] == 'ret':
                    rep.ob('R14.4', '%s:%s:spawn-failure-ignored' % (cu.name, fn), False,
                           'when %s() cannot start the program it returns a positive errno value (%s; never -1, and errno is not set) and no child exists; on this path the function does not recognise that result, '
                           'wait() finds no child and leaves the status untouched, and the function returns as if the subprocess had run successfully: the driver carries on with the next stage and can exit 0 '
                           'without the object/executable having been produced' % (api, err), where=w, facts=trail)
                else:
                    rep.ob('R14.4', '%s:%s:spawn-failure-is-fatal' % (cu.name, fn), _nonzero_exit(out),
                           'a failed %s() ends the driver with a status that is not certainly non-zero (%s%r)' % (api, out[1], tuple(out[2][:1])), where=w, facts=trail)
        for role, n in seen.items():
            if n == 0:
                rep.undecided('R14.3', '%s:%s:no-%s-path' % (cu.name, fn, role), 'no explored path with process-creation outcome `%s`' % role)
        if n_waiting_parent and sigchld_reset:
            # the program gives SIGCHLD a disposition of its own: an inherited `ignore` is not what its waits run under
            rep.ob('R14.12', '%s:%s:inherited-SIGCHLD-ignore-replaced-by-program' % (cu.name, fn), True, '', where=w)
        if n_waiting_parent and 'system' not in kinds[fn]:
            for e, cnt in sorted(wf_seen.items()):
                if cnt == 0 and not (e == 'ECHILD' and sigchld_reset):
                    rep.undecided('R14.12', '%s:%s:no-path-with-wait-failing-%s' % (cu.name, fn, e),
                                  '%s waits for its child, but no path on which that wait fails with %s was explored to its end' % (fn, e))
        if inherited.get(0) and not inherited.get(1):
            rep.undecided('R14.4', '%s:%s:no-path-with-inherited-child' % (cu.name, fn),
                          '%s waits for any child, but no path on which the process owns a child it did not start was explored to its end (cut off by an iteration bound)' % fn)
    # ---- whole program: hard exits reachable from main that the exploration did not see on child-only paths
    def is_child_only(caller):
        roles = entered_roles.get(caller)
        static_callers = set(c for (_, c, _) in cg.sites.get(caller, ())) | set(c for (_, c, _) in cg.refs.get(caller, ()))
        return bool(roles == {'child'} and static_callers and all(c in fork_fns or entered_roles.get(c) == {'child'} for c in static_callers))
    # the driver replaced by another program (exec outside the forked child), or terminated by a signal it sends itself
    n_other = 0
    for name in L.EXEC_FNS:
        for (cu, caller, call) in cg.sites.get(name, ()):
            if caller not in reach_main or caller in fork_fns:
                continue
            n_other += 1
            child_only = is_child_only(caller)
            rep.ob('R14.3', '%s:%s:%s' % (cu.name, caller, ('child-helper-execs-with-%s' if child_only else 'execs-with-%s') % name), child_only,
                   '%s() is called in %s, which runs in the driver/cc1 process outside the forked child (%s): the process image is replaced, atexit handlers never run, registered temporary files are left behind'
                   % (name, caller, cg.witness(caller)), where=_where(call, cu.name))
    for name, (tidx, sidx) in sorted(L.SELF_SIGNAL_FNS.items()):
        for (cu, caller, call) in cg.sites.get(name, ()):
            if caller not in reach_main or caller in fork_fns:
                continue
            n_other += 1
            a = call.args()
            key = '%s:%s:' % (cu.name, caller)
            wh = _where(call, cu.name)
            if is_child_only(caller):
                rep.ob('R14.3', key + 'child-helper-calls-%s' % name, True, '', where=wh)
                continue
            # receiver: the calling process itself / its process group, or some other process
            if tidx is None:
                target = 'self'
            else:
                t = a[tidx].strip_all() if len(a) > tidx else None
                tv = _static_sig(a[tidx]) if len(a) > tidx else None
                if t is not None and t.kind == 'CallExpr' and t.callee() in ('getpid', 'getpgrp'):
                    target = 'self'
                elif tv in (0, -1):
                    target = 'self'
                else:
                    target = None
            if target is None:
                rep.undecided('R14.3', key + '%s-target' % name, '%s() in %s (%s): cannot tell statically whether the receiving process is the driver itself' % (name, caller, cg.witness(caller)), where=wh)
                continue
            sig = _static_sig(a[sidx]) if len(a) > sidx else None
            if sig is not None and (sig == 0 or (sig in L.SIG_DEFAULT_HARMLESS and not sig_may_install(sig))):
                rep.ob('R14.3', key + '%s-of-non-terminating-signal' % name, True, '', where=wh)
                continue
            if (sig is None and any(h != 'dfl' for (_, _, _, _, h) in installs)) or (sig is not None and sig not in L.SIG_UNBLOCKABLE and sig_may_install(sig)):
                rep.undecided('R14.3', key + '%s-effect' % name, '%s() in %s sends the process a signal whose disposition may have been changed elsewhere in the program: effect not decided' % (name, caller), where=wh)
                continue
            rep.ob('R14.3', key + 'kills-itself-with-%s' % name, False,
                   '%s sends its own process %s through %s() (%s) and no reachable code changes the default disposition: the default action of all but the job-control/SIGCHLD/SIGURG/SIGWINCH signals terminates the process, '
                   'atexit handlers do not run, registered temporary files are left behind'
                   % (caller, 'signal %d' % sig if sig is not None else 'a computed signal', name, cg.witness(caller)), where=wh)
    rep.ob('R14.3', '%s:driver:termination-calls-outside-launchers-classified' % U, True, '', where=None, facts={'exec-or-signal sites outside the launcher functions': n_other})
    for name in L.HARD_EXIT:
        for (cu, caller, call) in cg.sites.get(name, ()):
            if caller not in reach_main:
                continue
            if caller in fork_fns:
                continue    # decided per path above
            child_only = is_child_only(caller)
            rep.ob('R14.3', '%s:%s:%s' % (cu.name, caller, ('child-helper-calls-%s' if child_only else 'calls-%s') % name), bool(child_only),
                   '%s() is called in %s, which runs in the driver/cc1 process outside the forked child (%s): atexit handlers do not run, registered temporary files are left behind'
                   % (name, caller, cg.witness(caller)), where=_where(call, cu.name))


# ================================================================== R14.5 ===
def r145(P, u, rep, cg):
    rep.rule('R14.5', 'in a cc1 process the user-visible output file is created/truncated only after every phase that can end in a diagnostic (tokenize, preprocess, parse, codegen) has returned; codegen writes into a memory stream', floor=3)
    terminators = set(L.HARD_EXIT) | set(L.SOFT_EXIT) | set(L.ERROR_FNS) | {'__assert_fail'}
    may_fail = cg.reaches(terminators)
    creators = cg.reaches({'fopen', 'fopen64'} | set(PATH_CREATE) | set(TMP_CREATE))
    # functions of main.c that cannot reach a file-creating call are kept opaque (their calls become events)
    opaque = [f for f in u.functions if f not in creators and f != 'cc1']
    glob = {}
    for name, g in u.globals.items():
        t = (g.dtype or g.type or '').replace('struct ', '').strip()
        if t in u.records and 'init' not in g.d:
            glob[name] = (lambda nm, tt: (lambda ctx: Obj(tt, lazy=True, label='g:' + nm)))(name, t)
    try:
        it = L.make_interp(P, u, opaque=opaque, globals_=glob, loop_limit=1)
        L.slice_loops(it, u, may_fail | terminators | creators | {'fopen', 'fopen64'} | set(PATH_CREATE) | set(TMP_CREATE))
        paths = it.explore('cc1', lambda ctx: [])
    except AnalysisBroken as e:
        rep.undecided('R14.5', '%s:cc1:interpretation' % U, str(e))
        return
    w = _where(u.fn('cc1'))
    n_out = 0
    n_cg = 0
    # a name computed by a pure string helper of main.c (suffix replacement and the like) is a derived, secondary name
    dep_name_fns = set(f for f in _pure_string_fns(u, cg) if (_ret_type(u, f) or '').replace(' ', '') == 'char*')
    for ctx, out in paths:
        evs = L.calls_of(ctx)
        for i, e in enumerate(evs):
            name, args = e[1], e[2]
            if name in ('fopen', 'fopen64') or name in PATH_CREATE:
                mode = args[1] if len(args) > 1 else None
                if name.startswith('fopen') and isinstance(mode, str) and not (mode[:1] in ('w', 'a') or '+' in mode):
                    continue
                pv = args[0] if args else None
                g = _root_global(pv)
                if g in DEP_GLOBALS or (isinstance(pv, Sym) and (pv.name.split('#')[0] in DEP_NAME_FNS or pv.name.split('#')[0] in dep_name_fns)):
                    continue        # dependency file of -MD/-MF: a secondary output, written after preprocessing by design
                if g not in OUTPUT_GLOBALS:
                    rep.undecided('R14.5', '%s:cc1:open-of-%s' % (U, g or 'computed-name'),
                                  'a file named by %r is opened for writing in the cc1 process: not one of the known output names (%s) or dependency-file names (%s)'
                                  % (pv, '/'.join(OUTPUT_GLOBALS), '/'.join(DEP_GLOBALS + DEP_NAME_FNS)), where='%s:%d' % (U, e[3]))
                    continue
                n_out += 1
                later = [x for x in evs[i + 1:] if x[1] in may_fail or x[1] in terminators]
                later = [x for x in later if x[1] not in ('fopen', 'fopen64')]
                # a call that is handed the stream just opened (a close/flush helper that reports a failed write) is the writing
                # of the output itself, not a phase that could have run before the file was created
                stream = e[4] if len(e) > 4 else None
                if stream is not None:
                    later = [x for x in later if not any(a is stream for a in x[2])]
                names = sorted(set(x[1] for x in later))
                ok = not later
                site = L.outer_site(ctx, e)
                via = (' (through %s(), called at %s:%d)' % (site[0], U, site[1])) if site else ''
                wh = '%s:%d' % (U, site[1] if site else e[3])
                rep.ob('R14.5', '%s:cc1:%s' % (U, 'output-opened-after-all-failing-phases' if ok else 'output-%s-opened-before-%s' % (g, '+'.join(names))), ok,
                       'the output file (`%s`%s) is created/truncated before %s has returned: a diagnostic raised there ends the process with an empty or clobbered output file left behind for a translation unit that failed to compile'
                       % (g, via, ', '.join(names)), where=wh, facts={'path': _fmt_path(ctx), 'events': [x[1] for x in evs]})
                before = [x[1] for x in evs[:i]]
                rep.ob('R14.5', '%s:cc1:output-opened-after-preprocess' % U, 'preprocess' in before,
                       'the output file is opened on a path that has not run the preprocessor yet', where=wh, facts={'events': [x[1] for x in evs]})
            if name == 'codegen':
                n_cg += 1
                ms = [x for x in evs[:i] if x[1] == 'open_memstream']
                stream = args[1] if len(args) > 1 else None
                ok = any(x[4] is stream or L.same_value(x[4], stream) for x in ms)
                rep.ob('R14.5', '%s:cc1:codegen-writes-to-memory-stream' % U, ok,
                       'codegen is handed a stream that is not the result of open_memstream: assembly text reaches the output while code generation can still fail',
                       where='%s:%d' % (U, e[3]), facts={'stream': repr(stream)})
    if n_out == 0:
        rep.undecided('R14.5', '%s:cc1:no-output-open' % U, 'no path of cc1 opens a file named by %s' % '/'.join(OUTPUT_GLOBALS))
    if n_cg == 0:
        rep.undecided('R14.5', '%s:cc1:no-codegen' % U, 'no path of cc1 calls codegen')


# ================================================================== R14.6 ===
def _m_strarray_push(it, ctx, n, args):
    arr = args[0]
    ctx.emit('call', 'strarray_push', args, n.line, None)
    if isinstance(arr, Obj):
        old = it.read_field(arr, 'len')
        if isinstance(old, View):
            old = it.force(old)
        arr.fields['len'] = it.arith('+', old, 1, 'int')
        arr.meta.setdefault('pushed', []).append(args[1] if len(args) > 1 else None)
    return None


def _m_strarray_push_store(it, ctx, n, args):
    """strarray_push that also keeps the elements (an all-zero StringArray grows a data array): lists filled by the
    interpreted option parser are read back by main"""
    arr = args[0]
    val = args[1] if len(args) > 1 else None
    ctx.emit('call', 'strarray_push', args, n.line, None)
    if isinstance(arr, Obj):
        old = it.read_field(arr, 'len')
        if isinstance(old, View):
            old = it.force(old)
        d = arr.fields.get('data')
        if isinstance(old, int) and not isinstance(old, bool):
            if not isinstance(d, Arr):
                d = Arr([0] * old, label=(arr.label or 'list') + '.data')
                arr.fields['data'] = d
            while len(d.elems) < old + 2:
                d.elems.append(0)
            d.elems[old] = val
            d.elems[old + 1] = 0
        arr.fields['len'] = it.arith('+', old, 1, 'int')
        arr.meta.setdefault('pushed', []).append(val)
    return None


def r146(P, u, rep, cg, facts):
    rep.rule('R14.6', 'per input: cc1 runs before the assembler on the temporary it wrote, every stage goes through run_subprocess, the linker runs once after all inputs; `-o` with several inputs and -c/-S/-E is rejected before any subprocess', floor=6)
    # every stage launcher runs the subprocess on every returning path
    launchers = sorted(facts.get('fork_fns', ()))
    if not launchers:
        rep.undecided('R14.6', '%s:launcher' % U, 'no function that forks was found (R14.3)')
        return
    # (decided for every driver state: option lists / flags hold anything, so a fast path that bypasses the subprocess
    # `when there is one input` is seen; only functions through which a launcher can be reached are interpreted)
    to_launcher = cg.reaches(set(launchers))
    for fn in SUBPROC:
        if fn not in u.functions:
            rep.undecided('R14.6', '%s:%s:vanished' % (U, fn), 'pipeline stage function %s vanished' % fn)
            continue
        try:
            it = L.make_interp(P, u, opaque=launchers + [f for f in cg.defs if f != fn and f not in to_launcher] + ['strarray_push', 'format'],
                               globals_=_lazy_record_globals(u), loop_limit=1)
            paths = it.explore(fn, lambda ctx: [], max_paths=20000)
        except AnalysisBroken as e:
            rep.undecided('R14.6', '%s:%s:interpretation' % (U, fn), str(e))
            continue
        nret = 0
        for ctx, out in paths:
            if out[0] != 'ret':
                continue
            nret += 1
            k = len(L.calls_of(ctx, launchers))
            rep.ob('R14.6', '%s:%s:%s' % (U, fn, 'runs-subprocess-once' if k == 1 else ('no-subprocess' if k == 0 else 'several-subprocesses')), k == 1,
                   '%s returns after launching %d subprocesses: the stage is skipped (or repeated) silently' % (fn, k), where=_where(u.fn(fn)), facts={'path': _fmt_path(ctx)})
        if nret == 0:
            rep.undecided('R14.6', '%s:%s:no-returning-path' % (U, fn), 'no returning path')
    # ---- main, symbolic over options, 0..2 inputs
    tmp_fns = sorted(facts.get('tmp_fns', ()))

    def m_tmp(it, ctx, n, args):
        s = Sym(ctx.fresh('tmp'), 'char *')
        ctx.emit('call', 'create_tmpfile', args, n.line, s)
        return s
    models = {'strarray_push': _m_strarray_push}
    for t in tmp_fns:
        models[t] = m_tmp
    opaque = [f for f in u.functions if f != 'main' and not _light_helper(u, facts, f)]

    def lazy_globals(over=None):
        glob = {}
        for name, g in u.globals.items():
            t = (g.dtype or g.type or '').replace('struct ', '').strip()
            if t in u.records and 'init' not in g.d:
                glob[name] = (lambda nm, tt: (lambda ctx: Obj(tt, lazy=True, label='g:' + nm)))(name, t)
        glob.update(over or {})
        return glob
    def inputs(k, names=None):
        return lambda ctx: Obj('StringArray', lazy=False, label='g:input_paths',
                               fields={'data': Arr([(names[i] if names else Sym('input%d' % i, 'char *')) for i in range(k)] + [0]), 'len': k, 'capacity': 8})
    if 'input_paths' not in u.globals or 'opt_cc1' not in u.globals:
        rep.undecided('R14.6', '%s:main:option-globals' % U, 'globals input_paths / opt_cc1 not found')
        return
    paths = []
    try:
        for k in (0, 1, 2):
            it = L.make_interp(P, u, opaque=opaque, extra_models=models, globals_=lazy_globals({'opt_cc1': 0, 'input_paths': inputs(k)}), loop_limit=1)
            paths += it.explore('main', lambda ctx: [Sym('argc', 'int'), Sym('argv', 'char **')], max_paths=60000)
    except AnalysisBroken as e:
        rep.undecided('R14.6', '%s:main:interpretation' % U, str(e))
        return
    w = _where(u.fn('main'))
    facts['driver_paths'] = paths
    facts['main_explorer'] = lambda over, k=1: L.make_interp(P, u, opaque=opaque, extra_models=models, globals_=lazy_globals(dict(over, input_paths=inputs(k))), loop_limit=1) \
        .explore('main', lambda ctx: [Sym('argc', 'int'), Sym('argv', 'char **')], max_paths=60000)
    n_asm_tmp = n_link = n_cc1 = 0
    for ctx, out in paths:
        evs = [e for e in L.calls_of(ctx) if e[1] in SUBPROC or e[1] in ('create_tmpfile', 'strarray_push')]
        tmps = [e[4] for e in evs if e[1] == 'create_tmpfile']

        def is_tmp(v):
            return any(v is t for t in tmps)
        for i, e in enumerate(evs):
            name, args = e[1], e[2]
            if name == 'run_cc1':
                n_cc1 += 1
            # intermediate files must have per-invocation names (mkstemp) or be derived from the command line
            inter = []
            if name == 'run_cc1' and len(args) >= 4:
                inter = [('cc1 output', args[3])]
            elif name == 'assemble' and len(args) >= 2:
                inter = [('assembler input', args[0]), ('assembler output', args[1])]
            elif name == 'strarray_push' and len(args) >= 2 and isinstance(args[0], Obj) and not _root_global(args[0]):
                inter = [('linker input', args[1])]
            for role, v in inter:
                fixed = isinstance(v, str)
                rep.ob('R14.6', '%s:main:%s' % (U, ('fixed-name-for-%s' % role.replace(' ', '-')) if fixed else 'intermediate-names-are-per-invocation'), not fixed,
                       'the %s is the fixed file name %r: two chibicc processes running at the same time overwrite each other\'s intermediate file, and nothing unlinks it' % (role, v),
                       where='%s:%d' % (U, e[3]), facts={'path': _fmt_path(ctx)})
            if name == 'assemble' and len(args) >= 2 and is_tmp(args[0]):
                n_asm_tmp += 1
                prod = [x for x in evs[:i] if x[1] == 'run_cc1' and len(x[2]) >= 4 and x[2][3] is args[0]]
                later = [x for x in evs[i + 1:] if x[1] == 'run_cc1' and len(x[2]) >= 4 and x[2][3] is args[0]]
                ok = bool(prod)
                rep.ob('R14.6', '%s:main:%s' % (U, 'assemble-after-cc1' if ok else ('assemble-before-cc1' if later else 'assemble-of-unwritten-temporary')), ok,
                       'the assembler is run on a temporary file before (or without) the cc1 run that writes it: it assembles an empty file and the result is reported as success',
                       where='%s:%d' % (U, e[3]), facts={'path': _fmt_path(ctx), 'events': [x[1] for x in evs]})
            if name == 'run_cc1' and len(args) >= 4:
                o = args[3]
                if is_tmp(o):
                    used = [x for x in evs[i + 1:] if x[1] == 'assemble' and x[2] and x[2][0] is o]
                    rep.ob('R14.6', '%s:main:%s' % (U, 'compiled-temporary-is-assembled' if used else 'compiled-temporary-unused'), bool(used),
                           'cc1 output written to a temporary is never assembled on this path', where='%s:%d' % (U, e[3]), facts={'events': [x[1] for x in evs]})
            if name == 'run_linker':
                n_link += 1
                after = [x[1] for x in evs[i + 1:] if x[1] in SUBPROC]
                rep.ob('R14.6', '%s:main:%s' % (U, 'linker-runs-last' if not after else 'linker-before-%s' % '+'.join(sorted(set(after)))), not after,
                       'the linker is started before all inputs have been processed (followed by %s): objects of later inputs are missing, and a later compile error leaves a linked output behind' % ', '.join(sorted(set(after))),
                       where='%s:%d' % (U, e[3]), facts={'events': [x[1] for x in evs]})
                a0 = args[0] if args else None
                ok = isinstance(a0, Obj) and bool(a0.meta.get('pushed'))
                rep.ob('R14.6', '%s:main:linker-gets-collected-inputs' % U, ok, 'run_linker is not given the list the loop collected objects into', where='%s:%d' % (U, e[3]))
        # objects collected for linking are linked
        if out[0] == 'ret':
            collected = [e for e in evs if e[1] == 'strarray_push' and isinstance(e[2][0], Obj) and not _root_global(e[2][0])]
            if collected:
                linked = [e for e in evs if e[1] == 'run_linker' and e[2] and e[2][0] is collected[0][2][0]]
                # a path on which a mode that does not link (-c / -S / -E / -M) is certainly selected asks for no linked output
                nolink = [f for f in NOLINK_FLAGS if _flag_on_path(ctx, f) is True]
                if linked or not nolink:
                    rep.ob('R14.6', '%s:main:%s' % (U, 'collected-objects-are-linked' if linked else 'collected-objects-not-linked'), bool(linked),
                           'main returns 0 with objects collected for linking but without running the linker', where=w, facts={'path': _fmt_path(ctx)})
    if n_asm_tmp == 0:
        rep.undecided('R14.6', '%s:main:no-assemble-of-temporary' % U, 'no path assembles a create_tmpfile name')
    if n_link == 0:
        rep.undecided('R14.6', '%s:main:no-link-path' % U, 'no path reaches run_linker')
    if n_cc1 == 0:
        rep.undecided('R14.6', '%s:main:no-cc1-path' % U, 'no path reaches run_cc1')
    # ---- `-o` with several inputs and -c / -S / -E : rejected before any subprocess
    flags = [n for n in ('opt_c', 'opt_S', 'opt_E') if n in u.globals]
    if len(flags) != 3 or 'input_paths' not in u.globals or 'opt_o' not in u.globals:
        rep.undecided('R14.6', '%s:main:option-globals' % U, 'option globals opt_c/opt_S/opt_E/opt_o/input_paths not all found')
        return
    for flag in flags:
        for ninputs, want_reject in ((2, True), (1, False)):
            over = {'opt_cc1': 0, 'opt_o': 'out', flag: 1, 'input_paths': inputs(ninputs, ['in%d.c' % i for i in range(ninputs)])}
            try:
                it = L.make_interp(P, u, opaque=[f for f in opaque if f not in ('get_file_type', 'endswith')],
                                   extra_models=models, globals_=lazy_globals(over), loop_limit=2)
                ps = it.explore('main', lambda ctx: [Sym('argc', 'int'), Sym('argv', 'char **')], max_paths=20000)
            except AnalysisBroken as e:
                rep.undecided('R14.6', '%s:main:multi-input-%s:interpretation' % (U, flag), str(e))
                break
            started = 0
            for ctx, out in ps:
                evs = [e for e in L.calls_of(ctx) if e[1] in SUBPROC or e[1] == 'create_tmpfile']
                if evs:
                    started += 1
                if want_reject:
                    ok = not evs and out[0] == 'noreturn' and _nonzero_exit(out)
                    rep.ob('R14.6', '%s:main:%s' % (U, ('o-with-several-inputs-and-%s-rejected' if ok else 'o-with-several-inputs-and-%s-accepted') % flag[4:]), ok,
                           'with `-o out`, two inputs and -%s the driver %s instead of rejecting the command line before any subprocess: every input is written to the same output, the last one wins silently'
                           % (flag[4:], 'starts ' + ', '.join(e[1] for e in evs[:3]) if evs else 'ends with %r' % (out[:2],)), where=w, facts={'path': _fmt_path(ctx)})
            if not want_reject:
                rep.ob('R14.6', '%s:main:o-with-one-input-and-%s-accepted' % (U, flag[4:]), started > 0,
                       'with `-o out`, ONE input and -%s no path starts a subprocess: the legitimate command is rejected' % flag[4:], where=w)


# ================================================================= R14.11 ===
# "outputs other than the requested ones do not exist": a mode that ends the pipeline early never starts a later stage,
# whatever else is on the command line.  Decided symbolically: main is explored with ONE mode flag set and every other
# option, the option lists and the kind of the input (C / assembler / object / archive / -l / -Wl, operand: an unknown
# string, classified by the code itself) left open; no path may reach a stage the mode excludes.  The command
# lines of R14.8 decide the same for a fixed list of concrete argument vectors through the real parser; this rule does
# not depend on which operand or which combination of flags makes the stage start.
STAGES_EXCLUDED = (('opt_E', ('run_linker',)), ('opt_M', ('run_linker',)), ('opt_S', ('assemble', 'run_linker')), ('opt_c', ('run_linker',)))


def r1411(P, u, rep, cg, facts):
    rep.rule('R14.11', 'a mode that ends the pipeline early never starts a later stage: with -E, -M, -S or -c set (every other option, the number and the kind of the inputs open) '
                       'no path of main reaches the linker, with -S none reaches the assembler', floor=5)
    if 'input_paths' not in u.globals or 'opt_cc1' not in u.globals or any(f not in u.functions for f in SUBPROC):
        rep.undecided('R14.11', '%s:main:anchors' % U, 'globals input_paths / opt_cc1 or the stage functions %s not all found' % '/'.join(SUBPROC))
        return
    tmp_fns = sorted(facts.get('tmp_fns', ()))

    def m_tmp(it, ctx, n, args):
        v = Sym(ctx.fresh('tmp'), 'char *')
        ctx.emit('call', 'create_tmpfile', args, n.line, v)
        return v
    models = {'strarray_push': _m_strarray_push}
    for t in tmp_fns:
        models[t] = m_tmp
    # helpers of main.c that answer a question (scalar result: kind of an input, "is this a link?") or group statements
    # (void) are interpreted, so that a test moved into a helper is still the test; the stage functions, the temp creator,
    # the option parser and the name builders (pointer result) are calls whose result is open
    all_opaque = [f for f in u.functions if f != 'main']

    keep = _driver_cut(u, facts)
    helpers = [f for f in all_opaque if f not in keep and '*' not in _ret_type(u, f)]
    answer = set(f for f in helpers if _ret_type(u, f) != 'void')

    def explore(over, k, opaque):
        glob = _lazy_record_globals(u, dict(over, opt_cc1=0, input_paths=(lambda ctx: Obj('StringArray', lazy=False, label='g:input_paths',
                                    fields={'data': Arr([Sym('input%d' % i, 'char *') for i in range(k)] + [0]), 'len': k, 'capacity': 8}))))
        it = L.make_interp(P, u, opaque=opaque, extra_models=models, globals_=glob, loop_limit=1)
        return it.explore('main', lambda ctx: [Sym('argc', 'int'), Sym('argv', 'char **')], max_paths=20000)

    def explore_any(over):
        """-> (paths, helpers_interpreted?)"""
        try:
            return explore(over, 1, [f for f in all_opaque if f not in helpers]), True
        except AnalysisBroken:
            return explore(over, 1, all_opaque) + explore(over, 2, all_opaque), False
    w = _where(u.fn('main'))
    flags = [f for f, _ in STAGES_EXCLUDED]
    # liveness of the observation: in link mode (no mode flag set) the stages are reached
    try:
        base, _ = explore_any(dict((f, 0) for f in flags if f in u.globals))
    except AnalysisBroken as e:
        rep.undecided('R14.11', '%s:main:link-mode:interpretation' % U, str(e))
        return
    seen = set(e[1] for ctx, out in base for e in L.calls_of(ctx, SUBPROC))
    if not set(SUBPROC) <= seen:
        rep.undecided('R14.11', '%s:main:link-mode:stages' % U, 'with no mode flag set main reaches only %s of the stages %s: stage calls are not observable'
                      % (', '.join(sorted(seen)) or 'none', '/'.join(SUBPROC)))
        return
    for flag, excluded in STAGES_EXCLUDED:
        if flag not in u.globals:
            rep.undecided('R14.11', '%s:main:%s' % (U, flag), 'mode flag %s not found' % flag)
            continue
        try:
            paths, precise = explore_any({flag: 1})
        except AnalysisBroken as e:
            rep.undecided('R14.11', '%s:main:%s:interpretation' % (U, flag), str(e))
            continue
        if not any(L.calls_of(ctx, 'run_cc1') for ctx, out in paths if out[0] == 'ret'):
            rep.undecided('R14.11', '%s:main:%s:no-cc1-path' % (U, flag), 'with %s set no returning path of main runs cc1: the mode anchor moved' % flag)
            continue
        for stage in excluded:
            bad = unsure = None
            for ctx, out in paths:
                ev = L.calls_of(ctx, stage)
                if not ev:
                    continue
                if not precise and L.calls_of(ctx, answer):
                    unsure = unsure or (ctx, ev[0])      # the path rests on the open answer of a helper that could not be interpreted
                    continue
                bad = (ctx, ev[0])
                break
            opt = '-' + flag[4:]
            what = 'linker' if stage == 'run_linker' else ('assembler' if stage == 'assemble' else stage)
            if bad is None and unsure is not None:
                rep.undecided('R14.11', '%s:main:%s-%s' % (U, flag, stage), 'with %s set a path of main reaches %s(), but only for some answer of %s, which could not be interpreted'
                              % (opt, stage, '/'.join(sorted(set(e[1] for e in L.calls_of(unsure[0], answer))))), where='%s:%d' % (U, unsure[1][3]))
                continue
            rep.ob('R14.11', '%s:main:%s-%s' % (U, flag, ('never-starts-%s' if bad is None else 'starts-%s') % stage), bad is None,
                   'with %s on the command line a path of main calls %s(): the %s runs although the requested pipeline ends before it - the driver fails in a step nobody asked for '
                   '(ld: undefined reference to main) or leaves an output (a.out, an object written over the .s file) that the command line does not request'
                   % (opt, stage, what), where='%s:%d' % (U, bad[1][3]) if bad else w, facts={'path': _fmt_path(bad[0], 14)} if bad else None)


# ================================================================= R14.10 ===
# process isolation of the front end: tokenizer, preprocessor, parser and code generator can end in a crash (stack
# overflow on deeply nested input, assertion, out of memory) as well as in a diagnostic.  The driver survives that -
# reaps the child, exits through exit(), unlinks its temporaries - only because the front end never runs in the
# process that owns the temporaries.  Decided: which functions main calls in the driver role (opt_cc1 == 0, every
# other option open) and in the cc1 role; nothing called in the driver role reaches the front end over the call graph.
FRONT_PHASES = ('tokenize_file', 'preprocess', 'parse', 'codegen')


def r1410(P, u, rep, cg, facts):
    rep.rule('R14.10', 'the compiler front end (cc1 and the phases tokenize_file / preprocess / parse / codegen) runs only in a process started in the cc1 role: '
                       'no function main calls in the driver role reaches it, and the cc1 role creates no temporaries and starts no stage', floor=4)
    paths = facts.get('driver_paths')
    explore = facts.get('main_explorer')
    if not paths or explore is None:
        rep.undecided('R14.10', '%s:main:driver-paths' % U, 'the driver-role paths of main could not be explored (R14.6)')
        return
    front = set(f for f in FRONT_PHASES if f in cg.defs)
    if len(front) < 2:
        rep.undecided('R14.10', '%s:cc1:phases' % U, 'the front-end phases %s are not defined any more (found: %s)' % ('/'.join(FRONT_PHASES), ', '.join(sorted(front)) or 'none'))
        return
    absent = [f for f in front if f not in cg.reach('cc1')]
    if len(absent) == len(front):
        rep.undecided('R14.10', '%s:cc1:phases' % U, 'cc1 reaches none of the front-end phases %s: the front-end anchor moved' % '/'.join(sorted(front)))
        return
    front.add('cc1')
    w = _where(u.fn('main'))
    try:
        cc1_paths = explore({'opt_cc1': 1})
    except AnalysisBroken as e:
        rep.undecided('R14.10', '%s:main:cc1-role:interpretation' % U, str(e))
        return
    # ---- the cc1 role: runs the front end, owns no temporaries, starts nothing
    tmp_fns = set(facts.get('tmp_fns', ())) | {'create_tmpfile'}
    stage = set(SUBPROC) | set(facts.get('fork_fns', ())) | set(L.LAUNCH_FNS)
    n_front = 0
    for ctx, out in cc1_paths:
        names = [e[1] for e in L.calls_of(ctx)]
        if out[0] == 'ret':
            ran = [n for n in names if n in front or (n in cg.defs and front & cg.reach(n))]
            n_front += bool(ran)
            rep.ob('R14.10', '%s:main:%s' % (U, 'cc1-role-runs-front-end' if ran else 'cc1-role-returns-without-front-end'), bool(ran),
                   'a process started with -cc1 returns from main without running the front end: the driver takes the empty result for a compiled file', where=w, facts={'path': _fmt_path(ctx)})
        bad = sorted(set(n for n in names if n in tmp_fns or n in stage or (n in cg.defs and (tmp_fns | set(L.LAUNCH_FNS)) & cg.reach(n) and n not in front and not front & cg.reach(n))))
        rep.ob('R14.10', '%s:main:%s' % (U, 'cc1-role-starts-no-stage' if not bad else 'cc1-role-calls-%s' % '+'.join(bad)), not bad,
               'a process in the cc1 role calls %s: the child creates temporaries or starts pipeline stages of its own' % ', '.join(bad), where=w, facts={'path': _fmt_path(ctx)})
    if n_front == 0:
        rep.undecided('R14.10', '%s:main:no-cc1-role-path' % U, 'no returning path of main with opt_cc1 set runs the front end: the role anchor (opt_cc1) moved')
        return
    # ---- the driver role: what main calls, and what those functions reach
    called = {}
    for ctx, out in paths:
        for e in L.calls_of(ctx):
            called.setdefault(e[1], e[3])
    for f in sorted(called):
        if f in front:
            rep.ob('R14.10', '%s:main:runs-%s-in-driver-process' % (U, f), False,
                   'main calls %s() on a path on which opt_cc1 is not set: the front end runs inside the driver process, so a crash of the front end (stack overflow on deeply nested input, '
                   'assertion, out-of-memory kill) kills the driver itself - atexit handlers do not run and the temporaries it has created stay behind' % f, where='%s:%d' % (U, called[f]))
            continue
        if f not in cg.defs:
            continue
        fu = cg.defs[f][0][0].name
        hit = sorted(front & cg.reach(f))
        if not hit:
            rep.ob('R14.10', '%s:%s:driver-side-stays-out-of-front-end' % (fu, f), True, '', where='%s:%d' % (U, called[f]))
            continue
        for h in hit:
            p = cg.path(f, h) or [f, h]
            g = p[-2]
            if h != 'cc1' and 'cc1' in p:
                continue        # reported once, for cc1
            gu = cg.defs[g][0][0].name if g in cg.defs else fu
            site = [c for (cu_, caller, c) in cg.sites.get(h, ()) if caller == g]
            rep.ob('R14.10', '%s:%s:runs-%s-in-driver-process' % (gu, g, h), False,
                   '%s() calls %s(), and main calls %s on paths on which opt_cc1 is not set (%s): the front end runs inside the driver process instead of a `-cc1` child, so a crash of the front end '
                   '(stack overflow on deeply nested input, assertion, out-of-memory kill) kills the driver itself - atexit handlers do not run and the temporaries it has created stay behind; '
                   'with the child process the driver reaps the crash, exits through exit(1) and cleans up'
                   % (g, h, f, ' -> '.join(['main'] + p)), where=_where(site[0], gu) if site else '%s:%d' % (U, called[f]))


# ================================================================== R14.7 ===
def r147(P, rep, cg):
    rep.rule('R14.7', 'every diagnostic function ends the process through exit with a non-zero constant on every path (so a failing cc1 is seen by the driver and handlers run)', floor=3)
    for fn in L.ERROR_FNS:
        defs = cg.defs.get(fn)
        if not defs:
            rep.undecided('R14.7', 'tokenize.c:%s:vanished' % fn, 'diagnostic function %s is not defined' % fn)
            continue
        cu, fd = defs[0]
        try:
            it = L.make_interp(P, cu, opaque=['verror_at', 'display_width'], loop_limit=1,
                               noreturn_extra=())
            it.noreturn -= set(L.ERROR_FNS)
            paths = it.explore(fn, lambda ctx: [])
        except AnalysisBroken as e:
            rep.undecided('R14.7', '%s:%s:interpretation' % (cu.name, fn), str(e))
            continue
        if not paths:
            rep.undecided('R14.7', '%s:%s:no-path' % (cu.name, fn), 'no path explored')
        for ctx, out in paths:
            if out[0] == 'ret':
                rep.ob('R14.7', '%s:%s:returns' % (cu.name, fn), False,
                       '%s can return to its caller: compilation continues after a fatal diagnostic (and the cc1 process can exit 0)' % fn, where=_where(fd, cu.name), facts={'path': _fmt_path(ctx)})
            elif out[1] == 'exit':
                ok = _nonzero_exit(out)
                rep.ob('R14.7', '%s:%s:%s' % (cu.name, fn, 'exits-nonzero' if ok else 'exits-zero'), ok,
                       '%s ends the process with exit(%r): the driver takes the failed subprocess for a success' % (fn, out[2][:1]), where='%s:%d' % (cu.name, out[3]))
            else:
                rep.ob('R14.7', '%s:%s:ends-through-%s' % (cu.name, fn, out[1]), False,
                       '%s ends the process through %s instead of exit(non-zero): atexit handlers (temp-file cleanup) do not run' % (fn, out[1]), where='%s:%d' % (cu.name, out[3]))


# ================================================================== R14.8 ===
# "on success exactly the requested outputs exist": the driver state after option parsing is fixed to a
# concrete command line (option globals; every other static is zero, as C initialises it), file-name helpers
# of main.c are interpreted over concrete strings (lib_c14 string model), and the file names handed to the
# pipeline stages / opened for writing are compared with the names the command line asks for.  Nothing is
# said about HOW main computes them: only stage calls and opens are observed.
_C1, _C2, _A1 = 'sub.d/net.v4.c', 'net.v6.c', 'lib.x/start.v1.s'     # two dots, a dotted directory, equal prefix up to the first dot
_OUT = 'bld.d/out.v2.bin'


def _stem(path):
    b = path.rstrip('/').rsplit('/', 1)[-1]
    return b[:b.rfind('.')] if '.' in b else b


def _beside(path, suffix):
    """path with the last suffix of its base name replaced (appended when the base name has none), directory part kept"""
    d, sep, b = path.rpartition('/')
    return d + sep + (b[:b.rfind('.')] if '.' in b else b) + suffix


# shapes of a path: a dot in the directory part but none in the base name, `.` / `..` components, absolute, no directory
_O_SHAPES = [('dotdir-plain', 'bld.x86/prog'), ('parent-plain', '../bin/tool'), ('cwd-plain', './prog'), ('dotdirs-plain', 'a.b/c.d/out'),
             ('abs-dotdir-plain', '/abs.d/out'), ('plain', 'prog'), ('parent-suffix', '../bin.v1/tool.o')]
_IN_SHAPES = [('dotdir-plain', 'sub.d/plain'), ('parent', '../src.d/unit.v1.c'), ('cwd', './unit.c'), ('plain', 'unit')]


def _zero_statics(u, over):
    """file-scope variables without initialiser are zero (records: all-zero objects); `over` = the command line"""
    glob = {}
    for name, g in u.globals.items():
        if 'init' in g.d or name in over:
            continue
        t = (g.dtype or g.type or '').replace('struct ', '').strip()
        if t.endswith(']'):
            continue
        if t in u.records:
            glob[name] = (lambda nm, tt: (lambda ctx: Obj(tt, lazy=False, label='g:' + nm)))(name, t)
        else:
            glob[name] = 0
    glob.update(over)
    return glob


def _pure_string_fns(u, cg):
    """functions of main.c that (transitively) call nothing but each other, modelled string functions and diagnostics"""
    ok_ext = set(L.STRING_FNS) | set(L.ERROR_FNS) | {'strerror', '__errno_location'}

    def pure(f, seen):
        if f in ok_ext:
            return True
        if f not in u.functions:
            return False
        if f in seen:
            return True
        seen.add(f)
        return all(pure(g, seen) for g in cg.edges.get(f, ()))
    return set(f for f in u.functions if pure(f, set()))


def _name_of(v):
    """concrete file name denoted by v, else None"""
    return L.cstr(v)


def _strlist(names):
    return lambda ctx: Obj('StringArray', lazy=False, label='g:input_paths',
                           fields={'data': Arr([L.cbuf(x, 'argv') for x in names] + [0]), 'len': len(names), 'capacity': 8})


def r148(P, u, rep, cg, facts):
    rep.rule('R14.8', 'for a concrete command line (mode -E/-M/-S/-c/link, with and without -o, inputs whose base names contain several dots) every path of the driver '
                      'that ends in success writes exactly the requested files: finals are named `-o` or <input base name with its LAST suffix replaced> in the current directory '
                      '(a.out for a link), every file passed from one stage to the next is a create_tmpfile name of its own, stages read only command-line inputs or such temporaries; '
                      'a cc1 process opens for writing exactly its output and the requested dependency file', floor=12)
    need = ('opt_cc1', 'opt_o', 'opt_E', 'opt_M', 'opt_S', 'opt_c', 'input_paths')
    if any(g not in u.globals for g in need):
        rep.undecided('R14.8', '%s:main:option-globals' % U, 'option globals %s not all found' % '/'.join(need))
        return
    gone = [f for f in SUBPROC if f not in u.functions]
    if gone:
        rep.undecided('R14.8', '%s:main:stage-functions' % U, 'pipeline stage function(s) %s vanished: stage calls cannot be observed' % ', '.join(gone))
        _r148_cc1(P, u, rep, cg)
        return
    tmp_fns = sorted(facts.get('tmp_fns', ()))
    pure = _pure_string_fns(u, cg)

    def m_tmp(it, ctx, n, args):
        s = Obj(None, lazy=False, label=ctx.fresh('tmp'))      # a non-null pointer with an identity and no concrete name
        ctx.emit('call', 'create_tmpfile', args, n.line, s)
        return s
    models = dict(L.string_models())
    models['strarray_push'] = _m_strarray_push
    for t in tmp_fns:
        models[t] = m_tmp
    # (everything is concrete here: helpers main was split into are interpreted, only the cut functions stay calls)
    opaque = [f for f in u.functions if f in _driver_cut(u, facts)]
    w = _where(u.fn('main'))
    scenarios = [
        ('E', 'E', 0, [_C1, _C2], []),
        ('M', 'M', 0, [_C1], []),
        ('S', 'S', 0, [_C1, _C2], [_stem(_C1) + '.s', _stem(_C2) + '.s']),
        ('S+o', 'S', _OUT, [_C1], [_OUT]),
        ('c', 'c', 0, [_C1, _C2, _A1], [_stem(_C1) + '.o', _stem(_C2) + '.o', _stem(_A1) + '.o']),
        ('c+o', 'c', _OUT, [_C1], [_OUT]),
        ('c+o-asm', 'c', _OUT, [_A1], [_OUT]),
        ('link', '', 0, [_C1, _C2], ['a.out']),
        ('link+o', '', _OUT, [_C1, _C2], [_OUT]),
        ('link-asm', '', 0, [_C1, _A1], ['a.out']),
        # linker operands (-l..., -Wl,...) take part in a link only: in every mode that ends earlier nothing is started for them
        ('E-lib', 'E', 0, [_C1, '-lm'], []),
        ('M-lib', 'M', 0, [_C1, '-lm', '-Wl,-z,now'], []),
        ('S-lib', 'S', 0, ['-lm', _C1], [_stem(_C1) + '.s']),
        ('c-lib', 'c', 0, [_C1, '-Wl,--as-needed', '-lm'], [_stem(_C1) + '.o']),
        ('link-lib', '', 0, [_C1, '-lm', '-Wl,-z,now'], ['a.out']),
    ]
    for sc, mode, o, ins, expect in scenarios:
        over = {'opt_cc1': 0, 'opt_o': o, 'input_paths': _strlist(ins)}
        if mode:
            over['opt_' + mode] = 1
        key0 = '%s:main:%s' % (U, sc)
        try:
            it = L.make_interp(P, u, opaque=opaque, extra_models=models, globals_=_zero_statics(u, over), loop_limit=2)
            ps = it.explore('main', lambda ctx: [Sym('argc', 'int'), Sym('argv', 'char **')], max_paths=2000)
        except AnalysisBroken as e:
            rep.undecided('R14.8', key0 + ':interpretation', str(e))
            continue
        nret = 0
        for ctx, out in ps:
            if out[0] != 'ret':
                if out[1] != '__assert_fail':
                    rep.undecided('R14.8', key0 + ':ends-in-%s' % out[1], 'the command line of scenario %s (inputs %s) ends in %s%r on some path: rejected legitimate command line or state the model left open'
                                  % (sc, ins, out[1], tuple(a for a in out[2][:2] if isinstance(a, str))), where='%s:%d' % (U, out[3]))
                continue
            nret += 1
            if ctx.decisions:
                # the command line fixes the whole driver state: a path that depends on a choice the interpreter had to
                # make (an unmodelled helper, state from outside main.c) does not belong to this command line for sure
                rep.undecided('R14.8', key0 + ':state-not-concrete', 'scenario %s: the path through main depends on values the model leaves open (%s)' % (sc, ' / '.join(_fmt_path(ctx, 3))), where=w)
                continue
            _check_pipeline_names(rep, key0, sc, ctx, ins, expect, w)
        if nret == 0:
            rep.undecided('R14.8', key0 + ':no-success-path', 'no path of main returns for scenario %s' % sc)
    _r148_cmdlines(P, u, rep, cg, pure, models, facts)
    _r148_handover(P, u, rep, cg, facts, pure)
    _r148_cc1(P, u, rep, cg)


# Concrete command lines through the REAL option parser: the scenarios above fix the state after option parsing by
# hand (and so say nothing about how parse_args combines options); here argv is concrete, parse_args is interpreted
# with main, and the language of an input comes from -x / the suffix as the parser and get_file_type decide it.
# Expected (cc convention): -E / -M write no file from the driver and start nothing but cc1; an assembler input is
# never compiled, a C input always is; -S of an assembler input and -c/-S/-E/-M of an object do nothing.
_O1 = 'obj.d/unit.v3.o'
_CMDLINES = [
    # label, options, inputs, files expected from the driver, stages expected (None: not checked)
    ('E-asm-suffix', ['-E'], [_A1], [], ['cc1']),
    ('E-x-asm', ['-E', '-x', 'assembler'], [_A1], [], ['cc1']),
    ('E-xasm-joined', ['-E', '-xassembler'], [_C1], [], ['cc1']),
    ('x-asm-then-E', ['-x', 'assembler', '-E'], [_A1], [], ['cc1']),
    ('E-xc', ['-E', '-xc'], [_A1], [], ['cc1']),
    ('E+o-x-asm', ['-E', '-o', _OUT, '-x', 'assembler'], [_A1], [], ['cc1']),
    ('M-c', ['-M'], [_C1], [], ['cc1']),
    ('E+c', ['-E', '-c'], [_C1], [], ['cc1']),                  # the earlier phase wins: -E/-M over -S over -c
    ('E+S', ['-S', '-E'], [_C1], [], ['cc1']),
    ('M+c', ['-M', '-c'], [_C1], [], ['cc1']),
    ('M+S+o', ['-M', '-S', '-o', _OUT], [_C1], [], ['cc1']),
    ('S+c', ['-c', '-S'], [_C1, _A1], [_stem(_C1) + '.s'], ['cc1']),
    ('E-mixed', ['-E'], [_C1, _A1], [], ['cc1', 'cc1']),
    ('M-asm-suffix', ['-M'], [_A1], [], (['cc1'], [])),         # preprocessed like -E, or left alone as other drivers do
    ('M-x-asm', ['-M', '-x', 'assembler'], [_C1], [], (['cc1'], [])),
    ('S-asm-suffix', ['-S'], [_A1], [], []),
    ('S-x-asm', ['-S', '-x', 'assembler'], [_C1], [], []),
    ('S-xc', ['-S', '-xc'], [_A1], [_stem(_A1) + '.s'], ['cc1']),
    ('S+o-joined', ['-S', '-o' + _OUT], [_C1], [_OUT], ['cc1']),
    ('c-x-asm', ['-c', '-x', 'assembler'], [_C1], [_stem(_C1) + '.o'], ['as']),
    ('c-xc', ['-c', '-x', 'c'], [_A1], [_stem(_A1) + '.o'], ['cc1', 'as']),
    ('c+o-joined', ['-c', '-o' + _OUT], [_C1], [_OUT], ['cc1', 'as']),
    ('link-x-asm', ['-x', 'assembler'], [_C1], ['a.out'], ['as', 'ld']),
    ('link-x-none', ['-x', 'assembler', '-x', 'none'], [_C1, _A1], ['a.out'], ['cc1', 'as', 'as', 'ld']),
    ('link-obj', [], [_C1, _O1], ['a.out'], ['cc1', 'as', 'ld']),
    ('link+o-obj', ['-o', _OUT], [_O1], [_OUT], ['ld']),
    ('link-ar-dso-lib', [], [_C1, 'lib.d/libz.v1.a', 'lib.d/libq.v2.so', '-lm'], ['a.out'], ['cc1', 'as', 'ld']),
    ('c-obj', ['-c'], [_C1, _O1], [_stem(_C1) + '.o'], ['cc1', 'as']),
    ('S-obj', ['-S'], [_C1, _O1], [_stem(_C1) + '.s'], ['cc1']),
    # linker operands in every mode that does not link (make rules pass $(LDLIBS) / $(LDFLAGS) to every compiler call)
    ('E-lib', ['-E'], [_C1, '-lm'], [], ['cc1']),
    ('E-Wl', ['-E'], ['-Wl,--as-needed', _C1], [], ['cc1']),
    ('M-lib', ['-M'], [_C1, '-lm'], [], ['cc1']),
    ('M-Wl', ['-M'], [_C1, '-Wl,-z,now'], [], ['cc1']),
    ('M+MF-shared-lib', ['-M', '-MF', 'deps.v1.mk', '-shared'], [_C1, '-lq.v1'], [], ['cc1']),
    ('M+MT-lib-first', ['-MT', 'tgt.v1', '-M'], ['-lm', _C1], [], ['cc1']),
    ('S-lib', ['-S'], [_C1, '-lm'], [_stem(_C1) + '.s'], ['cc1']),
    ('S-Wl', ['-S'], ['-Wl,-z,now', _C1], [_stem(_C1) + '.s'], ['cc1']),
    ('c-lib', ['-c'], [_C1, '-lm'], [_stem(_C1) + '.o'], ['cc1', 'as']),
    ('c-Wl', ['-c'], [_C1, '-Wl,-z,now,--as-needed'], [_stem(_C1) + '.o'], ['cc1', 'as']),
    ('c+MD-lib', ['-c', '-MD'], [_C1, '-lm'], [_stem(_C1) + '.o'], ['cc1', 'as']),
    ('c-asm-lib', ['-c'], [_A1, '-lm'], [_stem(_A1) + '.o'], ['as']),
    ('c-ar-dso', ['-c'], [_C1, 'lib.d/libz.v1.a', 'lib.d/libq.v2.so'], [_stem(_C1) + '.o'], ['cc1', 'as']),
    ('S-asm-lib', ['-S'], [_A1, '-lm'], [], []),
    ('M-Xlinker', ['-M'], [_C1, '-Xlinker', '--as-needed'], [], ['cc1']),
    ('c-Xlinker', ['-c'], ['-Xlinker', '--as-needed', _C1], [_stem(_C1) + '.o'], ['cc1', 'as']),
    ('link-lib-Wl', [], [_C1, '-lm', '-Wl,-z,now'], ['a.out'], ['cc1', 'as', 'ld']),
    ('link+MD-lib', ['-MD'], [_C1, '-lm'], ['a.out'], ['cc1', 'as', 'ld']),
    # shapes of the paths: dots and `.` / `..` components of a directory part are not suffixes, a base name may have none
    ('c-xc-dotdir-plain', ['-c', '-xc'], ['sub.d/plain'], ['plain.o'], ['cc1', 'as']),
    ('S-parent-dir', ['-S'], ['../src.d/unit.v1.c'], ['unit.v1.s'], ['cc1']),
    ('c-cwd-prefix', ['-c'], ['./unit.c', '../unit2.c'], ['unit.o', 'unit2.o'], ['cc1', 'as', 'cc1', 'as']),
    ('link+o-dotdir-plain', ['-o', 'bld.x86/prog'], [_C1], ['bld.x86/prog'], ['cc1', 'as', 'ld']),
    ('c+MD+o-parent-plain', ['-c', '-MD', '-o', '../bin/tool'], [_C1], ['../bin/tool'], ['cc1', 'as']),
]


def _r148_cmdlines(P, u, rep, cg, pure, models, facts):
    if 'parse_args' not in u.functions:
        rep.undecided('R14.8', '%s:main:cmd:option-parser' % U, 'parse_args vanished: command lines cannot be interpreted')
        return
    models = dict(models)
    models['strarray_push'] = _m_strarray_push_store
    opaque = [f for f in u.functions if f in _driver_cut(u, facts) and f != 'parse_args']
    w = _where(u.fn('main'))
    for label, opts, ins, expect, want_stages in _CMDLINES:
        key0 = '%s:main:cmd-%s' % (U, label)
        words = ['chibicc'] + opts + ins
        shown = ' '.join(words)
        try:
            it = L.make_interp(P, u, opaque=opaque, extra_models=models, globals_=_zero_statics(u, {}), loop_limit=2)
            # (a fresh argument vector per path: the driver may cut operands up in place)
            ps = it.explore('main', lambda ctx: [len(words), _Ref(ElemPlace(Arr([L.cbuf(x, 'argv') for x in words] + [0], label='argv'), 0))], max_paths=500)
        except AnalysisBroken as e:
            rep.undecided('R14.8', key0 + ':interpretation', str(e))
            continue
        nret = 0
        for ctx, out in ps:
            if out[0] != 'ret':
                if out[1] != '__assert_fail':
                    rep.undecided('R14.8', key0 + ':ends-in-%s' % out[1], '`%s` ends in %s%r on some path: rejected legitimate command line or state the model left open'
                                  % (shown, out[1], tuple(a for a in out[2][:2] if isinstance(a, str))), where='%s:%d' % (U, out[3]))
                continue
            nret += 1
            if ctx.decisions:
                rep.undecided('R14.8', key0 + ':state-not-concrete', '`%s`: the path through parse_args and main depends on values the model leaves open (%s)' % (shown, ' / '.join(_fmt_path(ctx, 3))), where=w)
                continue
            got, wrong = _check_pipeline_names(rep, key0, '`%s`' % shown, ctx, ins, expect, w)
            if want_stages is not None and not wrong:       # (with wrong files the stage list adds nothing)
                alts = list(want_stages) if isinstance(want_stages, tuple) else [want_stages]
                ok = got in alts
                rep.ob('R14.8', key0 + (':expected-stages' if ok else ':runs-%s' % ('+'.join(got) or 'no-stage')), ok,
                       '`%s` runs the stages [%s]; the command line asks for [%s]: an input is handled as the wrong kind of file for this mode (compiled instead of assembled or the reverse, '
                       'assembled/linked although only preprocessing was requested, or skipped)' % (shown, ', '.join(got) or 'none', '] or ['.join(', '.join(a) or 'none' for a in alts)), where=w)
        if nret == 0:
            rep.undecided('R14.8', key0 + ':no-success-path', 'no path of main returns for `%s`' % shown)


def _check_pipeline_names(rep, key0, sc, ctx, ins, expect, w):
    evs = [e for e in L.calls_of(ctx) if e[1] in SUBPROC or e[1] == 'create_tmpfile']
    tmps = [e[4] for e in evs if e[1] == 'create_tmpfile']

    def ident(v):
        """comparable identity of a file-name value: ('tmp', k) | ('name', str) | ('null',) | ('other', id)"""
        for k, t in enumerate(tmps):
            if v is t:
                return ('tmp', k)
        s = _name_of(v)
        if s is not None:
            return ('name', s)
        if v is None or (isinstance(v, int) and v == 0):
            return ('null',)
        return ('other', id(v))
    stages = []     # (stage, reads [(role, ident)], writes [(role, ident)], line)
    for e in evs:
        name, args = e[1], e[2]
        if name == 'run_cc1' and len(args) >= 4:
            stages.append(('cc1', [('cc1-input', ident(args[2]))], [('cc1-output', ident(args[3]))], e[3]))
        elif name == 'assemble' and len(args) >= 2:
            stages.append(('as', [('assembler-input', ident(args[0]))], [('assembler-output', ident(args[1]))], e[3]))
        elif name == 'run_linker' and len(args) >= 2:
            a0 = args[0]
            pushed = a0.meta.get('pushed', []) if isinstance(a0, Obj) else None
            if pushed is None:
                rep.undecided('R14.8', key0 + ':linker-input-list', 'run_linker is not given a list object', where='%s:%d' % (U, e[3]))
                pushed = []
            stages.append(('ld', [('linker-input', ident(v)) for v in pushed], [('linker-output', ident(args[1]))], e[3]))
    cmdline = set(ins)
    for x in ins:
        if x.startswith('-Wl,'):        # `-Wl,a,b` hands the words a and b to the linker
            cmdline.update(w_ for w_ in x[4:].split(',') if w_)
    written = {}
    unread = set()
    finals = []
    for i, (st, reads, writes, line) in enumerate(stages):
        wh = '%s:%d' % (U, line)
        seen_reads = [r[1] for r in reads]
        dup = [r for r in set(seen_reads) if seen_reads.count(r) > 1 and r[0] != 'null']
        if dup:
            rep.ob('R14.8', key0 + ':%s-listed-twice' % reads[0][0], False,
                   'scenario %s: one stage is given the same file %d times (%s): the result of another input is missing' % (sc, seen_reads.count(dup[0]), dup[0][1] if dup[0][0] == 'name' else 'a temporary'), where=wh)
        for role, idv in reads:
            unread.discard(idv)
            if idv[0] == 'tmp':
                ok = idv in written
                rep.ob('R14.8', key0 + (':%s-temporary-was-written' % role if ok else ':%s-is-unwritten-temporary' % role), ok,
                       'scenario %s: the %s is a temporary no earlier stage has written' % (sc, role), where=wh)
            elif idv[0] == 'name':
                ok = idv[1] in cmdline
                rep.ob('R14.8', key0 + (':%s-from-command-line' % role if ok else ':%s-is-derived-name' % role), ok,
                       'scenario %s: the %s is %r, which is neither an input named on the command line (%s) nor a create_tmpfile name: a file this invocation does not own is read (another process may be writing it)'
                       % (sc, role, idv[1], ', '.join(ins)), where=wh)
            else:
                rep.undecided('R14.8', key0 + ':%s-not-concrete' % role, 'scenario %s: the %s is not a concrete name' % (sc, role), where=wh)
        for role, idv in writes:
            consumed = any(idv == r[1] for (_, rs, _, _) in stages[i + 1:] for r in rs) and idv[0] != 'null'
            if consumed:
                ok = idv[0] == 'tmp'
                rep.ob('R14.8', key0 + (':%s-passed-on-in-temporary' % role if ok else ':%s-passed-on-in-%s' % (role, 'computed-name' if idv[0] == 'name' else 'unknown-name')), ok,
                       'scenario %s: the %s, which a later stage reads, is %s instead of a create_tmpfile (mkstemp) name: the name is predictable, so concurrent invocations '
                       '(or two inputs with the same base name) overwrite and unlink each other\'s intermediate file'
                       % (sc, role, repr(idv[1]) if idv[0] == 'name' else 'a value the analysis cannot name'), where=wh)
                if ok:
                    fresh = idv not in unread
                    rep.ob('R14.8', key0 + (':temporary-read-before-reuse' if fresh else ':%s-overwrites-unread-temporary' % role), fresh,
                           'scenario %s: the %s overwrites a temporary whose previous content no stage has read yet: the intermediate result of another input is lost' % (sc, role), where=wh)
                    unread.add(idv)
            elif idv[0] == 'null':
                pass            # standard output
            elif idv[0] == 'name':
                finals.append((idv[1], role, wh))
            elif idv[0] == 'tmp':
                rep.ob('R14.8', key0 + ':%s-left-in-temporary' % role, False,
                       'scenario %s: the %s goes to a temporary that no later stage reads: the requested output is never produced' % (sc, role), where=wh)
            else:
                rep.undecided('R14.8', key0 + ':%s-not-concrete' % role, 'scenario %s: the %s is not a concrete name' % (sc, role), where=wh)
            written[idv] = True
    names = [f[0] for f in finals]
    for nm, role, wh in finals:
        if nm not in expect:
            rep.ob('R14.8', key0 + ':unrequested-output-%s' % nm, False,
                   'scenario %s (inputs %s): the %s is written to %r, which the command line does not ask for (requested: %s)' % (sc, ', '.join(ins), role, nm, ', '.join(expect) or 'standard output only'), where=wh)
        if names.count(nm) > 1:
            rep.ob('R14.8', key0 + ':output-%s-written-for-several-inputs' % nm, False,
                   'scenario %s (inputs %s): %r is written by %d stage runs: the output of one input silently overwrites that of another' % (sc, ', '.join(ins), nm, names.count(nm)), where=wh)
    for nm in expect:
        ok = nm in names
        rep.ob('R14.8', key0 + (':requested-outputs-written' if ok else ':requested-output-%s-missing' % nm), ok,
               'scenario %s (inputs %s): the driver returns success without any stage writing the requested output %r (written instead: %s)' % (sc, ', '.join(ins), nm, ', '.join(names) or 'nothing'), where=w)
    if not expect and not names:        # (every file written in a standard-output mode is reported above as unrequested)
        rep.ob('R14.8', key0 + ':no-file-output', True, '', where=w)
    return [st[0] for st in stages], [nm for nm in names if nm not in expect] + [nm for nm in expect if nm not in names]


def _r148_cc1(P, u, rep, cg):
    need = ('base_file', 'output_file', 'opt_o', 'opt_E', 'opt_M', 'opt_MD', 'opt_MF')
    if any(g not in u.globals for g in need):
        rep.undecided('R14.8', '%s:cc1:option-globals' % U, 'globals %s not all found' % '/'.join(need))
        return
    terminators = set(L.HARD_EXIT) | set(L.SOFT_EXIT) | set(L.ERROR_FNS) | {'__assert_fail'}
    file_fns = {'fopen', 'fopen64'} | set(PATH_CREATE) | set(TMP_CREATE)
    creators = cg.reaches(file_fns)
    pure = _pure_string_fns(u, cg)
    opaque = [f for f in u.functions if f not in creators and f not in pure and f != 'cc1']
    src, asm = 'sub.d/net.v4.c', 'tmp.d/cc1out.v3.s'
    scenarios = [
        ('compile', {}, [asm]),
        ('E', {'opt_E': 1}, []),
        ('E+o', {'opt_E': 1, 'opt_o': _OUT}, [_OUT]),
        ('M', {'opt_M': 1}, []),
        ('M+o', {'opt_M': 1, 'opt_o': _OUT}, [_OUT]),
        ('M+MF', {'opt_M': 1, 'opt_MF': 'deps.v1.mk'}, ['deps.v1.mk']),
        ('MD', {'opt_MD': 1}, [asm, _stem(src) + '.d']),
        ('MD+o', {'opt_MD': 1, 'opt_o': 'out.v2.o'}, [asm, 'out.v2.d']),
        ('MD+MF', {'opt_MD': 1, 'opt_MF': 'deps.v1.mk'}, [asm, 'deps.v1.mk']),
        # the dependency file named after `-o` lies beside that output (only the last suffix is replaced, the directory stays)
        ('MD+o-dir', {'opt_MD': 1, 'opt_o': 'obj.d/out.v2.o'}, [asm, 'obj.d/out.v2.d']),
    ]
    # ... for every shape a path can have: the suffix that is replaced is the last suffix of the BASE NAME (none: the new one is
    # appended), dots and `.` / `..` components of the directory part are not suffixes; the input-derived name drops the directory
    for tag, o in _O_SHAPES:
        scenarios.append(('MD+o-' + tag, {'opt_MD': 1, 'opt_o': o}, [asm, _beside(o, '.d')]))
    for tag, i in _IN_SHAPES:
        scenarios.append(('MD-in-' + tag, {'opt_MD': 1, 'base_file': i}, [asm, _stem(i) + '.d']))
    w = _where(u.fn('cc1'))
    for sc, opts, expect in scenarios:
        key0 = '%s:cc1:%s' % (U, sc)
        over = {'base_file': src, 'output_file': asm}
        over.update(opts)
        try:
            it = L.make_interp(P, u, opaque=opaque, extra_models=L.string_models(), globals_=_zero_statics(u, over), loop_limit=1)
            L.slice_loops(it, u, creators | terminators | file_fns)
            ps = it.explore('cc1', lambda ctx: [], max_paths=5000)
        except AnalysisBroken as e:
            rep.undecided('R14.8', key0 + ':interpretation', str(e))
            continue
        nret = 0
        for ctx, out in ps:
            if out[0] != 'ret':
                continue            # a diagnostic: R14.5 decides what may exist then
            nret += 1
            names = []
            for e in L.calls_of(ctx):
                name, args = e[1], e[2]
                if not (name in ('fopen', 'fopen64') or name in PATH_CREATE):
                    continue
                mode = args[1] if len(args) > 1 else None
                if name.startswith('fopen') and isinstance(mode, str) and not (mode[:1] in ('w', 'a') or '+' in mode):
                    continue
                nm = _name_of(args[0]) if args else None
                if nm is None:
                    rep.undecided('R14.8', key0 + ':opened-name-not-concrete', 'scenario cc1/%s: a file whose name is not concrete (%r) is opened for writing' % (sc, args[:1]), where='%s:%d' % (U, e[3]))
                    continue
                names.append(nm)
                if nm not in expect:
                    rep.ob('R14.8', key0 + ':unrequested-file-%s' % nm, False,
                           'scenario cc1/%s (input %s, output %s, options %s): the file %r is created, which the command line does not ask for (requested: %s)'
                           % (sc, src, asm, opts or '{}', nm, ', '.join(expect) or 'standard output only'), where='%s:%d' % (U, e[3]), facts={'path': _fmt_path(ctx)})
            for nm in expect:
                ok = nm in names
                rep.ob('R14.8', key0 + (':requested-files-written' if ok else ':requested-file-%s-missing' % nm), ok,
                       'scenario cc1/%s (input %s, output %s, options %s): cc1 returns without creating the requested file %r (created: %s)' % (sc, src, asm, opts or '{}', nm, ', '.join(names) or 'nothing'),
                       where=w, facts={'path': _fmt_path(ctx)})
            if not expect:
                rep.ob('R14.8', key0 + (':no-file-output' if not names else ':files-written-in-stdout-mode'), not names,
                       'scenario cc1/%s creates files (%s) although only standard output is requested' % (sc, ', '.join(names)), where=w)
        if nret == 0:
            rep.undecided('R14.8', key0 + ':no-success-path', 'no path of cc1 returns for scenario %s' % sc)
    # ---- the same through the real option parser: the argument vector of a cc1 child as run_cc1 builds it
    # (the user's command line followed by -cc1 -cc1-input <input> [-cc1-output <file>]), main interpreted from the start
    if 'parse_args' not in u.functions:
        rep.undecided('R14.8', '%s:cc1:cmd:option-parser' % U, 'parse_args vanished: command lines cannot be interpreted')
        return
    models = dict(L.string_models())
    models['strarray_push'] = _m_strarray_push_store
    opaque2 = [f for f in opaque if f not in ('main', 'parse_args')]
    wm = _where(u.fn('main'))
    for label, opts, inp, outp, expect in _CC1_CMDLINES:
        key0 = '%s:cc1:cmd-%s' % (U, label)
        words = ['chibicc'] + opts + [inp, '-cc1', '-cc1-input', inp] + (['-cc1-output', outp] if outp else [])
        shown = ' '.join(words)
        argv = Arr([L.cbuf(x, 'argv') for x in words] + [0], label='argv')
        try:
            it = L.make_interp(P, u, opaque=opaque2, extra_models=models, globals_=_zero_statics(u, {}), loop_limit=1)
            L.slice_loops(it, u, creators | terminators | file_fns)
            ps = it.explore('main', lambda ctx: [len(words), _Ref(ElemPlace(argv, 0))], max_paths=5000)
        except AnalysisBroken as e:
            rep.undecided('R14.8', key0 + ':interpretation', str(e))
            continue
        nret = 0
        for ctx, out in ps:
            if out[0] != 'ret':
                continue
            nret += 1
            evs = L.calls_of(ctx)
            stage = sorted(set(e[1] for e in evs if e[1] in SUBPROC or e[1] in L.LAUNCH_FNS or e[1] in TMP_CREATE))
            rep.ob('R14.8', key0 + (':stays-in-cc1-role' if not stage else ':cc1-process-calls-%s' % '+'.join(stage)), not stage,
                   '`%s`: the process started in the cc1 role calls %s' % (shown, ', '.join(stage)), where=wm)
            names = []
            for e in evs:
                name, args = e[1], e[2]
                if not (name in ('fopen', 'fopen64') or name in PATH_CREATE):
                    continue
                mode = args[1] if len(args) > 1 else None
                if name.startswith('fopen') and isinstance(mode, str) and not (mode[:1] in ('w', 'a') or '+' in mode):
                    continue
                nm = _name_of(args[0]) if args else None
                if nm is None:
                    rep.undecided('R14.8', key0 + ':opened-name-not-concrete', '`%s`: a file whose name is not concrete (%r) is opened for writing' % (shown, args[:1]), where='%s:%d' % (U, e[3]))
                    continue
                names.append(nm)
                if nm not in expect:
                    rep.ob('R14.8', key0 + ':unrequested-file-%s' % nm, False,
                           '`%s`: the file %r is created, which the command line does not ask for (requested: %s)' % (shown, nm, ', '.join(expect) or 'standard output only'),
                           where='%s:%d' % (U, e[3]), facts={'path': _fmt_path(ctx)})
            for nm in expect:
                ok = nm in names
                rep.ob('R14.8', key0 + (':requested-files-written' if ok else ':requested-file-%s-missing' % nm), ok,
                       '`%s`: the cc1 process returns without creating the requested file %r (created: %s)' % (shown, nm, ', '.join(names) or 'nothing'), where=w, facts={'path': _fmt_path(ctx)})
            if not expect:
                rep.ob('R14.8', key0 + (':no-file-output' if not names else ':files-written-in-stdout-mode'), not names,
                       '`%s` creates files (%s) although only standard output is requested' % (shown, ', '.join(names)), where=w)
        if nret == 0:
            rep.undecided('R14.8', key0 + ':no-success-path', 'no path of main returns for `%s`' % shown)


_ASM_T = 'tmp.d/cc1out.v3.s'
_CC1_CMDLINES = [
    # label, user options, input, -cc1-output operand (None: standard output), files the cc1 process must create
    ('E-x-asm', ['-E', '-x', 'assembler'], _A1, None, []),
    ('E+o', ['-E', '-o', _OUT], _C1, None, [_OUT]),
    ('E+c+o', ['-c', '-E', '-o' + _OUT], _C1, None, [_OUT]),
    ('M+c', ['-M', '-c'], _C1, None, []),
    ('M+MF+o', ['-M', '-MF', 'deps.v1.mk', '-o', _OUT], _C1, None, ['deps.v1.mk']),
    ('c', ['-c'], _C1, _ASM_T, [_ASM_T]),
    ('c-xc', ['-c', '-xc'], _A1, _ASM_T, [_ASM_T]),
    ('S+o', ['-S', '-o', _OUT], _C1, _OUT, [_OUT]),
    ('c+MD', ['-c', '-MD'], _C1, _ASM_T, [_ASM_T, _stem(_C1) + '.d']),
    ('c+MD+o', ['-MD', '-c', '-o', 'out.v2.o'], _C1, _ASM_T, [_ASM_T, 'out.v2.d']),
    ('S+MMD+MF', ['-S', '-MMD', '-MF', 'deps.v1.mk'], _C1, _stem(_C1) + '.s', [_stem(_C1) + '.s', 'deps.v1.mk']),
    ('link+MD+MT', ['-MD', '-MT', 'tgt.v1'], _C1, _ASM_T, [_ASM_T, _stem(_C1) + '.d']),
    ('c+MD+o-dir', ['-MD', '-c', '-o', 'obj.d/out.v2.o'], _C1, _ASM_T, [_ASM_T, 'obj.d/out.v2.d']),
    ('link+MD+o-dotdir-plain', ['-MD', '-o', 'bld.x86/prog'], _C1, _ASM_T, [_ASM_T, 'bld.x86/prog.d']),
    ('c+MMD+o-parent-plain', ['-MMD', '-c', '-o', '../bin/tool'], _C1, _ASM_T, [_ASM_T, '../bin/tool.d']),
    ('link+MD+o-cwd-plain', ['-MD', '-o', './prog'], _C1, _ASM_T, [_ASM_T, './prog.d']),
    ('c+MD-xc-dotdir-plain', ['-MD', '-c', '-xc'], 'sub.d/plain', _ASM_T, [_ASM_T, 'plain.d']),
    ('S+MD-parent-dir', ['-MD', '-S'], '../src.d/unit.v1.c', 'unit.v1.s', ['unit.v1.s', 'unit.v1.d']),
]


# ================================================================= R14.16 ===
# "an invocation does not destroy what it was given": no process of the invocation creates/truncates a file whose name
# is one of the inputs of the command line.  The name of an output can coincide with an input in two ways: the operand of
# `-o` names an input (`-c -o x.c x.c`, `-o main.c main.c`), or the name DERIVED from the input (last suffix replaced) is
# the input itself because -x gave the file another language than its suffix says (`-xc -S unit.s`, `-xc -c unit.o`).
# cc rejects both ("input file 'x' is the same as output file") before anything runs.  Decided for concrete command lines
# through the real option parser, every mode x both ways, over EVERY path (a truncation followed by a diagnostic has
# destroyed the input as well): the files the driver hands to a stage as output, and - composed through the argument
# vector run_cc1 builds (R14.8 handover) - the files every cc1 process opens for writing.
_S1, _OB1 = 'unit.v1.s', 'unit.v1.o'
_SAME_CMDLINES = [
    # label, options, inputs
    ('S-xc-derived', ['-S', '-xc'], [_S1]),                      # <stem>.s of a C input named *.s
    ('c-xc-derived', ['-c', '-xc'], [_OB1]),                     # <stem>.o of a C input named *.o
    ('c-xasm-derived', ['-c', '-x', 'assembler'], [_OB1]),       # ... of an assembler input named *.o
    ('c+o', ['-c', '-o', _C1], [_C1]),
    ('c+o-asm', ['-c', '-o', _A1], [_A1]),
    ('S+o-joined', ['-S', '-o' + _C2], [_C2]),
    ('E+o', ['-E', '-o', _C1], [_C1]),
    ('M+o', ['-M', '-o', _C2], [_C2]),
    ('link+o-second-input', ['-o', _C2], [_C1, _C2]),
    ('link+o-object', ['-o', _O1], [_C1, _O1]),
]


_SAME_CONTROLS = [
    ('S-stdin-to-stdout', ['-S', '-o', '-', '-xc'], ['-']),
    ('E-stdin-to-stdout', ['-E', '-o-', '-xc'], ['-']),
    ('c+o-same-stem', ['-c', '-o', 'net.v6.o'], [_C2]),
    ('S-xc-other-suffix', ['-S', '-xc'], [_OB1]),                # unit.v1.o -> unit.v1.s
]


def _opened_for_writing(ctx):
    """[(name value, line)] of the files a path creates / opens for writing"""
    res = []
    for e in L.calls_of(ctx):
        name, args = e[1], e[2]
        if not (name in ('fopen', 'fopen64') or name in PATH_CREATE):
            continue
        mode = args[1] if len(args) > 1 else None
        if name.startswith('fopen') and isinstance(mode, str) and not (mode[:1] in ('w', 'a') or '+' in mode):
            continue
        if name in ('open', 'open64', 'openat') :
            fl = args[2 if name == 'openat' else 1] if len(args) > (2 if name == 'openat' else 1) else None
            if isinstance(fl, int) and not isinstance(fl, bool) and not (fl & (0o1 | 0o2 | 0o100 | 0o1000)):
                continue        # O_RDONLY without O_CREAT / O_TRUNC
        k = 1 if name in ('openat', 'rename', 'link', 'symlink') else 0        # (rename/link/symlink: the second name is the one that is replaced)
        res.append((args[k] if len(args) > k else None, e[3]))
    return res


def r1416(P, u, rep, cg, facts):
    rep.rule('R14.16', 'no process of an invocation creates or truncates a file that is one of the inputs of the command line: when the operand of -o, or the output name derived from an input whose language '
                       'was chosen by -x, is the name of an input, the command line is refused (or the file left alone) on every path - the driver hands no stage that name as its output and no cc1 process '
                       'it starts opens it for writing', floor=len(_SAME_CMDLINES))
    if 'parse_args' not in u.functions or any(f not in u.functions for f in SUBPROC):
        rep.undecided('R14.16', '%s:main:same-file:anchors' % U, 'parse_args or a stage function (%s) vanished: command lines cannot be interpreted' % '/'.join(SUBPROC))
        return
    tmp_fns = sorted(facts.get('tmp_fns', ()))

    def m_tmp(it, ctx, n, args):
        s = Obj(None, lazy=False, label=ctx.fresh('tmp'))
        ctx.emit('call', 'create_tmpfile', args, n.line, s)
        return s
    models = dict(L.string_models())
    models['strarray_push'] = _m_strarray_push_store
    for t in tmp_fns:
        models[t] = m_tmp
    opaque = [f for f in u.functions if f in _driver_cut(u, facts) and f != 'parse_args']
    # the cc1 role (as in R14.8): everything that cannot create a file is a call, loops that create nothing are sliced
    terminators = set(L.HARD_EXIT) | set(L.SOFT_EXIT) | set(L.ERROR_FNS) | {'__assert_fail'}
    file_fns = {'fopen', 'fopen64'} | set(PATH_CREATE) | set(TMP_CREATE)
    creators = cg.reaches(file_fns)
    pure = _pure_string_fns(u, cg)
    opaque_cc1 = [f for f in u.functions if f not in creators and f not in pure and f not in ('cc1', 'main', 'parse_args')]
    models_cc1 = dict(L.string_models())
    models_cc1['strarray_push'] = _m_strarray_push_store
    w = _where(u.fn('main'))
    cc1_cache = {}

    def cc1_writes(words, inp, outp):
        """names (values) a cc1 process started for `words` on input inp / output outp opens for writing, over all paths;
        None: not decidable"""
        k = (tuple(words), inp, outp)
        if k in cc1_cache:
            return cc1_cache[k]
        vec = list(words) + ['-cc1', '-cc1-input', inp] + (['-cc1-output', outp] if outp else [])
        argv = Arr([L.cbuf(x, 'argv') for x in vec] + [0], label='argv')
        res = []
        try:
            it = L.make_interp(P, u, opaque=opaque_cc1, extra_models=models_cc1, globals_=_zero_statics(u, {}), loop_limit=1)
            L.slice_loops(it, u, creators | terminators | file_fns)
            ps = it.explore('main', lambda ctx: [len(vec), _Ref(ElemPlace(argv, 0))], max_paths=5000)
        except AnalysisBroken:
            cc1_cache[k] = None
            return None
        entered = False
        for ctx, out in ps:
            # (the process took the cc1 role: a front-end phase was called - with or without a file opened afterwards)
            entered = entered or bool(L.calls_of(ctx, FRONT_PHASES)) or any(e[1] in ('fopen', 'fopen64') for e in L.calls_of(ctx))
            res += _opened_for_writing(ctx)
        cc1_cache[k] = res if (ps and entered) else None
        return cc1_cache[k]

    for label, opts, ins in _SAME_CMDLINES:
        key0 = '%s:main:same-%s' % (U, label)
        words = ['chibicc'] + opts + ins
        shown = ' '.join(words)
        victims = set(ins)
        try:
            it = L.make_interp(P, u, opaque=opaque, extra_models=models, globals_=_zero_statics(u, {}), loop_limit=2)
            ps = it.explore('main', lambda ctx: [len(words), _Ref(ElemPlace(Arr([L.cbuf(x, 'argv') for x in words] + [0], label='argv'), 0))], max_paths=500)
        except AnalysisBroken as e:
            rep.undecided('R14.16', key0 + ':interpretation', str(e))
            continue
        if not ps:
            rep.undecided('R14.16', key0 + ':no-path', 'no path of main for `%s`' % shown)
            continue
        hits = []       # (role, name, where)
        open_ = None
        refused = 0
        for ctx, out in ps:
            evs = [e for e in L.calls_of(ctx) if e[1] in SUBPROC or e[1] == 'create_tmpfile']
            stages = [e for e in evs if e[1] in SUBPROC]
            if stages and ctx.decisions:
                open_ = open_ or ('state-not-concrete', '`%s`: the path through parse_args and main depends on values the model leaves open (%s)' % (shown, ' / '.join(_fmt_path(ctx, 3))))
                continue
            tmps = [e[4] for e in evs if e[1] == 'create_tmpfile']
            for e in stages:
                name, args = e[1], e[2]
                wh = '%s:%d' % (U, e[3])
                outs = []
                own = set()     # operands the external tool reads: GNU as / ld refuse an output that is one of them, nothing is written
                if name == 'run_cc1' and len(args) >= 4:
                    pass        # (what a cc1 process writes is decided below from its own code: it may refuse the name itself)
                elif name == 'assemble' and len(args) >= 2:
                    outs = [('assembler-output', args[1])]
                    own = {_name_of(args[0])}
                elif name == 'run_linker' and len(args) >= 2:
                    outs = [('linker-output', args[1])]
                    a0 = args[0]
                    own = set(_name_of(v) for v in (a0.meta.get('pushed', []) if isinstance(a0, Obj) else []))
                else:
                    open_ = open_ or ('stage-arguments', '`%s`: %s is called with %d arguments: the output operand cannot be told' % (shown, name, len(args)))
                for role, v in outs:
                    if any(v is t for t in tmps) or v is None or (isinstance(v, int) and v == 0):
                        continue
                    nm = _name_of(v)
                    if nm is None:
                        open_ = open_ or ('%s-not-concrete' % role, '`%s`: the %s is not a concrete name' % (shown, role))
                    elif nm in victims and nm not in own:
                        hits.append((role, nm, wh))
                    elif nm in victims:
                        refused += 1
                if name == 'run_cc1' and len(args) >= 4:
                    inp = _name_of(args[2])
                    o = args[3]
                    outp = _ASM_T if any(o is t for t in tmps) else (None if (o is None or (isinstance(o, int) and o == 0)) else _name_of(o))
                    if inp is None or (outp is None and not (o is None or (isinstance(o, int) and o == 0))):
                        open_ = open_ or ('cc1-operands-not-concrete', '`%s`: the operands of run_cc1 are not concrete names' % shown)
                        continue
                    got = cc1_writes(words, inp, outp)
                    if got is None:
                        open_ = open_ or ('cc1-role', '`%s`: the cc1 process for input %s could not be interpreted up to the files it opens' % (shown, inp))
                        continue
                    for v, line in got:
                        nm = _name_of(v)
                        if nm is None:
                            open_ = open_ or ('cc1-opened-name-not-concrete', '`%s`: the cc1 process opens a file whose name is not concrete for writing' % shown)
                        elif nm in victims:
                            hits.append(('cc1-process', nm, '%s:%d' % (U, line)))
        if hits:
            order = ('cc1-process', 'assembler-output', 'linker-output')
            hits.sort(key=lambda h: order.index(h[0]))
            role, nm, wh = hits[0]
            rep.ob('R14.16', key0 + ':input-overwritten-by-%s' % role, False,
                   '`%s`: the input file %r is opened for writing (%s%s): the command line is accepted and the file the user gave is replaced by the output (cc: "input file is the same as output file", nothing runs)'
                   % (shown, nm, role, '; also ' + ', '.join(sorted(set(h[0] for h in hits[1:]) - {role})) if set(h[0] for h in hits[1:]) - {role} else ''), where=wh)
        elif open_:
            rep.undecided('R14.16', key0 + ':' + open_[0], open_[1], where=w)
        else:
            rep.ob('R14.16', key0 + ':inputs-preserved', True, '', where=w)
    # ... and the refusal is not wider than the clause: `-` is the standard input / the standard output, not a file
    # (`cc -S -o - -xc -` is the idiom for a filter), and an output that merely shares its stem with the input is fine
    for label, opts, ins in _SAME_CONTROLS:
        key0 = '%s:main:same-control-%s' % (U, label)
        words = ['chibicc'] + opts + ins
        shown = ' '.join(words)
        try:
            it = L.make_interp(P, u, opaque=opaque, extra_models=models, globals_=_zero_statics(u, {}), loop_limit=2)
            ps = it.explore('main', lambda ctx: [len(words), _Ref(ElemPlace(Arr([L.cbuf(x, 'argv') for x in words] + [0], label='argv'), 0))], max_paths=500)
        except AnalysisBroken as e:
            rep.undecided('R14.16', key0 + ':interpretation', str(e))
            continue
        started = [c for c, o in ps if L.calls_of(c, 'run_cc1')]
        refused = [(c, o) for c, o in ps if o[0] == 'noreturn' and o[1] in L.ERROR_FNS and not L.calls_of(c, SUBPROC) and not c.decisions]
        if refused and not started:
            o = refused[0][1]
            rep.ob('R14.16', key0 + ':refused', False, '`%s` is refused (%s%r): the command line names no file twice (`-` is the standard input and the standard output)'
                   % (shown, o[1], tuple(a for a in o[2][:2] if isinstance(a, str))), where='%s:%d' % (U, o[3]))
        elif started and not any(c.decisions for c in started):
            rep.ob('R14.16', key0 + ':accepted', True, '', where=w)
        else:
            rep.undecided('R14.16', key0 + ':paths', '`%s`: no concrete path of main reaches run_cc1 or a diagnostic' % shown, where=w)


# ================================================================= R14.13 ===
# "a failed read is not the end of the file, a failed write is not a written file".  stdio reports a read error the same
# way as end of file (fread 0 / fgets NULL / getc EOF) and a write error possibly only when the buffer is flushed (fflush /
# fclose); only ferror() - or the result of fflush/fclose - tells them apart.  Decided structurally, per function and per
# stream variable: the stream's error state (ferror / fflush / fclose result) is examined in a condition one branch of which
# ends the function (diagnostic or return), in the function itself or in a function of the program it hands the stream to.
READ_PRIMS = {'fread': 3, 'fread_unlocked': 3, 'fgets': 2, 'fgetc': 0, 'getc': 0, 'getc_unlocked': 0, 'getline': 2, 'getdelim': 3, 'fscanf': 0, 'getw': 0}
STREAM_STATE_FNS = {'ferror': 0, 'fflush': 0, 'fclose': 0, 'ferror_unlocked': 0}


def _is_file_ptr(t):
    t = (t or '').replace('struct ', '').replace('const ', '').replace(' ', '')
    return t in ('FILE*', '_IO_FILE*')


def _stream_checked_in(fd, vid, terminators, deferred=None):
    """'yes' | 'value-kept' | 'no': a ferror/fflush/fclose call on the variable `vid` inside fd sits in the condition of an if
    whose branch ends the function"""
    kept = False
    for c in fd.walk():
        if c.kind != 'CallExpr' or c.callee() not in STREAM_STATE_FNS:
            continue
        a = c.args()
        i = STREAM_STATE_FNS[c.callee()]
        if len(a) <= i:
            continue
        b = a[i].strip_all()
        if b.kind != 'DeclRefExpr' or b.ref_id != vid:
            continue
        prev, n = c, c.parent
        while n is not None and n.kind not in ('IfStmt', 'CompoundStmt', 'FunctionDecl', 'WhileStmt', 'ForStmt', 'DoStmt', 'VarDecl', 'ReturnStmt'):
            if n.kind == 'BinaryOperator' and n.opcode in ('=',) or n.kind == 'CompoundAssignOperator':
                break
            prev, n = n, n.parent
        if n is None:
            continue
        if n.kind == 'IfStmt' and n.inner and prev is n.inner[0]:
            ends = any((x.kind == 'ReturnStmt') or (x.kind == 'CallExpr' and x.callee() in terminators) for br in n.inner[1:] for x in br.walk())
            if ends:
                return 'yes'
            kept = True
        elif n.kind in ('VarDecl', 'ReturnStmt', 'BinaryOperator', 'CompoundAssignOperator'):
            kept = True     # the state is stored / returned: who looks at it is not followed
        elif n.kind in ('WhileStmt', 'ForStmt', 'DoStmt'):
            kept = True
    return 'value-kept' if kept else 'no'


def r1413(P, rep, cg, reach_main):
    rep.rule('R14.13', 'stream failures are not silent: a function that reads an input through stdio (fread, fgets, getc, getline, ...) tells a read error from end of file (ferror on that stream decides a branch that '
                       'ends the function), and a function that opens a file for writing examines the error state of that stream (ferror / fflush / fclose result, itself or through a helper it hands the stream to) '
                       'before it returns - a directory or unreadable medium is not an empty input, a full disk is not a written output', floor=3)
    terminators = set(L.HARD_EXIT) | set(L.SOFT_EXIT) | set(L.ERROR_FNS)
    # ---- helpers that examine a stream parameter: name -> set of parameter indexes
    examiners = {}
    keepers = {}        # ... that look at the error state of a stream parameter and keep the answer in a value
    for fname, defs in cg.defs.items():
        for (cu, fd) in defs:
            try:
                params = cu.params(fname)
            except Exception:
                params = []
            for i, pd in enumerate(params or []):
                if _is_file_ptr(pd.dtype or pd.type):
                    r_ = _stream_checked_in(fd, pd.id, terminators)
                    if r_ == 'yes':
                        examiners.setdefault(fname, set()).add(i)
                    elif r_ == 'value-kept':
                        keepers.setdefault(fname, set()).add(i)

    def handed_to_examiner(fd, vid, table=None):
        table = examiners if table is None else table
        for c in fd.walk():
            if c.kind == 'CallExpr' and c.callee() in table:
                for i, a in enumerate(c.args()):
                    b = a.strip_all()
                    if i in table[c.callee()] and b.kind == 'DeclRefExpr' and b.ref_id == vid:
                        return True
        return False
    # ---- read side
    n_read = 0
    done = set()
    for prim, idx in sorted(READ_PRIMS.items()):
        for (cu, caller, call) in cg.sites.get(prim, ()):
            if caller not in reach_main or (cu.name, caller, prim) in done:
                continue
            a = call.args()
            b = a[idx].strip_all() if len(a) > idx else None
            key = '%s:%s:%s' % (cu.name, caller, prim)
            if b is None or b.kind != 'DeclRefExpr' or b.ref_id is None:
                rep.undecided('R14.13', key + '-stream-not-a-variable', '%s() in %s reads from a stream that is not a plain variable: which ferror() belongs to it is not decided' % (prim, caller), where=_where(call, cu.name))
                continue
            done.add((cu.name, caller, prim))
            n_read += 1
            fd = cu.fn(caller)
            r = _stream_checked_in(fd, b.ref_id, terminators)
            if r == 'no' and handed_to_examiner(fd, b.ref_id):
                r = 'yes'
            if r != 'yes' and b.ref_kind == 'ParmVarDecl' and prim in L.READ_RESULT:
                # the stream belongs to a caller: R14.14 decides it on the paths of the function that owns it (or is undecided there)
                rep.ob('R14.13', key + '-stream-owned-by-caller', True, '', where=_where(call, cu.name))
                continue
            if r == 'value-kept' and prim in L.READ_RESULT:
                rep.ob('R14.13', key + '-error-state-kept-in-a-value', True, '', where=_where(call, cu.name))       # what is done with the value: R14.14, on paths
                continue
            if r == 'value-kept':
                rep.undecided('R14.13', key + '-error-state-kept-in-a-value', '%s reads with %s() and stores / loops on the error state of the stream: who decides on it is not followed' % (caller, prim), where=_where(call, cu.name))
                continue
            rep.ob('R14.13', key + ('-error-told-from-end-of-file' if r == 'yes' else '-error-read-as-end-of-file'), r == 'yes',
                   '%s (%s) reads its input with %s() and never asks ferror() about that stream: %s() reports a read error exactly like end of file, so an input that cannot be read (a directory: EISDIR, an I/O error, '
                   'a stale network file) is taken for an empty or truncated file - the translation unit is compiled without it and the driver exits 0' % (caller, cg.witness(caller), prim, prim),
                   where=_where(call, cu.name))
    if n_read == 0:
        rep.undecided('R14.13', 'program:no-stream-read', 'no reachable function reads an input through stdio: the input-reading anchor vanished')
    # ---- write side: streams opened for writing a named file
    def opens_for_write(c):
        cal = c.callee()
        if cal in ('fopen', 'fopen64', 'freopen'):
            cr, dec = _creates_file(c)
            return bool(cr) or not dec
        return False
    writer_open = set()     # functions of the program that return a stream they opened for writing
    for fname, defs in cg.defs.items():
        for (cu, fd) in defs:
            if _is_file_ptr(_ret_type(cu, fname)) and any(c.kind == 'CallExpr' and opens_for_write(c) for c in fd.walk()):
                writer_open.add(fname)
    n_write = 0
    for fname in sorted(reach_main):
        for (cu, fd) in cg.defs.get(fname, ()):
            if fname in writer_open:
                continue        # hands the stream to its caller, who is examined
            seen_openers = {}
            for n in fd.walk():
                src = None
                vid = None
                if n.kind == 'VarDecl' and _is_file_ptr(n.dtype or n.type) and n.inner:
                    src, vid = n.inner[-1].strip_all(), n.id
                elif n.kind == 'BinaryOperator' and n.opcode == '=' and len(n.inner) == 2:
                    lhs = n.inner[0].strip_all()
                    if lhs.kind == 'DeclRefExpr' and _is_file_ptr(lhs.dtype or lhs.type):
                        src, vid = n.inner[1].strip_all(), lhs.ref_id
                if src is None or src.kind != 'CallExpr' or vid is None:
                    continue
                opener = src.callee()
                if not (opener in writer_open or opens_for_write(src)):
                    continue
                n_write += 1
                r = _stream_checked_in(fd, vid, terminators)
                if r != 'yes' and handed_to_examiner(fd, vid):
                    r = 'yes'
                key = '%s:%s:stream-from-%s' % (cu.name, fname, opener)
                if r != 'yes' and handed_to_examiner(fd, vid, keepers):
                    r = 'value-kept'
                if r == 'value-kept':
                    rep.ob('R14.13', key + '-error-state-kept-in-a-value', True, '', where=_where(src, cu.name))       # what is done with the value: R14.15, on paths
                    continue
                rep.ob('R14.13', key + ('-write-errors-examined' if r == 'yes' else '-write-errors-never-examined'), r == 'yes',
                       '%s (%s) writes a file through the stream it got from %s() and returns without ever examining the error state of that stream (no ferror(), result of fflush()/fclose() unused): '
                       'when the data cannot be written (disk full, quota, I/O error) the output is empty or truncated and the process still exits 0 - the driver goes on to assemble/link it or reports success'
                       % (fname, cg.witness(fname), opener), where=_where(src, cu.name))
    if n_write == 0:
        rep.undecided('R14.13', 'program:no-file-stream-written', 'no reachable function opens a file stream for writing: the output-writing anchor vanished')



# ============================================================ R14.14 / R14.15 ===
# The same clause as R14.13, decided over PATHS: R14.13 only asks whether the error state of a stream is looked at somewhere in
# the function.  Here the function that owns the stream is interpreted with the stdio model of lib_c14 (the environment decides
# for every read: data / end of file / error, with a zero or a short count; for buffered output: the flush inside fflush - else
# inside fclose - works or fails, an earlier write may have failed already), helpers of the same unit that take a FILE * are
# interpreted with it.  A path on which the stream FAILED must not end like a path on which everything worked.
def _file_param_fns(cu, terminators):
    out = set()
    for f in cu.functions:
        if f in terminators or f in NORETURN:
            continue
        try:
            ps = cu.params(f)
        except Exception:
            ps = []
        if any(_is_file_ptr(p_.dtype or p_.type) for p_ in ps or []):
            out.add(f)
    return out


def _stream_roots(cg, reach_main, cu, H, var, depth=0):
    """functions from which the stream denoted by the variable reference `var` inside H is owned: H when it is a local or a
    file-scope variable, the callers (same unit) when it is a parameter of H.  -> (set of (root, frozenset(chain)), why-undecided)"""
    if var.ref_kind != 'ParmVarDecl':
        return {(H, frozenset([H]))}, None
    if depth >= 3:
        return set(), 'the stream is passed down more than three levels'
    try:
        idx = [p_.id for p_ in cu.params(H)].index(var.ref_id)
    except (ValueError, Exception):
        return set(), 'the stream parameter of %s was not found' % H
    if H in cg.refs and any(f in reach_main for (_, f, _) in cg.refs[H]):
        return set(), 'the address of %s is taken' % H
    roots = set()
    for (cu2, caller, call) in cg.sites.get(H, ()):
        if caller not in reach_main:
            continue
        if cu2 is not cu:
            return set(), '%s is called from another unit (%s)' % (H, cu2.name)
        a = call.args()
        b = a[idx].strip_all() if len(a) > idx else None
        if b is None or b.kind != 'DeclRefExpr' or b.ref_id is None:
            return set(), '%s is handed a stream that is not a plain variable in %s' % (H, caller)
        r, why = _stream_roots(cg, reach_main, cu, caller, b, depth + 1)
        if why:
            return set(), why
        roots |= set((root, chain | frozenset([H])) for (root, chain) in r)
    return roots, None


def _explore_streams(P, cg, cu, root, interp_fns, terminators):
    opaque = [f for f in cg.defs if f != root and f not in interp_fns]
    glob = _lazy_record_globals(cu, L.std_stream_globals())
    models = L.stream_models()
    it = L.make_interp(P, cu, opaque=opaque, extra_models=models, globals_=glob, loop_limit=1)
    it.forever_limit = 3
    L.slice_loops(it, cu, terminators | set(models) | set(interp_fns))
    return it.explore(root, lambda ctx: [], max_paths=6000)


def _failure_verdict(failed, good):
    """failed / good: [(ctx, out)].  -> ('fatal', None) | ('reported', constant) | ('dropped', (ctx, out)) | ('undecided', why)"""
    rets = []
    for ctx, out in failed:
        if out[0] == 'noreturn':
            if not _nonzero_exit(out):
                return 'dropped', (ctx, out)
            continue
        rets.append((ctx, out))
    if not rets:
        return 'fatal', None
    vals = set()
    for ctx, out in rets:
        v = out[1]
        if isinstance(v, bool):
            v = int(v)
        if not isinstance(v, int):
            return 'dropped', (ctx, out)
        vals.add(v)
    if len(vals) != 1:
        return 'dropped', rets[0]
    fv = vals.pop()
    for ctx, out in good:
        if out[0] == 'ret':
            v = out[1]
            v = int(v) if isinstance(v, bool) else v
            if isinstance(v, int) and v == fv:
                return 'dropped', [r for r in rets][0]
            if isinstance(v, View):
                return 'undecided', 'the successful return value may or may not equal the failure value %r' % (fv,)
    return 'reported', fv


def _escaping_streams(fd):
    """does a FILE * variable of the function leave it other than as a call argument (stored, returned)?"""
    for n in fd.walk():
        if n.kind != 'DeclRefExpr' or not _is_file_ptr(n.dtype or n.type) or n.ref_kind not in ('VarDecl', 'ParmVarDecl'):
            continue
        prev, q = n, n.parent
        while q is not None and q.kind in ('ImplicitCastExpr', 'ParenExpr', 'CStyleCastExpr'):
            prev, q = q, q.parent
        if q is None:
            continue
        if q.kind in ('ReturnStmt', 'InitListExpr'):
            return True
        if q.kind == 'BinaryOperator' and q.opcode == '=' and len(q.inner) == 2 and prev is q.inner[1]:
            lhs = q.inner[0].strip_all()
            if not (lhs.kind == 'DeclRefExpr' and lhs.ref_kind == 'VarDecl' and lhs.ref_name not in ('stdin', 'stdout', 'stderr')):
                return True
            # a local FILE * copy is followed by value; a file-scope variable is a store
            d = fd
            if not any(v.kind == 'VarDecl' and v.id == lhs.ref_id for v in d.walk()):
                return True
    return False


WRITE_PRIMS = ('fwrite', 'fwrite_unlocked', 'fprintf', 'vfprintf', 'fputs', 'fputc', 'putc', 'fputs_unlocked', 'fputc_unlocked', 'putc_unlocked')


def _write_results_used(fd):
    """stdio write calls of the function whose result is used (a program may check every write instead of asking ferror())"""
    used = set()
    for c in fd.walk():
        if c.kind != 'CallExpr' or c.callee() not in WRITE_PRIMS:
            continue
        prev, q = c, c.parent
        while q is not None and q.kind in ('ParenExpr', 'ImplicitCastExpr'):
            prev, q = q, q.parent
        if q is None or q.kind in ('CompoundStmt', 'LabelStmt', 'CaseStmt', 'DefaultStmt'):
            continue
        if q.kind == 'CStyleCastExpr' and (q.dtype or q.type) == 'void':
            continue
        if q.kind in ('IfStmt', 'WhileStmt', 'SwitchStmt') and prev is not q.inner[0]:
            continue
        if q.kind == 'DoStmt' and prev is q.inner[0]:
            continue
        if q.kind == 'ForStmt':
            continue        # (init / increment / body position; a call as the loop condition is not a pattern worth the precision)
        used.add(c.callee())
    return used


def r14_stream_paths(P, rep, cg, reach_main, facts):
    rep.rule('R14.14', 'on every path of the function that owns an input stream, a read that FAILS (error flag set; fread with a zero or a short count, fgets NULL, getc EOF, getline -1) ends the process with a non-zero '
                       'status or makes the function return a failure constant that none of its successful paths returns and that every caller treats as a failure (R14.9): a read error is never taken for the end of the file, '
                       'whichever way the loop is left', floor=1)
    rep.rule('R14.15', 'on every path of a function that owns a stream opened for writing a file, a failed write - an earlier write that set the error flag, the flush of the buffered data in fflush(), or that flush inside '
                       'fclose() when nothing flushed before - ends the process with a non-zero status (or is reported to callers that do): the result of the call that really writes the data is examined, and the '
                       'function does not return with data still in the buffer of a stream nobody will examine', floor=6)
    terminators = set(L.HARD_EXIT) | set(L.SOFT_EXIT) | set(L.ERROR_FNS) | {'__assert_fail'}
    chain_work = []
    explored = {}

    def paths_of(cu, root, interp):
        k = (cu.name, root, frozenset(interp))
        if k not in explored:
            try:
                explored[k] = _explore_streams(P, cg, cu, root, interp, terminators)
            except AnalysisBroken as e:
                explored[k] = str(e)
        return explored[k]

    def all_good(ctx):
        st = L.proc_state(ctx)
        return not st.get('open_failed') and not st.get('other_stream_failed') and not any(r['rfail'] or r['wfail'] for r in L.streams_of(ctx))

    # ---------------------------------------------------------------- read side
    n_read = 0
    seen_roots = set()
    for prim, (idx, _) in sorted(L.READ_RESULT.items()):
        for (cu, H, call) in cg.sites.get(prim, ()):
            if H not in reach_main:
                continue
            a = call.args()
            b = a[idx].strip_all() if len(a) > idx else None
            if b is None or b.kind != 'DeclRefExpr' or b.ref_id is None:
                continue            # (R14.13 reports it)
            roots, why = _stream_roots(cg, reach_main, cu, H, b)
            if why:
                rep.undecided('R14.14', '%s:%s:%s-owner-of-stream' % (cu.name, H, prim), 'who owns the stream %s reads with %s() is not decided: %s' % (H, prim, why), where=_where(call, cu.name))
                continue
            for root, chain in sorted(roots, key=lambda r: r[0]):
                if (cu.name, root, prim) in seen_roots:
                    continue
                seen_roots.add((cu.name, root, prim))
                interp = (_file_param_fns(cu, terminators) | set(chain)) - {root}
                ps = paths_of(cu, root, interp)
                key0 = '%s:%s:%s' % (cu.name, root, prim)
                w = _where(cu.fn(root), cu.name)
                if isinstance(ps, str):
                    rep.undecided('R14.14', key0 + '-interpretation', ps, where=w)
                    continue
                n_read += 1
                kinds = {}
                for ctx, out in ps:
                    for r in L.streams_of(ctx):
                        if r['rfail'] and r['rfail'][0] == prim:
                            kinds.setdefault(r['rfail'][1], []).append((ctx, out))
                good = [(ctx, out) for ctx, out in ps if all_good(ctx)]
                if not kinds:
                    rep.undecided('R14.14', key0 + '-no-failing-read-explored', 'no explored path of %s reaches a %s() on a stream the model follows' % (root, prim), where=w)
                    continue
                if not any(out[0] == 'ret' for ctx, out in good):
                    rep.undecided('R14.14', key0 + '-no-successful-path', 'no explored path of %s returns after reads that all worked' % root, where=w)
                    continue
                for kind, failed in sorted(kinds.items()):
                    verdict, info = _failure_verdict(failed, good)
                    k = '%s-error-with-%s' % (key0, kind)
                    if verdict == 'undecided':
                        rep.undecided('R14.14', k, info, where=w)
                    elif verdict == 'fatal':
                        rep.ob('R14.14', k + '-is-fatal', True, '', where=w)
                    elif verdict == 'reported':
                        rep.ob('R14.14', k + '-reported-to-caller', True, '', where=w, facts={'failure value': repr(info)})
                        chain_work.append((root, info))
                    else:
                        ctx, out = info
                        shown = {'zero-count': 'fails without delivering a byte (returns 0, error flag set: a directory, an I/O error at a buffer boundary)',
                                 'short-count': 'fails after delivering part of the data (short count, error flag set)',
                                 'no-data': 'fails (returns its end-of-input value, error flag set)'}[kind]
                        rep.ob('R14.14', k + '-taken-for-end-of-file', False,
                               '%s (%s): when %s() %s, a path of %s goes on and %s exactly as if the input had ended there - ferror() is not consulted on that path (it is asked only on other ways out of the read loop), '
                               'so an input that cannot be read is compiled as an empty or truncated file and the driver exits 0'
                               % (root, cg.witness(root), prim, shown, root, ('returns %r' % (out[1],) if isinstance(out[1], int) else 'returns its result') if out[0] == 'ret' else 'ends in %s()' % out[1]),
                               where=_where(call, cu.name), facts={'path': _fmt_path(ctx, 12)})
    if n_read == 0:
        rep.undecided('R14.14', 'program:no-stream-read', 'no reachable function reads an input through a stdio call the model covers')
    # ---------------------------------------------------------------- write side
    def opens_for_write(c):
        if c.callee() in ('fopen', 'fopen64', 'freopen'):
            cr, dec = _creates_file(c)
            return bool(cr) or not dec
        return False
    writer_open = {}
    for fname, defs in cg.defs.items():
        for (cu, fd) in defs:
            if _is_file_ptr(_ret_type(cu, fname)) and any(c.kind == 'CallExpr' and opens_for_write(c) for c in fd.walk()):
                writer_open.setdefault(fname, set()).add(cu.name)
    n_write = 0
    for fname in sorted(reach_main):
        for (cu, fd) in cg.defs.get(fname, ()):
            if fname in writer_open:
                continue
            openers = set()
            for n in fd.walk():
                src = None
                if n.kind == 'VarDecl' and _is_file_ptr(n.dtype or n.type) and n.inner:
                    src = n.inner[-1].strip_all()
                elif n.kind == 'BinaryOperator' and n.opcode == '=' and len(n.inner) == 2 and _is_file_ptr(n.inner[0].strip_all().dtype or n.inner[0].strip_all().type):
                    src = n.inner[1].strip_all()
                if src is not None and src.kind == 'CallExpr' and (src.callee() in writer_open or opens_for_write(src)):
                    openers.add(src.callee())
            if not openers:
                continue
            key0 = '%s:%s' % (cu.name, fname)
            w = _where(fd, cu.name)
            foreign = [o for o in openers if o in writer_open and cu.name not in writer_open[o]]
            if foreign:
                rep.undecided('R14.15', key0 + ':opener-in-another-unit', '%s gets its stream from %s, which is defined in another unit' % (fname, ', '.join(sorted(foreign))), where=w)
                continue
            interp = (_file_param_fns(cu, terminators) | set(o for o in writer_open if cu.name in writer_open[o])) - {fname}
            ps = paths_of(cu, fname, interp)
            if isinstance(ps, str):
                rep.undecided('R14.15', key0 + ':interpretation', ps, where=w)
                continue
            n_write += 1
            escapes = _escaping_streams(fd)
            results_used = set()
            for f2 in [fname] + sorted(interp):
                for (cu3, fd3) in cg.defs.get(f2, ()):
                    if cu3 is cu:
                        results_used |= _write_results_used(fd3)
            good = [(ctx, out) for ctx, out in ps if all_good(ctx)]
            groups = {}
            left = {}
            n_streams = 0
            for ctx, out in ps:
                for r in L.streams_of(ctx):
                    if r['kind'] != 'w':
                        continue
                    if r['std']:
                        origin = r['origin']
                    else:
                        site = L.outer_site(ctx, r['event']) if r['event'] is not None else None
                        origin = site[0] if site and site[0] else r['origin']
                        n_streams += 1
                    if r['wfail']:
                        groups.setdefault((origin, r['wfail']), []).append((ctx, out))
                    elif not r['std'] and out[0] == 'ret' and not r['closed'] and r['dirty']:
                        left.setdefault(origin, []).append((ctx, out))
            if n_streams == 0:
                rep.undecided('R14.15', key0 + ':no-file-stream-on-any-path', 'no explored path of %s opens a file for writing' % fname, where=w)
                continue
            for (origin, how), failed in sorted(groups.items()):
                verdict, info = _failure_verdict(failed, good)
                k = '%s:stream-from-%s:%s-failure' % (key0, origin, how)
                if verdict == 'undecided':
                    rep.undecided('R14.15', k, info, where=w)
                elif verdict == 'fatal':
                    rep.ob('R14.15', k + '-is-fatal', True, '', where=w)
                elif verdict == 'reported':
                    rep.ob('R14.15', k + '-reported-to-caller', True, '', where=w, facts={'failure value': repr(info)})
                    chain_work.append((fname, info))
                else:
                    ctx, out = info
                    shown = {'earlier-write': 'a write to the stream has failed before (error flag set, e.g. the disk filled up while a full buffer was written out) and the remaining flush works, only ferror() can tell: it is not asked on this path',
                             'fflush': 'fflush() cannot write the buffered data (disk full, quota, I/O error), its result is not used on this path',
                             'fclose': 'nothing flushed the stream before fclose(), so the buffered data (everything, for an output smaller than one stdio buffer) is written inside fclose(); that write fails '
                                       '(disk full, quota, I/O error) and the result of fclose() is not used'}[how]
                    if how == 'earlier-write' and results_used:
                        rep.undecided('R14.15', k, '%s does not ask ferror() on some path, but uses the result of %s: whether every write to the stream is checked that way is not decided'
                                      % (fname, ', '.join(sorted(results_used))), where=w)
                        continue
                    rep.ob('R14.15', k + '-ignored', False,
                           '%s (%s) writes %s: %s - the function %s as after a complete write: the output is empty or truncated, the cc1 process '
                           'exits 0 and the driver assembles/links it or reports success'
                           % (fname, cg.witness(fname), ('to ' + origin) if origin in L.STD_STREAMS else 'a file through the stream it got from %s()' % origin, shown,
                              ('returns' if out[0] == 'ret' else 'ends in %s()' % out[1])),
                           where=w, facts={'path': _fmt_path(ctx, 12)})
            for origin, lst in sorted(left.items()):
                k = '%s:stream-from-%s:returns-with-unflushed-data' % (key0, origin)
                if escapes:
                    rep.undecided('R14.15', k, '%s returns with the stream still open and unflushed on some path, and stores or returns a FILE * somewhere: who finishes the stream is not followed' % fname, where=w)
                    continue
                rep.ob('R14.15', k, False,
                       '%s (%s) returns on some path without having flushed or closed the stream it got from %s(): the buffered data is written when the process exits, where nobody examines the result - '
                       'a full disk gives a truncated file and exit status 0' % (fname, cg.witness(fname), origin), where=w, facts={'path': _fmt_path(lst[0][0], 12)})
            if not groups:
                rep.undecided('R14.15', key0 + ':no-failing-write-explored', 'no explored path of %s examines, flushes or closes the file stream it opened' % fname, where=w)
    if n_write == 0:
        rep.undecided('R14.15', 'program:no-file-stream-written', 'no reachable function opens a file stream for writing: the output-writing anchor vanished')
    # ---------------------------------------------------------------- callers of functions that report the failure by a value
    if chain_work:
        done = facts.get('r149_done')
        if done is None:
            done = set()
        _r149_chain(P, rep, cg, reach_main, chain_work, done)


# ================================================================== R14.9 ===
# "unreadable input => diagnostic, non-zero exit": failure of opening an input must not be swallowed anywhere
# on the way up the call chain.  Decided per function and per call site: the function is interpreted with
# exactly that one call failing (returning its failure value); on every such path it must either end the
# process with a non-zero status or hand a distinguishable failure value to ITS caller, whose call sites are
# then examined the same way.
def r149(P, rep, cg, reach_main, facts=None):
    rep.rule('R14.9', 'when opening an input file for reading fails, every function on the call chain either ends the process through a diagnostic (non-zero exit) '
                      'or returns a failure value that none of its successful paths returns, and every caller of such a function does the same: '
                      'the failure is never dropped (a translation unit compiled without a file it was told to read, exit 0)', floor=3)
    terminators = set(L.HARD_EXIT) | set(L.SOFT_EXIT) | set(L.ERROR_FNS) | {'__assert_fail'}
    alldefs = set(cg.defs)
    # work items: (callee G, failure value c)
    work = []
    for name in ('fopen', 'fopen64'):
        reads = False
        for (cu, caller, call) in cg.sites.get(name, ()):
            if caller not in reach_main:
                continue
            creates, decidable = _creates_file(call)
            if decidable and not creates:
                reads = True
        if reads:
            work.append((name, 0))
    if not work:
        rep.undecided('R14.9', 'tokenize.c:input-open', 'no reachable fopen(..., "r") found: the input-reading anchor vanished')
        return
    done = set()
    if facts is not None:
        facts['r149_done'] = done
    n_fatal = _r149_chain(P, rep, cg, reach_main, work, done)
    if n_fatal == 0:
        rep.undecided('R14.9', 'tokenize.c:input-open:no-fatal-handler', 'no call chain from an input open ends in a diagnostic')


def _r149_chain(P, rep, cg, reach_main, work, done):
    """work items (G, c): the function G reports a failure to its caller by returning the constant c; every call site of G is
    decided, and a caller that passes the failure on becomes a work item itself.  -> number of call sites where it is fatal"""
    terminators = set(L.HARD_EXIT) | set(L.SOFT_EXIT) | set(L.ERROR_FNS) | {'__assert_fail'}
    alldefs = set(cg.defs)
    n_fatal = 0
    while work:
        G, c = work.pop(0)
        if (G, c) in done:
            continue
        done.add((G, c))
        if G in cg.refs and any(f in reach_main for (_, f, _) in cg.refs[G]):
            rep.undecided('R14.9', '%s:%s:address-taken' % (cg.refs[G][0][0].name, G), 'the address of %s, which reports input-open failures by its return value, is taken: indirect callers are not followed' % G)
        for (cu, H, call) in cg.sites.get(G, ()):
            if H not in reach_main:
                continue
            if G in ('fopen', 'fopen64'):
                creates, decidable = _creates_file(call)
                if creates or not decidable:
                    continue        # output side: R14.1 / R14.5
            verdict, info = _open_failure_outcome(P, cg, cu, H, G, call, c, alldefs, terminators)
            key = '%s:%s:%s-failure' % (cu.name, H, G)
            wh = _where(call, cu.name)
            if verdict == 'undecided':
                rep.undecided('R14.9', key, info, where=wh)
            elif verdict == 'fatal':
                n_fatal += 1
                rep.ob('R14.9', key + '-is-fatal', True, '', where=wh)
            elif verdict == 'reported':
                rep.ob('R14.9', key + '-reported-to-caller', True, '', where=wh, facts={'failure value': repr(info)})
                work.append((H, info))
                if H in ('main', 'cc1'):
                    rep.ob('R14.9', key + '-returned-from-%s' % H, False, 'the failure is returned from %s, the top of the process: nobody is left to diagnose it' % H, where=wh)
            else:
                rep.ob('R14.9', key + '-dropped', False,
                       'when %s(%s) fails%s, %s carries on on a path that neither ends in a diagnostic nor returns a value its caller could tell from success (%s): '
                       'the unreadable input is silently left out, compilation continues and can end with exit status 0 and an output file'
                       % (G, ', '.join(a.src() for a in call.args()[:1]), ' (returns %r)' % (c,) if G not in ('fopen', 'fopen64') else '', H, info),
                       where=wh)
    return n_fatal


class _Fail(int):
    """the failure value of the one failing call: behaves as the integer, keeps its identity while it is stored and passed on"""
    pass


def _open_failure_outcome(P, cg, cu, H, G, site, c, alldefs, terminators):
    """interpret H with the call `site` of G failing (value c), every other call of G succeeding; other functions are
    opaque, except that a function of the same unit that is handed the failure value itself is interpreted (the test
    may live in a helper).
    -> ('fatal', None) | ('reported', value) | ('dropped', description) | ('undecided', why)"""
    mark = _Fail(c)

    def m(it, ctx, n, args):
        st = L.proc_state(ctx)
        if n.id == site.id:
            st['open_failed'] = True
            ctx.note('%s fails' % G)
            ctx.emit('call', G, args, n.line, c)
            return mark
        r = Obj(None, lazy=True, label=ctx.fresh(G))
        ctx.emit('call', G, args, n.line, r)
        return r

    def helper(F):
        def mh(it, ctx, n, args):
            if any(a is mark for a in args) and ctx.rec.get(F, 0) == 0:
                return it.call_fn(cu, cu.functions[F], args)
            return L._opaque_call(it, ctx, n, args)
        return mh
    opaque = [f for f in alldefs if f != H]
    models = {}
    for F in cu.functions:
        if F != H and F != G and F not in terminators and F not in NORETURN:
            models[F] = helper(F)
    models[G] = m

    def m_ferror(it, ctx, n, args):
        # the error indicator of a stream is a second way the same input can fail (R14.13): such a path is not a success path
        if ctx.choose(2, n.callee()) == 1:
            L.proc_state(ctx)['stream_failed'] = True
            ctx.note('%s()!=0 [the stream failed]' % n.callee())
            return 1
        return 0
    for F in ('ferror', 'ferror_unlocked'):
        models[F] = m_ferror
    glob = {}
    for name, g in cu.globals.items():       # file-scope records (option lists ...) hold anything
        t = (g.dtype or g.type or '').replace('struct ', '').strip()
        if t in cu.records and 'init' not in g.d:
            glob[name] = (lambda nm, tt: (lambda ctx: Obj(tt, lazy=True, label='g:' + nm)))(name, t)
    for name in ('stdin', 'stdout', 'stderr'):       # the standard streams exist
        glob[name] = (lambda nm: (lambda ctx: Obj(None, lazy=True, label='g:' + nm)))(name)
    try:
        it = L.make_interp(P, cu, opaque=opaque, extra_models=models, globals_=glob, loop_limit=1)
        it.forever_limit = 2        # (a `for (;;)` that is left by a test inside: as many iterations as a generic loop gets)
        L.slice_loops(it, cu, terminators | {G})
        paths = it.explore(H, lambda ctx: [], max_paths=4000)
    except AnalysisBroken as e:
        return 'undecided', 'interpretation of %s failed: %s' % (H, e)
    failed = [(ctx, out) for ctx, out in paths if L.proc_state(ctx).get('open_failed')]
    good = [(ctx, out) for ctx, out in paths if not L.proc_state(ctx).get('open_failed') and not L.proc_state(ctx).get('stream_failed')]
    if not failed:
        return 'undecided', 'no explored path of %s reaches the call of %s' % (H, G)
    rets = []
    for ctx, out in failed:
        if out[0] == 'noreturn':
            if not _nonzero_exit(out):
                return 'dropped', 'ends through %s%r, not a certain non-zero status' % (out[1], tuple(out[2][:1]))
            continue
        rets.append((ctx, out[1]))
    if not rets:
        return 'fatal', None
    vals = set()
    for ctx, v in rets:
        if isinstance(v, bool):
            v = int(v)
        if not isinstance(v, int):
            return 'dropped', 'returns %s; path: %s' % ('nothing' if v is None else 'a value that is not a failure constant', ' / '.join(_fmt_path(ctx, 4)))
        vals.add(v)
    if len(vals) != 1:
        return 'dropped', 'returns different constants %s on failure' % sorted(vals)
    fv = vals.pop()
    for ctx, out in good:
        if out[0] == 'ret':
            v = out[1]
            v = int(v) if isinstance(v, bool) else v
            if isinstance(v, int) and v == fv:
                return 'undecided', '%s returns %r when %s fails, and also on a path without failure: cannot tell whether its callers can recognise the failure' % (H, fv, G)
            if isinstance(v, View):
                return 'undecided', 'the successful return value of %s may or may not equal its failure value %r' % (H, fv)
    return 'reported', fv


def _r148_handover(P, u, rep, cg, facts, pure):
    """the names main gives run_cc1 are the names the cc1 process works with: the argument vector run_cc1 builds is
    parsed by parse_args into base_file / output_file (both interpreted over concrete strings)"""
    launchers = sorted(facts.get('fork_fns', ()))
    if 'run_cc1' not in u.functions or 'parse_args' not in u.functions or not launchers:
        rep.undecided('R14.8', '%s:run_cc1:handover-anchors' % U, 'run_cc1 / parse_args / the subprocess launcher not all found')
        return
    gone = [g for g in ('base_file', 'output_file', 'opt_cc1') if g not in u.globals]
    if gone:
        rep.undecided('R14.8', '%s:run_cc1:handover-globals' % U, 'globals %s not found: cannot tell where parse_args stores the names run_cc1 hands over' % '/'.join(gone))
        return
    to_launcher = cg.reaches(set(launchers))
    base = ['chibicc', '-c', 'x.c']
    src = 'sub.d/net.v4.c'
    w = _where(u.fn('run_cc1'))
    for sc, outname in (('with-output', '/tmp/chibicc-T.v1'), ('stdout', None)):
        key0 = '%s:run_cc1:%s' % (U, sc)
        argv = Arr([L.cbuf(x, 'argv') for x in base] + [0], label='argv')
        inp = L.cbuf(src, 'input')
        outp = L.cbuf(outname, 'output') if outname is not None else 0
        try:
            it = L.make_interp(P, u, opaque=[f for f in u.functions if f not in pure and f != 'run_cc1' and (f in launchers or f not in to_launcher)], extra_models=L.string_models(),
                               globals_=_zero_statics(u, {}), loop_limit=1)
            ps = it.explore('run_cc1', lambda ctx: [len(base), _Ref(ElemPlace(argv, 0)), inp, outp], max_paths=200)
        except AnalysisBroken as e:
            rep.undecided('R14.8', key0 + ':interpretation', str(e))
            continue
        rets = [(c, o) for c, o in ps if o[0] == 'ret']
        if len(rets) != 1 or rets[0][0].decisions:
            rep.undecided('R14.8', key0 + ':paths', 'run_cc1 has %d returning paths on concrete arguments (expected one, without open choices)' % len(rets))
            continue
        ctx = rets[0][0]
        launched = L.calls_of(ctx, launchers)
        if len(launched) != 1 or not launched[0][2]:
            rep.undecided('R14.8', key0 + ':launch', 'run_cc1 does not launch exactly one subprocess')
            continue
        a = launched[0][2][0]
        arr = a if isinstance(a, Arr) else (a.place.arr if isinstance(a, _Ref) and isinstance(a.place, ElemPlace) and isinstance(a.place.arr, Arr) and a.place.i == 0 else None)
        copied = any(len(e[2]) >= 2 and (e[2][0] is arr or (isinstance(e[2][0], _Ref) and isinstance(e[2][0].place, ElemPlace) and e[2][0].place.arr is arr))
                     and isinstance(e[2][1], _Ref) and isinstance(e[2][1].place, ElemPlace) and e[2][1].place.arr is argv for e in L.calls_of(ctx, 'memcpy'))
        if arr is None or not copied:
            rep.undecided('R14.8', key0 + ':argument-vector', 'the argument vector handed to %s is not a fresh array that starts with a copy of argv' % launchers[0])
            continue
        tail = list(arr.elems[len(base):])
        while tail and isinstance(tail[-1], int) and tail[-1] == 0:
            tail.pop()
        if any(L.cstr(x) is None for x in tail):
            rep.undecided('R14.8', key0 + ':argument-vector', 'the arguments appended by run_cc1 are not all concrete strings')
            continue
        argv2 = Arr([L.cbuf(x, 'argv') for x in base] + [x if not isinstance(x, str) else L.cbuf(x, 'lit') for x in tail] + [0], label='argv2')
        models = dict(L.string_models())
        models['strarray_push'] = _m_strarray_push
        try:
            it = L.make_interp(P, u, opaque=[f for f in u.functions if f not in pure and f != 'parse_args'], extra_models=models,
                               globals_=_zero_statics(u, {}), loop_limit=1)
            ps = it.explore('parse_args', lambda ctx: [len(argv2.elems) - 1, _Ref(ElemPlace(argv2, 0))], max_paths=200)
        except AnalysisBroken as e:
            rep.undecided('R14.8', key0 + ':parse_args-interpretation', str(e))
            continue
        rets = [(c, o) for c, o in ps if o[0] == 'ret']
        if len(rets) != 1 or rets[0][0].decisions or len(ps) != 1:
            rep.undecided('R14.8', key0 + ':parse_args-paths', 'parse_args on the vector built by run_cc1 (%s) has %d paths, %d returning (expected exactly one, without open choices)'
                          % (' '.join(L.cstr(x) for x in argv2.elems[:-1]), len(ps), len(rets)))
            continue
        g = rets[0][0].globals
        got_in, got_out, got_cc1 = g.get('base_file', 0), g.get('output_file', 0), g.get('opt_cc1', 0)
        shown = ' '.join(L.cstr(x) for x in argv2.elems[:-1])
        rep.ob('R14.8', key0 + (':runs-as-cc1' if got_cc1 else ':not-a-cc1-process'), bool(got_cc1) and not isinstance(got_cc1, (Sym, View)),
               'the child started by run_cc1 (%s) does not take the cc1 role: it would run the whole driver again' % shown, where=w)
        ok = L.cstr(got_in) == src
        rep.ob('R14.8', key0 + (':input-name-handed-over' if ok else ':input-name-lost'), ok,
               'run_cc1(input=%r) starts `%s`, which parse_args reads as base_file=%r: the cc1 process does not compile the input the driver chose' % (src, shown, L.cstr(got_in) if L.cstr(got_in) is not None else got_in), where=w)
        if outname is not None:
            ok = L.cstr(got_out) == outname
            rep.ob('R14.8', key0 + (':output-name-handed-over' if ok else ':output-name-lost'), ok,
                   'run_cc1(output=%r) starts `%s`, which parse_args reads as output_file=%r: the cc1 process writes somewhere else than the file the next stage reads' % (outname, shown, L.cstr(got_out) if L.cstr(got_out) is not None else got_out), where=w)
        else:
            ok = isinstance(got_out, int) and got_out == 0
            rep.ob('R14.8', key0 + (':no-output-name-means-stdout' if ok else ':output-name-invented'), ok,
                   'run_cc1(output=NULL) starts `%s`, which parse_args reads as output_file=%r instead of none (standard output)' % (shown, L.cstr(got_out) if L.cstr(got_out) is not None else got_out), where=w)
