"""C15 Linkage, storage duration and symbol emission (DESIGN.md section 3, C15).

Every rule evaluates the compiler's own source (clang AST) with Engine I on a complete finite
abstract input domain (all combinations of the linkage/storage flags of an `Obj`, of the option
globals, of the declaration attributes) and compares the decision that falls out with an oracle
table.  Nothing is compiled or run."""
import itertools
from ..interp import Interp, Obj, Sym, Term, Lin, View, Cell, Arr, vkey, is_opaque, Infeasible
from ..chibi import CG
from ..build import AnalysisBroken
from ..lib_c15 import A, Agg, lines_of, op_is, op_int, op_val, same, bounds_of, sym_values

CGU = 'codegen.c'
PU = 'parse.c'
MU = 'main.c'


def _need(u, uname, *fns):
    for f in fns:
        if f not in u.functions:
            raise AnalysisBroken('%s: anchor function %s vanished' % (uname, f))


MAX_PATHS = 1500      # every exploration of this module has well under 100 paths on a healthy tree


def _explore(it, fname, mk):
    return it.explore(fname, mk, max_paths=MAX_PATHS)


def _bits(names):
    for combo in itertools.product((0, 1), repeat=len(names)):
        yield dict(zip(names, combo))


def _tyobj(cg, label, name):
    """a single catalogue type as a settled object"""
    v = cg.tcell(label, only=(name,))
    if len(v.cell.cands) != 1:
        raise AnalysisBroken('type catalogue has no entry %s' % name)
    return v.cell.cands[0]


def _nonnull_sym(ctx, name, ctype):
    s = Sym(name, ctype)
    ctx.neq.setdefault(s.key(), set()).add(0)
    return s


# =============================================================================================
# R15.1 data emission table
# =============================================================================================
BIND_DIRS = ('.local', '.globl', '.global')
DATA_DIRS = ('.byte', '.quad', '.long', '.short', '.value', '.word', '.ascii', '.asciz', '.string', '.zero', '.skip', '.space', '.fill')


def _section_of(ln):
    """section selected by a directive line: 'data' | 'bss' | 'tdata' | 'tbss' | 'text' | 'bad:<why>' | None"""
    if ln.kind != 'dir':
        return None
    if ln.head in ('.data', '.bss', '.text') and not ln.ops:
        return ln.head[1:]
    if ln.head in ('.section', '.pushsection'):
        if not ln.ops or ln.ops[0][1]:
            return 'bad:section name is not a literal'
        nm = ln.ops[0][0]
        flags = ln.ops[1][0].strip('"') if len(ln.ops) > 1 else ''
        typ = ln.ops[2][0] if len(ln.ops) > 2 else ''
        if nm in ('.data', '.bss', '.text'):
            return nm[1:]
        if nm in ('.tdata', '.tbss'):
            if not ('T' in flags and 'a' in flags and 'w' in flags):
                return 'bad:%s without the "awT" flags is not a thread-local section' % nm
            if typ and typ != ('@progbits' if nm == '.tdata' else '@nobits'):
                return 'bad:%s with type %s' % (nm, typ)
            return nm[1:]
        return 'bad:unknown section %s' % nm
    return None


ALIGN_DIRS = ('.align', '.balign', '.p2align')


def _outside_section(lines, want):
    """Directives that act on the location counter (alignment, data, labels, instructions) apply to whatever section is
    current where they stand.  The first such line of `lines` that is not governed by a section directive of `lines`
    selecting `want`: (line, section in effect | None = inherited from whatever was emitted before) or None."""
    cur = None
    for l in lines:
        s = _section_of(l)
        if s is not None:
            cur = s
            continue
        acts = l.kind in ('label', 'ins') or (l.kind == 'dir' and l.head in ALIGN_DIRS + DATA_DIRS)
        if acts and cur != want:
            return l, cur
    return None


def _outside_doc(l, cur, want, what):
    where = ('before any section directive of this %s: it acts on the section left current by the previously emitted object' % what) if cur is None else \
            ('while .%s is the current section' % cur)
    kindw = 'alignment padding' if l.head in ALIGN_DIRS else ('a label' if l.kind == 'label' else ('an instruction' if l.kind == 'ins' else 'data'))
    return '`%s` (%s) is emitted %s, not in .%s' % (l.text.strip(), kindw, where, want)


def _binding(lines, namekey):
    """(binding, first_index_of_binding_directive, problem) for the symbol, from its directives:
    global iff .globl; else local iff .local or not a common symbol"""
    glob = [i for i, l in enumerate(lines) if l.kind == 'dir' and l.head in ('.globl', '.global') and l.ops and l.mentions(namekey)]
    loc = [i for i, l in enumerate(lines) if l.kind == 'dir' and l.head == '.local' and l.ops and l.mentions(namekey)]
    comm = [i for i, l in enumerate(lines) if l.kind == 'dir' and l.head == '.comm']
    if glob and loc:
        return 'both', min(glob + loc), 'both .globl and .local are emitted for the symbol'
    if glob:
        return 'global', glob[0], None
    if loc:
        return 'local', loc[0], None
    if comm:
        return 'global', None, None     # .comm without .local declares a global common symbol
    return 'local', None, None          # an undeclared label is a local symbol


def _data_class(fl, fcommon, has_init):
    if fl['is_function']:
        return 'skip-function'
    if not fl['is_definition']:
        return 'skip-declaration'
    if fcommon and fl['is_tentative']:
        return 'common'
    if has_init:
        return 'tdata' if fl['is_tls'] else 'data'
    return 'tbss' if fl['is_tls'] else 'bss'


def _align_ok(ctx, v, tyname, sizev, alignv):
    """is the emitted alignment value v what the psABI asks for on this path?
    returns (ok, case, detail)"""
    cases = []
    if tyname == 'array':
        lo, hi = bounds_of(ctx, sizev)
        if lo is not None and lo >= 16:
            cases = ['large-array']
        elif hi is not None and hi <= 15:
            cases = ['other']
        else:
            cases = ['large-array', 'other']
    else:
        cases = ['other']
    alo, ahi = bounds_of(ctx, alignv)
    for c in cases:
        if c == 'other':
            ok = same(v, alignv) or (isinstance(v, int) and alo == ahi == v)
            if not ok:
                return False, c, 'alignment operand is %r, the object\'s own alignment is %r' % (v, alignv)
        else:
            ok = (same(v, alignv) and alo is not None and alo >= 16) or \
                 (isinstance(v, int) and v == 16 and ahi is not None and ahi <= 16) or \
                 (isinstance(v, int) and v >= 16 and alo == ahi == v)
            if not ok:
                return False, c, ('alignment operand is %r for an array of at least 16 bytes whose declared alignment is %r '
                                  '(known range %s..%s): the psABI requires max(16, alignment)' % (v, alignv, alo, ahi))
    return True, cases[0], ''


def _data_mk(cg, fl, fcommon, has_init, tyname):
    """initial state of an emit_data exploration: the object under test (flags fl) followed by one plain definition"""
    def mk(ctx):
        ctx.c15_fcommon = fcommon
        v = Obj('Obj', lazy=True, label='var')
        v.fields.update(fl)
        v.fields['name'] = Sym('var.name', 'char *')
        v.fields['align'] = Sym('var.align', 'int')
        v.fields['ty'] = _tyobj(cg, 'var.ty', tyname)
        v.fields['init_data'] = _nonnull_sym(ctx, 'var.init_data', 'char *') if has_init else 0
        v.fields['rel'] = 0          # relocations inside initialisers belong to C05
        w = Obj('Obj', lazy=True, label='next')
        w.fields.update(dict(is_function=0, is_definition=1, is_static=0, is_tentative=0, is_tls=0, init_data=0, next=0))
        w.fields['name'] = Sym('next.name', 'char *')
        w.fields['align'] = Sym('next.align', 'int')
        w.fields['ty'] = _tyobj(cg, 'next.ty', 'int')
        v.fields['next'] = w
        ctx.c15_var = v
        return [v]
    return mk


class _Scratch:
    """a report that keeps nothing: lets the path judgement of R15.1 be reused as a predicate"""
    def ob(self, *a, **kw): pass
    def undecided(self, *a, **kw): pass


def _emitted_where_declared(cg, fl, has_init):
    """Does emit_data, evaluated on an object with exactly the flags `fl` (a state R15.1 does not judge because the parser is not
    supposed to build it), still put the object where its declaration demands -- section by (initialiser, _Thread_local), never a common
    symbol for a thread-local or initialised object -- under -fcommon and under -fno-common?  (True, '') | (False, why) | (None, why)"""
    if 'emit_data' not in cg.cu.functions:
        return None, 'emit_data vanished'
    it = cg.interp()
    it.global_init['opt_fcommon'] = lambda ctx: ctx.c15_fcommon
    want = ('tdata' if fl['is_tls'] else 'data') if has_init else ('tbss' if fl['is_tls'] else 'bss')
    NAME1, NAME2 = ('sym', 'var.name'), ('sym', 'next.name')
    for fcommon in (1, 0):
        res = _explore(it, 'emit_data', _data_mk(cg, fl, fcommon, has_init, 'int'))
        rets = [(c, o) for c, o in res if o[0] == 'ret']
        if not rets or len(rets) != len(res):
            return None, 'emit_data has %d returning of %d paths on this state' % (len(rets), len(res))
        for ctx, out in rets:
            ag = Agg(_Scratch(), 'R15.1', CGU, 'emit_data')
            _judge_data_path(it, ctx, ag, want, fl, fcommon, has_init, 'int', NAME1, NAME2, 0)
            if ag.und:
                return None, '; '.join(w for w, _ in ag.und.values())
            bad = [k for k, v in ag.d.items() if not v[0]]
            if bad:
                mine = []
                for l in lines_of(it, ctx):
                    if l.mentions(NAME2):
                        break
                    if l.kind != 'blank':
                        mine.append(l.text.strip())
                return False, 'under %s emit_data turns this state into `%s` instead of an object in .%s (%s)' % (
                    '-fcommon (the default)' if fcommon else '-fno-common', '; '.join(mine[:5]) or 'nothing', want, bad[0])
    return True, ''


def _judge_built_state(cg, ag, prefix, what, F, tls, has_init, fline, facts):
    """R15.1 verifies emit_data on the flag combinations the parser is supposed to build and leaves the others unjudged (a tentative
    object that is thread-local or initialised: emit_data may then take the common-symbol exit before it looks at is_tls / init_data).
    That exclusion is an obligation of every parser site that puts an object on `globals`: the state it builds is either inside the
    verified domain, or emit_data -- evaluated on exactly that state -- still places the object where the declaration demands."""
    cls = '%s/%s' % ('thread-local' if tls else 'ordinary', 'initialised' if has_init else 'no-initialiser')
    key = '%s/emitted-where-declared/%s' % (prefix, cls)
    t = F('is_tentative')
    flags = {k: F(k) for k in ('is_function', 'is_definition', 'is_static', 'is_tentative', 'is_tls')}
    if not all(isinstance(v, int) for v in flags.values()):
        ag.undecided(key, 'the flags of %s are not concrete after the declaration: %r' % (what, flags), fline)
        return
    flags = {k: int(bool(v)) for k, v in flags.items()}
    if not t or not (flags['is_tls'] or has_init):
        # inside the domain R15.1 judges (a tentative ordinary object without initialiser is a local/global common symbol or .bss: same storage)
        ag.note(key, True)
        return
    ok, why = _emitted_where_declared(cg, flags, has_init)
    if ok is None:
        ag.undecided(key, '%s is flagged is_tentative although it is %s, and emit_data could not be evaluated on that state: %s' % (
            what, 'thread-local' if flags['is_tls'] else 'initialised', why), fline)
        return
    ag.note(key, ok,
            '%s (%s) is flagged is_tentative although it %s; %s -- %s; the -fcommon and -fno-common configurations disagree' % (
                what, cls.replace('/', ', '), 'is thread-local' if flags['is_tls'] else 'has an initialiser', why,
                'there are no thread-local common symbols: the object gets ordinary storage shared by all threads while gen_addr still addresses it through '
                '@tpoff/@tlsgd (the assembler rejects the unit)' if flags['is_tls'] else 'a common symbol is zero-filled: the initialiser is lost'),
            fline, facts)


def r151(cg, rep):
    rep.rule('R15.1', 'emit_data decision table: an object is skipped iff it is a function or not a definition; every emitted object gets '
             'local binding iff is_static (else .globl), declared before its .comm/label; .comm iff -fcommon and tentative; else '
             '.data/.bss x thread-local by initialiser and is_tls, with @object type, size, max(16,align) for arrays >= 16 bytes; '
             'every alignment/data directive and the label stand under the object\'s own section directive; the list walk continues after every kind of object', floor=32)
    _need(cg.cu, CGU, 'emit_data')
    fn = cg.cu.fn('emit_data')
    fline = fn.line
    it = cg.interp()
    it.global_init['opt_fcommon'] = lambda ctx: ctx.c15_fcommon
    ag = Agg(rep, 'R15.1', CGU, 'emit_data')
    names = ('is_function', 'is_definition', 'is_static', 'is_tentative', 'is_tls')
    NAME1, NAME2 = ('sym', 'var.name'), ('sym', 'next.name')
    npaths = 0
    for tyname in ('array', 'struct', 'int'):
        for fl in _bits(names):
            for fcommon in (0, 1):
                for has_init in (0, 1):
                    # combinations the parser never builds are not judged
                    if fl['is_tentative'] and (has_init or fl['is_tls'] or not fl['is_definition'] or fl['is_function']):
                        continue
                    if fl['is_function'] and (fl['is_tls'] or has_init):
                        continue
                    if tyname != 'array' and (fl['is_function'] or not fl['is_definition']):
                        continue
                    cls = _data_class(fl, fcommon, has_init)

                    mk = _data_mk(cg, fl, fcommon, has_init, tyname)
                    res = _explore(it, 'emit_data', mk)
                    rets = [(c, o) for c, o in res if o[0] == 'ret']
                    if not rets or len(rets) != len(res):
                        ag.undecided('shape/' + cls, 'emit_data has %d returning and %d non-returning paths for an object of class %s' % (len(rets), len(res) - len(rets), cls), fline)
                        continue
                    for ctx, out in rets:
                        npaths += 1
                        _judge_data_path(it, ctx, ag, cls, fl, fcommon, has_init, tyname, NAME1, NAME2, fline)
    if npaths == 0:
        raise AnalysisBroken('emit_data: no path explored')
    ag.flush(fline)


def _judge_data_path(it, ctx, ag, cls, fl, fcommon, has_init, tyname, NAME1, NAME2, fline):
    lines = [l for l in lines_of(it, ctx) if l.kind != 'blank']
    facts = {'object': dict(fl, opt_fcommon=fcommon, initialised=has_init, type=tyname), 'path': ctx.trail[-6:],
             'emitted': [l.text for l in lines][:24]}
    cut = len(lines)
    for i, l in enumerate(lines):
        if l.mentions(NAME2):
            cut = i; break
    mine, rest = lines[:cut], lines[cut:]
    # the object after this one is still emitted
    nxt = any(l.kind == 'label' and op_is(l.ops[0], A, NAME2) for l in rest)
    ag.note('next-object/' + cls, nxt,
            'after an object of class %s (%s) emit_data stops: the next definition in the list gets no label' % (cls, _show(fl, fcommon, has_init)),
            fline, facts)
    if cls.startswith('skip'):
        ag.note(cls, not mine,
                'an Obj that is %s produces data-section output: %s' % ('a function' if cls == 'skip-function' else 'only a declaration (extern)', '; '.join(l.text.strip() for l in mine[:4])),
                mine[0].src_line if mine else fline, facts)
        return
    link = 'static' if fl['is_static'] else 'external'
    if not mine:
        ag.note('placement/' + cls, False, 'a defined object (%s) is not emitted at all' % _show(fl, fcommon, has_init), fline, facts)
        return
    if any(l.kind not in ('dir', 'label') for l in mine):
        ag.undecided('placement/' + cls, 'emit_data emits something that is neither a directive nor a label: %r' % [l.text for l in mine if l.kind not in ('dir', 'label')][:2], fline)
        return
    unk = [l for l in mine if l.kind == 'dir' and l.head not in BIND_DIRS + DATA_DIRS + ('.comm', '.lcomm', '.type', '.size', '.align', '.balign', '.p2align', '.data', '.bss', '.section')]
    if unk:
        ag.undecided('placement/' + cls, 'directive %s is not in the table of this rule' % unk[0].head, unk[0].src_line)
        return
    # ---- binding ---------------------------------------------------------------------------------
    b, bi, prob = _binding(mine, NAME1)
    want = 'local' if fl['is_static'] else 'global'
    defs = [i for i, l in enumerate(mine) if (l.kind == 'dir' and l.head in ('.comm', '.lcomm')) or l.kind == 'label']
    bkey = 'binding/%s/%s' % (link, cls)
    if b != want:
        if want == 'local':
            msg = ('an object with internal linkage (static, %s) gets %s: %s -- same-named static objects of different '
                   'translation units would be merged / clash at link time') % (cls, 'a GLOBAL common symbol (.comm without a preceding .local)' if cls == 'common' and bi is None else 'global binding', prob or 'no .local before its definition')
        else:
            msg = 'an object with external linkage (%s) is not declared .globl (%s): other translation units cannot reference it' % (cls, prob or 'binding is local')
        ag.note(bkey, False, msg, (mine[defs[0]].src_line if defs else fline), facts)
    elif bi is not None and defs and bi > defs[0] and cls == 'common':
        ag.undecided(bkey, 'the binding directive follows the .comm of the symbol; this rule only knows the .local-before-.comm idiom', mine[bi].src_line)
    else:
        ag.note(bkey, True)
    body = [l for i, l in enumerate(mine) if not (l.kind == 'dir' and l.head in BIND_DIRS)]
    szv = it.settle(ctx.c15_var.fields['ty'].fields.get('size'))
    # ---- placement ----------------------------------------------------------------------------------
    pkey = 'placement/' + cls
    skey = 'symbol-size/' + cls
    comm = [l for l in body if l.kind == 'dir' and l.head in ('.comm', '.lcomm')]
    labels = [l for l in body if l.kind == 'label']
    secs = [(i, _section_of(l)) for i, l in enumerate(body) if _section_of(l) is not None]
    alignv = None
    if cls == 'common':
        ok = len(comm) == 1 and comm[0].head == '.comm' and len(body) == 1 and len(comm[0].ops) == 3 and op_is(comm[0].ops[0], A, NAME1)
        ag.note(pkey, ok, 'a tentative definition under -fcommon must be emitted as exactly one `.comm name, size, align`; emitted: %s' % '; '.join(l.text.strip() for l in body[:5]),
                (body[0].src_line if body else fline), facts)
        if ok:
            ag.note(skey, same(op_val(comm[0].ops[1]), szv), '.comm size operand is %r, the object\'s type has size %r' % (op_val(comm[0].ops[1]), szv), comm[0].src_line, facts)
            alignv = (op_val(comm[0].ops[2]), comm[0].src_line)
    else:
        wantsec = cls
        msg = None
        if comm:
            msg = 'object (%s) is emitted as a common symbol although %s' % (_show(fl, fcommon, has_init), 'it is not a tentative definition' if not fl['is_tentative'] else '-fno-common is in force')
        elif len(labels) != 1 or not op_is(labels[0].ops[0], A, NAME1):
            msg = 'object is not defined by exactly one label carrying its name (labels: %s)' % [l.text.strip() for l in labels]
        elif not secs:
            msg = 'no section directive precedes the definition of the object'
        else:
            li = body.index(labels[0])
            before = [s for i, s in secs if i < li]
            after = [s for i, s in secs if i > li]
            if after:
                msg = 'a section switch follows the label of the object'
            elif not before:
                msg = 'the section directive comes after the label'
            elif before[-1].startswith('bad:'):
                msg = before[-1][4:]
            elif before[-1] != wantsec:
                msg = 'object (%s) is placed in .%s, expected .%s (%s initialiser, %s)' % (_show(fl, fcommon, has_init), before[-1], wantsec, 'with' if has_init else 'without', 'thread-local' if fl['is_tls'] else 'not thread-local')
            else:
                datal = [l for l in body[li + 1:] if l.kind == 'dir' and l.head in DATA_DIRS]
                early = [l for l in body[:li] if l.kind == 'dir' and l.head in DATA_DIRS]
                if early:
                    msg = 'data directive %s precedes the label of the object' % early[0].text.strip()
                elif cls in ('bss', 'tbss'):
                    if not (len(datal) == 1 and datal[0].head in ('.zero', '.skip', '.space') and datal[0].ops and same(op_val(datal[0].ops[0]), szv)):
                        msg = 'a zero-initialised object must reserve exactly its size (%r) with one .zero; emitted: %s' % (szv, [l.text.strip() for l in datal][:3])
                else:
                    if any(l.head in ('.zero', '.skip', '.space') and l.ops and same(op_val(l.ops[0]), szv) for l in datal):
                        msg = 'an initialised object is emitted as zeros'
                al = [l for l in body[:li] if l.kind == 'dir' and l.head in ('.align', '.balign')]
                if msg is None and any(l.kind == 'dir' and l.head == '.p2align' for l in body[:li]):
                    ag.undecided('align/' + cls, 'this rule does not evaluate .p2align', labels[0].src_line)
                    al = []
                    alignv = None
                elif msg is None and len(al) != 1:
                    msg = 'expected exactly one .align before the label, found %d' % len(al)
                elif msg is None:
                    alignv = (op_val(al[0].ops[0]) if al[0].ops else None, al[0].src_line)
        ag.note(pkey, msg is None, msg or '', (labels[0].src_line if labels else fline), facts)
        # every directive of the object that moves the location counter stands under the object's own section directive
        if not comm and len(labels) == 1 and secs and not any(s.startswith('bad:') for _, s in secs) and \
                [s for i, s in secs if i < body.index(labels[0])][-1:] == [wantsec]:
            out = _outside_section(body, wantsec)
            ag.note('in-section/' + cls, out is None,
                    out and (_outside_doc(out[0], out[1], wantsec, 'object') + (': the padding goes to the other section and the object itself starts at an unaligned '
                             'offset of .%s whenever the previous object lives elsewhere' % wantsec if out[0].head in ALIGN_DIRS else '')) or '',
                    (out[0].src_line if out else labels[0].src_line), facts)
        if msg is None:
            ty = [l for l in body if l.kind == 'dir' and l.head == '.type' and l.ops and op_is(l.ops[0], A, NAME1)]
            sz = [l for l in body if l.kind == 'dir' and l.head == '.size' and l.ops and op_is(l.ops[0], A, NAME1)]
            m2 = None
            if not ty or not sz:
                m2 = ('the symbol of a %s object gets no %s: its ELF symbol has type NOTYPE / size 0 instead of OBJECT / sizeof (readelf -s; '
                      'ld warns "type and size of dynamic symbol are not defined" when it is exported from a shared object)') % ('.' + cls, ' and no '.join(x for x, y in (('.type', ty), ('.size', sz)) if not y))
            elif len(ty[0].ops) < 2 or ty[0].ops[1][0] not in ('@object', '%object', '@tls_object'):
                m2 = 'symbol type is %s, expected @object' % (ty[0].ops[1][0] if len(ty[0].ops) > 1 else '?')
            elif len(sz[0].ops) < 2 or not same(op_val(sz[0].ops[1]), szv):
                m2 = '.size operand is %r, the object\'s type has size %r' % (op_val(sz[0].ops[1]) if len(sz[0].ops) > 1 else None, szv)
            ag.note(skey, m2 is None, m2 or '', (labels[0].src_line if labels else fline), facts)
    # ---- alignment --------------------------------------------------------------------------------------
    if alignv is not None:
        v, ln = alignv
        if v is None:
            ag.undecided('align/' + cls, 'alignment operand not recognised', ln)
        else:
            okk, case, detail = _align_ok(ctx, v, tyname, szv, Sym('var.align', 'int'))
            ag.note('align/%s' % case, okk, detail, ln, facts)


def _show(fl, fcommon, has_init):
    return ', '.join(['static' if fl.get('is_static') else 'external'] + (['tentative'] if fl.get('is_tentative') else []) +
                     (['thread-local'] if fl.get('is_tls') else []) + (['initialised'] if has_init else []) +
                     ['-fcommon' if fcommon else '-fno-common'])


# =============================================================================================
# R15.2 text emission
# =============================================================================================
def r152(cg, rep):
    rep.rule('R15.2', 'emit_text: a function is emitted iff is_function and is_definition and is_live; binding by is_static; in .text, '
             'typed @function, one entry label, nothing that moves the location counter before the .text directive; current_fn designates it while its body is generated; the walk continues after every kind of entry', floor=15)
    _need(cg.cu, CGU, 'emit_text', 'codegen')
    fn = cg.cu.fn('emit_text')
    fline = fn.line

    def h_stmt(it, ctx, n, args):
        ctx.emit('gen_stmt', args[0], n.line, ctx.globals.get('current_fn'))
        return None
    it = cg.interp(extra_cut={'gen_stmt': h_stmt})
    ag = Agg(rep, 'R15.2', CGU, 'emit_text')
    NAME1, NAME2 = ('sym', 'fn.name'), ('sym', 'next.name')
    n = 0
    for fl in _bits(('is_function', 'is_definition', 'is_live', 'is_static')):
        if fl['is_function'] and fl['is_definition'] and not fl['is_live'] and not fl['is_static']:
            continue        # R15.3: only static inline functions can be left unmarked by parse()

        def mk(ctx, fl=fl):
            def func(label, **kw):
                f = Obj('Obj', lazy=True, label=label)
                f.fields.update(kw)
                f.fields['name'] = Sym(label + '.name', 'char *')
                f.fields['params'] = 0          # prologue parameter spilling belongs to C06
                f.fields['va_area'] = 0
                f.fields['alloca_bottom'] = Obj('Obj', lazy=True, label=label + '.alloca_bottom')
                f.fields['body'] = cg.node(label + '.body')
                return f
            f = func('fn', **fl)
            if not fl['is_live']:
                f.fields['is_root'] = 0     # parse() has marked every root live
            f.fields['next'] = func('next', is_function=1, is_definition=1, is_live=1, is_static=0, next=0)
            ctx.c15_fn = f
            return [f]
        res = _explore(it, 'emit_text', mk)
        emit = fl['is_function'] and fl['is_definition'] and fl['is_live']
        cls = ('emit/' + ('static' if fl['is_static'] else 'external')) if emit else \
              ('skip/' + ('not-a-function' if not fl['is_function'] else ('declaration' if not fl['is_definition'] else 'not-live')))
        rets = [(c, o) for c, o in res if o[0] == 'ret']
        if not rets:
            ag.undecided('shape/' + cls, 'emit_text has no returning path for this class', fline)
            continue
        for ctx, out in rets:
            n += 1
            lines = [l for l in lines_of(it, ctx) if l.kind != 'blank']
            evs = [e for e in ctx.events if e[0] in ('emit', 'gen_stmt')]
            facts = {'function': fl, 'path': ctx.trail[-6:], 'emitted': [l.text for l in lines][:12]}
            cut = len(lines)
            for i, l in enumerate(lines):
                if l.mentions(NAME2):
                    cut = i; break
            mine, rest = lines[:cut], lines[cut:]
            ag.note('next-function/' + cls, any(l.kind == 'label' and op_is(l.ops[0], A, NAME2) for l in rest),
                    'after a list entry of class %s emit_text stops: the next live function definition gets no label' % cls, fline, facts)
            body_ev = [e for e in ctx.events if e[0] == 'gen_stmt' and isinstance(e[1], Obj) and e[1].label == 'fn.body']
            if not emit:
                why = 'is not a function' if not fl['is_function'] else ('has no body' if not fl['is_definition'] else 'is a static inline function nobody references (is_live is false)')
                ag.note(cls, not mine and not body_ev, 'emit_text produces code for an Obj that %s: %s' % (why, '; '.join(l.text.strip() for l in mine[:4])),
                        mine[0].src_line if mine else fline, facts)
                continue
            labels = [i for i, l in enumerate(mine) if l.kind == 'label' and op_is(l.ops[0], A, NAME1)]
            if not mine or not labels:
                ag.note(cls, False, 'a live function definition (%s) is not emitted: no entry label' % ('static' if fl['is_static'] else 'external'), fline, facts)
                continue
            ag.note(cls, len(labels) == 1, 'the entry label is emitted %d times' % len(labels), mine[labels[0]].src_line, facts)
            li = labels[0]
            b, bi, prob = _binding(mine, NAME1)
            want = 'local' if fl['is_static'] else 'global'
            if b != want:
                msg = ('a static function is declared .globl (%s): same-named static functions of two translation units clash at link time' % (prob or '')) if want == 'local' else \
                      'a function with external linkage is not declared .globl: other translation units cannot call it'
                ag.note('binding/' + ('static' if fl['is_static'] else 'external'), False, msg, mine[li].src_line, facts)
            else:
                ag.note('binding/' + ('static' if fl['is_static'] else 'external'), True)
            secs = [(i, _section_of(l)) for i, l in enumerate(mine) if _section_of(l) is not None]
            before = [s for i, s in secs if i < li]
            msg = None
            if not before:
                msg = 'no section directive precedes the entry label'
            elif before[-1] != 'text':
                msg = 'the function is placed in .%s, not .text' % before[-1]
            elif [s for i, s in secs if i > li]:
                msg = 'a section switch follows the entry label'
            elif any(l.kind == 'ins' for l in mine[:li]):
                msg = 'instructions precede the entry label'
            ag.note('section/text', msg is None, msg or '', mine[li].src_line, facts)
            if msg is None:
                out = _outside_section(mine, 'text')
                ag.note('in-section/text', out is None, out and _outside_doc(out[0], out[1], 'text', 'function') or '', (out[0].src_line if out else mine[li].src_line), facts)
            ty = [l for l in mine if l.kind == 'dir' and l.head == '.type' and l.ops and op_is(l.ops[0], A, NAME1)]
            ag.note('type/function', bool(ty) and len(ty[0].ops) > 1 and ty[0].ops[1][0] in ('@function', '%function'),
                    'the symbol is not typed @function (%s): it is not callable through the PLT of a shared object and tools treat it as data' % ([l.text.strip() for l in ty] or 'no .type'),
                    mine[li].src_line, facts)
            cf = [e for e in body_ev]
            okc = len(cf) == 1 and cf[0][3] is ctx.c15_fn
            ag.note('context/current_fn', okc,
                    'the body is generated %s: return jumps, alloca and va_start would refer to another function' % ('%d times' % len(cf) if len(cf) != 1 else 'while current_fn is %r, not the function being emitted' % (cf[0][3],)),
                    cf[0][2] if cf else fline, facts)
    if n == 0:
        raise AnalysisBroken('emit_text: no path explored')
    ag.flush(fline)
    # ---- codegen(): both emitters run once over the whole program, after frame layout, writing to the given file
    ag = Agg(rep, 'R15.2', CGU, 'codegen')
    fline = cg.cu.fn('codegen').line
    if 'emit_data' not in cg.cu.functions or 'assign_lvar_offsets' not in cg.cu.functions:
        ag.undecided('phases', 'emit_data / assign_lvar_offsets vanished: the phases of codegen() cannot be recognised', fline)
        ag.flush(fline)
        return

    def rec(name):
        def h(it, ctx, n, args):
            ctx.emit('phase', name, _final(it, args[0]), ctx.globals.get('output_file'), n.line)
            return None
        return h
    ce = UnitEnv(cg.P, cg, CGU)
    it = ce.interp(('codegen',), loop_limit=1,
                   cut={'emit_data': rec('emit_data'), 'emit_text': rec('emit_text'), 'assign_lvar_offsets': rec('assign_lvar_offsets'),
                        'println': lambda it_, ctx, n, args: None})

    def mk(ctx):
        ctx.c15_prog = Obj('Obj', lazy=True, label='prog')
        ctx.c15_out = Sym('out', 'FILE *')
        return [ctx.c15_prog, ctx.c15_out]
    res = _explore(it, 'codegen', mk)
    rets = [(c, o) for c, o in res if o[0] == 'ret']
    if not rets:
        ag.undecided('phases', 'codegen() has no returning path', fline)
    for ctx, out in rets:
        ph = [e for e in ctx.events if e[0] == 'phase']
        names = [e[1] for e in ph]
        facts = {'phases': names, 'path': ctx.trail[-4:]}
        ok = names.count('emit_data') == 1 and names.count('emit_text') == 1 and all(e[2] is ctx.c15_prog for e in ph)
        ag.note('phases/data-and-text-once', ok, 'codegen() runs %s: every object and every live function of the program must be emitted exactly once' % (names or 'no emitter'), fline, facts)
        if ok:
            ag.note('phases/frame-layout-first', 'assign_lvar_offsets' in names and names.index('assign_lvar_offsets') < names.index('emit_text'),
                    'emit_text runs before assign_lvar_offsets: local variables are addressed with offset 0', fline, facts)
            ag.note('phases/output-file', all(e[3] is not None and same(e[3], ctx.c15_out) for e in ph if e[1] != 'assign_lvar_offsets'),
                    'the emitters run while output_file is not the stream given to codegen()', fline, facts)
    ag.flush(fline)


# =============================================================================================
# R15.4 address forms
# =============================================================================================
def _rsp_adjust(l):
    """bytes by which the instruction moves %rsp (negative: reserves stack), or None: `sub/add $n, %rsp`, `push r`, `pop r`"""
    import re
    if l.kind != 'ins':
        return None
    if l.head in ('sub', 'subq', 'add', 'addq') and len(l.ops) == 2 and l.ops[1] == ('%rsp', []) and not l.ops[0][1] and re.match(r'^\$\d+$', l.ops[0][0]):
        n = int(l.ops[0][0][1:])
        return -n if l.head.startswith('sub') else n
    if l.head in ('push', 'pushq', 'pop', 'popq') and len(l.ops) == 1 and not l.ops[0][1] and re.match(r'^%r[a-z0-9]+$', l.ops[0][0]):
        return -8 if l.head.startswith('push') else 8
    return None


def _addr_form(lines, NAME, OFF, stack=None):
    """symbolic evaluation of the emitted sequence: which address ends up in %rax?
    returns (form, None) | ('garbage', description) | (None, unknown instruction).
    stack (a dict, filled when given): 'adjusts' the sequence moves %rsp, 'at_call' [bytes reserved by the sequence at each call it makes],
    'net' bytes still reserved at its end (negative: it released more than it reserved), 'over' it released stack it had not reserved"""
    import re
    L = [l for l in lines if l.kind != 'blank']
    regs = {}
    st = stack if stack is not None else {}
    st.update(adjusts=False, at_call=[], net=0, over=False, complete=False)
    reserved = 0

    def sym(a, key, what):
        if vkey(a) != key:
            raise _Garbage('%s is formed with %r instead of the variable\'s %s' % (what, a, 'name' if key == NAME else 'frame offset'))

    def operand(op):
        sh, aa = op
        if sh == A + '(%rbp)':
            sym(aa[0], OFF, 'the frame address'); return ('frame',)
        if re.match(r'^-?\d+\(%rbp\)$', sh) and not aa:
            raise _Garbage('a constant frame offset %s is used instead of the variable\'s offset' % sh)
        for suffix, kind in (('(%rip)', 'pcrel'), ('@GOTPCREL(%rip)', 'gotslot'), ('@tlsgd(%rip)', 'tlsgd'), ('@gottpoff(%rip)', 'gottpoffslot')):
            if sh == A + suffix:
                sym(aa[0], NAME, 'the symbol reference'); return (kind,)
        if sh == '$' + A + '@tpoff':
            sym(aa[0], NAME, 'the TLS offset'); return ('imm-tpoff',)
        if sh == '%fs:0' and not aa:
            return ('mem-tp',)
        if re.match(r'^%[a-z0-9]+$', sh) and not aa:
            return ('reg', sh)
        return None

    def value(o, lea=False):
        k = o[0]
        if lea:
            return {'frame': ('frame-addr',), 'pcrel': ('addr-pcrel',), 'tlsgd': ('tlsgd-arg',)}.get(k)
        if k == 'reg':
            return regs.get(o[1], ('undefined', o[1]))
        return {'frame': ('load-frame',), 'gotslot': ('addr-via-got',), 'gottpoffslot': ('tpoff-via-got',), 'mem-tp': ('tp',), 'imm-tpoff': ('tpoff',)}.get(k)
    try:
        for l in L:
            if l.kind == 'dir':
                if l.head in ('.value', '.word', '.short', '.byte') and len(l.ops) == 1 and not l.ops[0][1]:
                    continue            # padding prefixes of the general-dynamic pattern
                return None, l.text.strip()
            if l.kind != 'ins':
                return None, l.text.strip()
            h = l.head
            if h == 'rex64' and not l.ops:
                continue
            adj = _rsp_adjust(l)
            if adj is not None:
                # padding around a call: the stack pointer moves, no value of the address computation does (a popped register holds what was on the stack)
                st['adjusts'] = True
                reserved -= adj
                st['net'] = reserved
                if reserved < 0:
                    st['over'] = True
                if h.startswith('pop'):
                    regs[l.ops[0][0]] = ('popped',)
                continue
            if h.startswith('data16 '):
                h = h[7:]
            if h in ('mov', 'movq', 'lea', 'leaq', 'add', 'addq') and len(l.ops) == 2:
                src, dst = operand(l.ops[0]), operand(l.ops[1])
                if src is None or dst is None or dst[0] != 'reg':
                    return None, l.text.strip()
                v = value(src, lea=h.startswith('lea'))
                if v is None:
                    return None, l.text.strip()
                if h.startswith('add'):
                    old = regs.get(dst[1], ('undefined', dst[1]))
                    v = ('sum', frozenset([old, v]))
                regs[dst[1]] = v
                continue
            if h == 'call' and len(l.ops) == 1 and not l.ops[0][1] and l.ops[0][0].lower() == '__tls_get_addr@plt':
                regs['%rax'] = ('tls-addr', regs.get('%rdi', ('undefined', '%rdi')))
                st['at_call'].append(reserved)
                continue
            return None, l.text.strip()
        st['complete'] = True
    except _Garbage as g:
        return 'garbage', str(g)
    r = regs.get('%rax')
    if r is None:
        return 'garbage', 'nothing is left in %rax'
    simple = {('load-frame',): 'frame-load', ('frame-addr',): 'frame-lea', ('addr-via-got',): 'got', ('addr-pcrel',): 'rip'}
    if r in simple:
        return simple[r], None
    if r == ('sum', frozenset([('tp',), ('tpoff',)])):
        return 'tls-le', None
    if r == ('sum', frozenset([('tp',), ('tpoff-via-got',)])):
        return 'tls-ie', None
    if r == ('tls-addr', ('tlsgd-arg',)):
        # stack padding may surround the pattern (it is outside the 16 bytes the linker rewrites), never split it
        while L and _rsp_adjust(L[0]) is not None:
            L = L[1:]
        while L and _rsp_adjust(L[-1]) is not None:
            L = L[:-1]
        heads = [(l.head, [o[0] for o in l.ops]) for l in L]
        canon = len(L) == 4 and heads[0][0] in ('data16 lea', 'data16 leaq') and heads[0][1][1:] == ['%rdi'] and heads[1][0] in ('.value', '.word', '.short') and \
            heads[1][1] == ['0x6666'] and heads[2] == ('rex64', []) and heads[3][0] == 'call'
        if not canon:
            return 'garbage', ('the general-dynamic call is not the exact 16-byte pattern `data16 lea x@tlsgd(%rip),%rdi; .value 0x6666; rex64; call __tls_get_addr@PLT` '
                               'the TLS ABI prescribes (the linker rewrites these bytes when it relaxes the access in an executable)')
        return 'tls-gd', None
    return 'garbage', 'the value left in %%rax is %s, which is not the address of the variable' % _show_val(r)


class _Garbage(Exception):
    pass


def _show_val(r):
    if r[0] == 'sum':
        return ' + '.join(sorted(_show_val(x) for x in r[1]))
    if r[0] == 'undefined':
        return '<previous contents of %s>' % r[1]
    if r[0] == 'tls-addr':
        return '__tls_get_addr(%s)' % _show_val(r[1])
    return {'popped': 'a value popped from the stack', 'tp': 'thread pointer', 'tpoff': 'x@tpoff', 'tpoff-via-got': 'x@gottpoff', 'tlsgd-arg': '&x@tlsgd', 'load-frame': 'load of off(%rbp)',
            'frame-addr': 'off(%rbp)', 'addr-via-got': 'GOT(x)', 'addr-pcrel': 'x(%rip)'}.get(r[0], repr(r))


FORM_DOC = {
    'frame-load': 'load of the VLA base pointer from the frame (`mov off(%rbp), %rax`)',
    'frame-lea': 'frame-relative address (`lea off(%rbp), %rax`)',
    'tls-gd': 'general-dynamic TLS sequence (`data16 lea x@tlsgd(%rip),%rdi; .value 0x6666; rex64; call __tls_get_addr@PLT`)',
    'got': 'address loaded from the GOT (`mov x@GOTPCREL(%rip), %rax`)',
    'tls-le': 'local-exec TLS (`mov %fs:0,%rax; add $x@tpoff,%rax`)',
    'tls-ie': 'initial-exec TLS (`mov x@gottpoff(%rip),%rax; add %fs:0,%rax`)',
    'rip': 'RIP-relative address (`lea x(%rip), %rax`)',
}


def _want_addr(vla, local, fpic, tls, func, defn, static):
    """(required form, other acceptable forms, cell name)"""
    if vla:
        return 'frame-load', (), 'vla'
    if local:
        return 'frame-lea', (), 'local'
    d = 'defined' if defn else 'extern'
    if fpic:
        if tls:
            return 'tls-gd', (), 'pic+tls/' + d
        # a symbol with internal linkage that is defined here cannot be interposed: RIP-relative is as good as the GOT
        return 'got', (('rip',) if (static and defn) else ()), 'pic/%s-%s' % (d, 'function' if func else 'object')
    if tls:
        # local-exec (a link-time constant offset from the thread pointer) exists only for a variable that is part of the executable's own TLS block: one defined
        # in this unit.  A thread-local that is only declared here may be defined by a shared object -- its offset is known at load time only: initial-exec
        # (the linker relaxes it to local-exec when the definition turns out to be in the executable); the general-dynamic call is correct everywhere
        if defn:
            return 'tls-le', ('tls-ie', 'tls-gd'), 'tls/' + d
        return 'tls-ie', ('tls-gd',), 'tls/' + d
    if func:
        return ('rip' if defn else 'got'), (('got',) if defn else ()), 'function/' + d
    return 'rip', (), 'object/' + d


DEPTH_DOMAIN = range(0, 64)


def _stack_of_addr(ag, ctx, key, cell, stk, lines, sl, facts):
    """the stack pointer around an address computation that calls (__tls_get_addr) or moves %rsp: what the sequence reserves it releases, and
    at the call %rsp is a multiple of 16 for every number of temporaries (`depth`, 8 bytes each, on a frame that is aligned at depth 0) the path is taken for"""
    em = '; '.join(l.text.strip() for l in lines)
    ag.note(key + '/stack-released', stk['net'] == 0 and not stk['over'],
            'for a %s: the sequence %s (emitted: %s) -- every temporary pushed by the enclosing expression and every local is addressed at the wrong place afterwards'
            % (_cell_doc(cell), 'releases stack it has not reserved' if stk['over'] else 'leaves %%rsp %d bytes below where it was' % stk['net'], em), sl, facts)
    if not stk['at_call']:
        return
    ds = sym_values(ctx, 'depth0', DEPTH_DOMAIN)
    if ds is None:
        ag.undecided(key + '/call-aligned', 'the path %s depends on `depth` in a way this rule cannot evaluate' % (ctx.trail[-3:],), sl)
        return
    if not ds:
        ag.undecided(key + '/call-aligned', 'the path %s is taken for no depth in 0..%d' % (ctx.trail[-3:], DEPTH_DOMAIN[-1]), sl)
        return
    bad = [(d, r) for d in ds for r in stk['at_call'] if (8 * d + r) % 16 != 0]
    msg = ''
    if bad:
        d, r = bad[0]
        msg = ('for a %s: at `call __tls_get_addr@PLT` %%rsp is %d modulo 16 when %d temporar%s of the enclosing expression %s on the stack (depth=%d; the sequence reserves %d '
               'bytes before the call on this path; emitted: %s) -- the psABI requires a 16-byte aligned stack at every call'
               % (_cell_doc(cell), (-(8 * d + r)) % 16, d, 'y' if d == 1 else 'ies', 'is' if d == 1 else 'are', d, r, em))
    ag.note(key + '/call-aligned', not bad, msg, sl, dict(facts, depths=('%d..%d' % (ds[0], ds[-1]) if len(ds) == len(DEPTH_DOMAIN) else ds[:8]), reserved_at_call=stk['at_call']))


def r154(cg, rep):
    rep.rule('R15.4', 'gen_addr(ND_VAR) address forms: VLA -> pointer loaded from the frame; local -> lea off(%rbp); -fPIC and thread-local -> general-dynamic '
             'sequence (for every thread-local variable, defined here or not); -fPIC -> GOT; thread-local defined in this unit -> local-exec, only declared here (it may live in a '
             'shared object) -> initial-exec; function without a definition in this unit -> GOT; otherwise RIP-relative; a sequence that calls __tls_get_addr does so with %rsp a multiple '
             'of 16 for every number of temporaries on the stack, and releases the padding it reserves', floor=14)
    _need(cg.cu, CGU, 'gen_addr')
    fline = cg.cu.fn('gen_addr').line
    ag = Agg(rep, 'R15.4', CGU, 'gen_addr')
    NAME, OFF = ('sym', 'var.name'), ('sym', 'var.offset')
    n = 0
    for tyname in ('vla', 'func', 'int', 'array'):
        for fl in _bits(('is_local', 'is_tls', 'is_definition', 'fpic', 'is_static')):
            vla, func = tyname == 'vla', tyname == 'func'
            # typing relation: a VLA is always a local; functions and thread-locals are never locals; functions are not thread-local
            if vla and not fl['is_local']:
                continue
            if fl['is_local'] and (func or fl['is_tls'] or not fl['is_definition']):
                continue
            if func and fl['is_tls']:
                continue
            if fl['is_static'] and (fl['is_local'] or not fl['is_definition']):
                continue        # internal linkage implies a definition in this unit; locals have no linkage

            def mk(ctx, fl=fl, tyname=tyname):
                nd = cg.node('node', 'ND_VAR')
                ty = _tyobj(cg, 'var.ty', tyname)
                v = Obj('Obj', lazy=True, label='var')
                v.fields.update(dict(is_local=fl['is_local'], is_tls=fl['is_tls'], is_definition=fl['is_definition'], is_static=fl['is_static'], is_function=int(tyname == 'func'),
                                     name=Sym('var.name', 'char *'), offset=Sym('var.offset', 'int'), ty=ty))
                nd.fields['var'] = v
                nd.fields['ty'] = ty
                return nd
            it = cg.interp()

            def mkroot(ctx, mk=mk):
                nd = mk(ctx)
                nd.meta['root'] = True
                return [nd]
            res = _explore(it, 'gen_addr', mkroot)
            want, also, cell = _want_addr(vla, fl['is_local'], fl['fpic'], fl['is_tls'], func, fl['is_definition'], fl['is_static'])
            key = 'ND_VAR/' + cell
            got_any = False
            for ctx, out in res:
                pic = ctx.globals.get('opt_fpic')
                pic = it.settle(pic) if pic is not None else None
                if isinstance(pic, View):
                    # the flag was read but never decided on this path: both values possible
                    pic = None
                if pic is not None and pic != fl['fpic']:
                    continue
                if out[0] != 'ret':
                    ag.note(key, False, 'gen_addr does not return for a variable reference (%s): %s' % (cell, out[1]), out[3] if len(out) > 3 else fline, {'path': ctx.trail})
                    got_any = True
                    continue
                got_any = True
                n += 1
                lines = lines_of(it, ctx)
                stk = {}
                form, detail = _addr_form(lines, NAME, OFF, stk)
                facts = {'variable': dict(fl, type=tyname), 'path': ctx.trail[-6:], 'emitted': [l.text for l in lines]}
                sl = lines[0].src_line if lines else fline
                if stk['complete'] and (stk['adjusts'] or stk['at_call']):
                    _stack_of_addr(ag, ctx, key, cell, stk, lines, sl, facts)
                if form is None:
                    if not lines:
                        ag.note(key, False, 'no address is formed for a variable reference of class %s' % cell, sl, facts)
                    else:
                        ag.undecided(key, '`%s` is not an instruction this rule can evaluate' % detail, sl)
                    continue
                if form == 'garbage':
                    ag.note(key, False, 'for a %s: %s (emitted: %s)' % (_cell_doc(cell), detail, '; '.join(l.text.strip() for l in lines)), sl, facts)
                    continue
                msg = ''
                if form != want and form not in also:
                    msg = 'for a %s the code generator forms a %s; required: %s' % (_cell_doc(cell), FORM_DOC[form], FORM_DOC[want])
                    if want == 'tls-ie':
                        msg += (' -- the variable is not defined in this unit (`extern _Thread_local`): when a shared object defines it, `x@tpoff` is not a link-time constant and '
                                'ld rejects the unit (unresolvable R_X86_64_TPOFF32 relocation)')
                    if want == 'tls-gd':
                        msg += ' -- local-exec/GOT forms of a thread-local address cannot be linked into a shared object or address the wrong storage'
                ag.note(key, form == want or form in also, msg, sl, facts)
            if not got_any:
                ag.undecided(key, 'no path of gen_addr matches opt_fpic=%d' % fl['fpic'], fline)
    if n == 0:
        raise AnalysisBroken('gen_addr: no ND_VAR path explored')
    ag.flush(fline)


def _cell_doc(cell):
    return {'vla': 'variable-length array', 'local': 'local variable'}.get(cell) or \
        ('%s under -fPIC' % cell[4:].replace('/', ' ').replace('-', ' ') if cell.startswith('pic/') else
         ('thread-local variable (%s) under -fPIC' % cell.split('/')[1] if cell.startswith('pic+tls/') else
          ('thread-local variable (%s), non-PIC' % cell.split('/')[1] if cell.startswith('tls/') else
           '%s (%s), non-PIC' % tuple(cell.split('/')))))


# =============================================================================================
# R15.3 liveness of static inline functions
# =============================================================================================
class UnitEnv:
    """Engine I over one unit with every function opaque except the ones under analysis and the private helpers
    only they call (so that extracting a helper from an analysed function does not blind the rule)"""

    def __init__(self, P, cg, uname):
        self.P = P; self.cg = cg
        self.u = P.unit(uname)
        self.E = self.u.enums
        self.all = set()
        for un in P.unit_names:
            self.all |= set(P.unit(un).functions)
        self.callers = {}
        for f, fd in self.u.functions.items():
            for n in fd.walk():
                if n.kind == 'DeclRefExpr' and n.ref_kind == 'FunctionDecl' and n.ref_name in self.u.functions:
                    self.callers.setdefault(n.ref_name, set()).add(f)

    def inlined(self, keep, blocked):
        s = set(keep)
        changed = True
        while changed:
            changed = False
            for g in self.u.functions:
                if g in s or g in blocked:
                    continue
                cs = self.callers.get(g, set()) - {g}
                if cs and cs <= s:
                    s.add(g); changed = True
        return s

    def interp(self, keep, cut=None, globals_=None, models=None, opaque=(), **kw):
        cut = cut or {}
        models = models or {}
        inl = self.inlined(keep, set(opaque) | set(cut) | set(models))
        cfg = {'opaque': self.all - inl, 'cut': cut, 'lazy_field': self.cg.lazy_field if self.cg else None, 'track_stores': True,
               'globals': globals_ or {}, 'models': models}
        cfg.update(kw)
        it = Interp(self.P, self.u, cfg)
        it.c15_inlined = inl - set(keep)
        return it


def ParseEnv(P, cg):
    return UnitEnv(P, cg, PU)


def _fresh_bool(ctx, what):
    return View(Cell([0, 1], ctx.fresh(what)))


def _final(it, v):
    v = it.settle(v) if isinstance(v, View) else v
    if isinstance(v, bool):
        v = int(v)
    return v


def _some_fn_type(pe, ctx, label='earlier-type'):
    """the type an already declared function carries: a function type whose parameter list is present or absent (`f()`), variadic or not -- left open, so that code
    reading it is explored for each case, without enumerating the whole type catalogue for a field that can only hold a function type"""
    ty = Obj('Type', lazy=True, label=label)
    ty.fields['return_ty'] = _tyobj(pe.cg, label + '.return_ty', 'int')
    ty.fields['params'] = View(Cell([0, Obj('Type', lazy=True, label=label + '.params')], ctx.fresh(label + '.params'), names={0: 'NULL'}))
    ty.fields['is_variadic'] = _fresh_bool(ctx, label + '.is_variadic')
    if 'TY_FUNC' in pe.E:
        ty.fields['kind'] = pe.E['TY_FUNC']
    ty.meta['cat'] = 'func'
    return ty


def r153_function(pe, rep):
    """is_root computation, monotonicity, and the recording context (current_fn) in function()"""
    u = pe.u
    fline = u.fn('function').line
    ag = Agg(rep, 'R15.3', PU, 'function')
    lk = Agg(rep, 'R15.8', PU, 'function')          # linkage across redeclarations
    npaths = 0
    # the states an earlier declaration can have left: those that sequences of declarations and file-scope references produce (every flag of the Obj concrete,
    # also flags this module does not know); if they cannot be computed, every combination of the four flags the rules below read
    try:
        reach = _reachable_fn_states(pe)
    except AnalysisBroken:
        reach = None
    need = ('is_static', 'is_inline', 'is_root', 'is_definition')
    if reach and all(all(isinstance(dict(st).get(k), int) for k in need) for st in reach):
        olds0 = [dict(st) for st in reach]
    else:
        olds0 = list(_bits(need))
    for isdef in (0, 1):
        for attr in _bits(('is_static', 'is_inline', 'is_extern')):
            olds = [None] + olds0
            for old in olds:
                if old is not None:
                    # states function() itself can have produced earlier; an existing root mark on a static inline function
                    # comes from a file-scope reference (primary)
                    if not (old['is_static'] and old['is_inline']) and not old['is_root']:
                        continue

                def h_find(it, ctx, n, args):
                    ctx.emit('find', args[0] if args else None, n.line)
                    return ctx.c15_old

                def h_equal(it, ctx, n, args, isdef=isdef):
                    if args[0] is ctx.c15_tok and args[1] == '{':
                        return isdef
                    if args[0] is ctx.c15_tok and isinstance(args[1], str):
                        return 0
                    return _fresh_bool(ctx, 'equal')

                def h_consume(it, ctx, n, args, isdef=isdef):
                    if args[2] == ';':
                        return 0 if isdef else 1
                    return _fresh_bool(ctx, 'consume')

                def h_decl(it, ctx, n, args):
                    ty = Obj('Type', lazy=True, label='ty')
                    ty.fields['name'] = Obj('Token', lazy=True, label='ty.name')
                    ty.fields['return_ty'] = _tyobj(pe.cg, 'ty.return_ty', 'int')
                    ty.fields['is_variadic'] = 0
                    ty.meta['cat'] = 'func'
                    return ty

                def h_body(it, ctx, n, args):
                    ctx.emit('body', ctx.globals.get('current_fn', ctx.c15_cf0), n.line)
                    return Obj('Node', lazy=True, label='body')
                it = pe.interp(('function', 'new_gvar', 'new_var'), opaque=('create_param_lvars', 'resolve_goto_labels'),
                               cut={'find_func': h_find, 'equal': h_equal, 'consume': h_consume, 'declarator': h_decl, 'compound_stmt': h_body},
                               globals_={'current_fn': lambda ctx: ctx.c15_cf0})

                def mk(ctx, old=old, attr=attr, isdef=isdef):
                    ctx.c15_tok = Obj('Token', lazy=True, label='tok')
                    if old is None:
                        ctx.c15_old = 0
                    else:
                        o = Obj('Obj', lazy=True, label='earlier-declaration')
                        o.fields.update(old)
                        o.fields['is_function'] = 1
                        o.fields.setdefault('ty', _some_fn_type(pe, ctx))
                        ctx.c15_old = o
                    # a definition is parsed at file scope (no enclosing function); a prototype may also stand inside a function body
                    ctx.c15_cf0 = 0 if isdef else Obj('Obj', lazy=True, label='enclosing-function')
                    a = Obj('VarAttr', lazy=True, label='attr')
                    a.fields.update(attr)
                    return [ctx.c15_tok, Obj('Type', lazy=True, label='basety'), a]
                res = _explore(it, 'function', mk)
                for ctx, out in res:
                    if out[0] != 'ret':
                        continue          # diagnosed redeclaration conflicts
                    npaths += 1
                    cf_end = ctx.globals.get('current_fn', ctx.c15_cf0)
                    cf_end = _final(it, cf_end)
                    facts = {'declaration': dict(attr, has_body=isdef), 'earlier': old, 'path': ctx.trail[-5:]}
                    if old is None:
                        f = _final(it, ctx.globals.get('globals'))
                        if not isinstance(f, Obj) or f.lazy:
                            ag.undecided('new-function-object', 'the Obj created for a first declaration was not found in `globals`', fline)
                            continue
                        st = _final(it, f.fields.get('is_static', 0)); inl = _final(it, f.fields.get('is_inline', 0))
                        want_st = int(attr['is_static'] or (attr['is_inline'] and not attr['is_extern']))
                        ag.note('linkage/first-declaration', st == want_st and inl == attr['is_inline'] and _final(it, f.fields.get('is_function', 0)) == 1 and _final(it, f.fields.get('is_definition', 0)) == isdef,
                                'a function first declared %s gets is_static=%r is_inline=%r is_function=%r is_definition=%r; expected is_static=%d (static, or inline without extern), is_inline=%d, is_function=1, is_definition=%d'
                                % (_attr_doc(attr, isdef), st, inl, f.fields.get('is_function', 0), f.fields.get('is_definition', 0), want_st, attr['is_inline'], isdef), fline, facts)
                        r0 = 0
                    else:
                        f = ctx.c15_old
                        st = _final(it, f.fields.get('is_static')); inl = _final(it, f.fields.get('is_inline'))
                        r0 = old['is_root']
                        ag.note('definition-flag/redeclaration', _final(it, f.fields.get('is_definition')) == int(old['is_definition'] or isdef),
                                'after a redeclaration %s a body is_definition is %r (was %d)' % ('with' if isdef else 'without', f.fields.get('is_definition'), old['is_definition']), fline, facts)
                        _judge_redeclared_linkage(it, ctx, lk, f, old, attr, isdef, st, fline, facts)
                    _judge_lookup_name(it, ctx, lk, fline, facts)
                    root = _final(it, f.fields.get('is_root', 0))
                    if not all(isinstance(x, int) for x in (st, inl, root)):
                        ag.undecided('is_root', 'linkage flags are not concrete after function(): %r %r %r' % (st, inl, root), fline)
                        continue
                    si = 'static-inline' if (st and inl) else 'other'
                    if not (st and inl):
                        ag.note('is_root/%s' % ('first-declaration' if old is None else 'redeclaration'), root == 1,
                                'a function that is not static inline (is_static=%d, is_inline=%d) is not a liveness root: it would not be emitted unless referenced' % (st, inl), fline, facts)
                    elif r0:
                        ag.note('is_root/redeclaration-keeps-root-mark', root == 1,
                                'a static inline function that already carries a root mark (it was referenced at file scope, e.g. `int (*p)(void) = f;`) '
                                'loses the mark when it is declared again or defined (is_root is recomputed from the linkage alone): the function is not emitted and the reference is undefined at link time', fline, facts)
                    else:
                        ag.note('is_root/%s' % ('first-declaration' if old is None else 'redeclaration'), root == 0,
                                'an unreferenced static inline function is made a liveness root: it is emitted although nothing references it', fline, facts)
                    # ---- recording context ----------------------------------------------------------------------------
                    if isdef:
                        bodies = [e for e in ctx.events if e[0] == 'body']
                        if len(bodies) != 1:
                            ag.undecided('recording-context/set-for-body', 'compound_stmt is called %d times for a definition' % len(bodies), fline)
                        else:
                            ag.note('recording-context/set-for-body', _final(it, bodies[0][1]) is f,
                                    'while the body is parsed current_fn is %r, not the function being defined: references made in the body are recorded on the wrong function (or taken for file-scope references)' % (_final(it, bodies[0][1]),),
                                    bodies[0][2], facts)
                        ag.note('recording-context/cleared-after-body', isinstance(cf_end, int) and cf_end == 0,
                                'current_fn still designates the function after its body has been parsed: a later file-scope reference (`static inline int f(void){..} int (*p)(void) = f;`) is recorded '
                                'as a reference made by the previous function instead of marking f as a root; if that function is not live, f is never emitted (undefined symbol at link time)',
                                fline, facts)
                    else:
                        ag.note('recording-context/untouched-by-prototype', cf_end is ctx.c15_cf0,
                                'a function declaration without body changes current_fn (to %r): after a block-scope prototype the references of the enclosing function are recorded elsewhere' % (cf_end,), fline, facts)
    if npaths == 0:
        raise AnalysisBroken('function(): no returning path explored')
    ag.flush(fline)
    lk.flush(fline)


def _decl_words(attr, isdef):
    w = [k[3:] for k in ('is_static', 'is_extern', 'is_inline') if attr[k]]
    return '%s int f(void)%s' % (' '.join(w), '{..}' if isdef else ';') if w else 'int f(void)%s' % ('{..}' if isdef else ';')


def _fn_stepper(pe):
    """(ATTRS, step): step(state, attr, isdef) applies function() to one more file-scope declaration of a function.  state: None (no earlier declaration) or a
    tuple of (field, int) pairs -- every integer field of the Obj, also ones this module does not know; returns the list of states after function() (one per
    returning path; none when the declaration is diagnosed), or None when the Obj was not found"""
    if hasattr(pe, 'c15_step'):
        return pe.c15_step
    ATTRS = [a for a in _bits(('is_static', 'is_inline', 'is_extern')) if not (a['is_static'] and a['is_extern'])]
    its = {}

    def interp_for(isdef):
        if isdef in its:
            return its[isdef]

        def h_find(it, ctx, n, args):
            return ctx.c15_old

        def h_equal(it, ctx, n, args):
            if args[0] is ctx.c15_tok and args[1] == '{':
                return isdef
            if args[0] is ctx.c15_tok and isinstance(args[1], str):
                return 0
            return _fresh_bool(ctx, 'equal')

        def h_consume(it, ctx, n, args):
            if args[2] == ';':
                return 0 if isdef else 1
            return _fresh_bool(ctx, 'consume')

        def h_decl(it, ctx, n, args):
            ty = Obj('Type', lazy=True, label='ty')
            ty.fields['name'] = Obj('Token', lazy=True, label='ty.name')
            ty.fields['return_ty'] = _tyobj(pe.cg, 'ty.return_ty', 'int')
            ty.fields['is_variadic'] = 0
            ty.meta['cat'] = 'func'
            return ty

        def h_body(it, ctx, n, args):
            return Obj('Node', lazy=True, label='body')
        its[isdef] = pe.interp(('function', 'new_gvar', 'new_var'), opaque=('create_param_lvars', 'resolve_goto_labels'),
                               cut={'find_func': h_find, 'equal': h_equal, 'consume': h_consume, 'declarator': h_decl, 'compound_stmt': h_body},
                               globals_={'current_fn': lambda ctx: ctx.c15_cf0, 'scope': lambda ctx: ctx.c15_scope})
        return its[isdef]
    cache = {}

    def step(state, attr, isdef, block=0):
        """state: None (no earlier declaration) or a tuple of (field, int) pairs; block: the declaration stands inside a function body (the scope chain has an
        enclosing scope and current_fn designates the enclosing function) instead of at file scope; returns the list of states after function() (one per returning
        path), or None"""
        key = (state, tuple(sorted(attr.items())), isdef, block)
        if key in cache:
            return cache[key]
        it = interp_for(isdef)

        def mk(ctx):
            ctx.c15_tok = Obj('Token', lazy=True, label='tok')
            ctx.c15_scope = Obj('Scope', lazy=True, label='scope')
            ctx.c15_scope.fields['next'] = Obj('Scope', lazy=True, label='enclosing-scope') if block else 0
            ctx.c15_cf0 = Obj('Obj', lazy=True, label='enclosing-function') if block else 0
            if state is None:
                ctx.c15_old = 0
            else:
                o = Obj('Obj', lazy=True, label='earlier-declaration')
                o.fields.update(dict(state))
                o.fields.setdefault('ty', _some_fn_type(pe, ctx))
                ctx.c15_old = o
            a = Obj('VarAttr', lazy=True, label='attr')
            a.fields.update(attr)
            return [ctx.c15_tok, Obj('Type', lazy=True, label='basety'), a]
        res = _explore(it, 'function', mk)
        outs = []
        for ctx, out in res:
            if out[0] != 'ret':
                continue
            f = _final(it, ctx.globals.get('globals')) if state is None else ctx.c15_old
            if not isinstance(f, Obj) or (state is None and f.lazy):
                outs = None
                break
            st = {}
            for k, v in f.fields.items():
                v = _final(it, v)
                if isinstance(v, bool):
                    v = int(v)
                if isinstance(v, int) and k not in ('next',) and (k.startswith('is_') or v in (0, 1)):
                    st[k] = v
            st = tuple(sorted(st.items()))
            if st not in outs:
                outs.append(st)
        cache[key] = outs
        return outs
    pe.c15_step = (ATTRS, step)
    return pe.c15_step


def _reachable_fn_states(pe):
    """every state of a function Obj that sequences of file-scope declarations (and file-scope references, which set is_root) can produce; None if not computable"""
    ATTRS, step = _fn_stepper(pe)
    seen, todo = [], []
    for a in ATTRS:
        for d in (0, 1):
            r = step(None, a, d)
            if r is None:
                return None
            todo += r
    while todo:
        st = todo.pop()
        if st in seen:
            continue
        seen.append(st)
        if len(seen) > 200:
            return None
        fl = dict(st)
        if fl.get('is_root') == 0:
            todo.append(tuple(sorted(dict(fl, is_root=1).items())))
        for a in ATTRS:
            for d in ((0, 1) if not fl.get('is_definition') else (0,)):
                r = step(st, a, d)
                if r is None:
                    return None
                todo += r
    return seen


def r158_sequences(pe, rep):
    """function() applied to every sequence of two (and, starting from a plain `inline` declaration, three) file-scope declarations of one function, the Obj the
    first application creates being handed -- with every flag it carries, also ones this module does not know -- to the next.  Oracle (C11 6.2.2p4/p5, 6.7.4p7):
      first declaration `static`                                  -> internal linkage, whatever follows
      no `static` and every declaration is `inline` without `extern` -> inline definition: no external definition is emitted (chibicc: is_static)
      no `static` and some declaration is not `inline`, or is `extern` -> external definition: .globl, a liveness root
      `static` after a declaration without it                       -> undefined (6.2.2p7) / diagnosed: not judged"""
    u = pe.u
    fline = u.fn('function').line
    lk = Agg(rep, 'R15.8', PU, 'function')
    ATTRS, step = _fn_stepper(pe)
    n = 0
    seqs = []
    for a1 in ATTRS:
        for a2 in ATTRS:
            for d in ((0, 0), (1, 0), (0, 1)):
                seqs.append(((a1, d[0]), (a2, d[1])))
            if a1['is_inline'] and not a1['is_static'] and not a1['is_extern']:
                for a3 in ATTRS:
                    for d in ((0, 0, 0), (1, 0, 0), (0, 1, 0), (0, 0, 1)):
                        seqs.append(((a1, d[0]), (a2, d[1]), (a3, d[2])))
    for seq in seqs:
        attrs = [a for a, d in seq]
        if attrs[0]['is_static']:
            want, cls = 1, 'static-first'
        elif any(a['is_static'] for a in attrs[1:]):
            continue
        elif all(a['is_inline'] and not a['is_extern'] for a in attrs):
            want, cls = 1, 'every-declaration-inline'
        elif attrs[0]['is_inline'] and not attrs[0]['is_extern']:
            want, cls = 0, 'inline-then-external-declaration'
        else:
            want, cls = 0, 'external-first'
        states = [None]
        broken = False
        for a, d in seq:
            nxt = []
            for st in states:
                r = step(st, a, d)
                if r is None:
                    broken = True
                    break
                for x in r:
                    if x not in nxt:
                        nxt.append(x)
            if broken:
                break
            states = nxt
        desc = ' '.join(_decl_words(a, d) for a, d in seq)
        key = 'linkage/declaration-sequence/' + cls
        if broken:
            lk.undecided(key, 'the Obj function() works on was not found for `%s`' % desc, fline)
            continue
        for st in states:          # no state: a declaration of the sequence is diagnosed
            n += 1
            fl = dict(st)
            facts = {'declarations': desc, 'function object at the end': {k: v for k, v in fl.items() if k.startswith('is_')}}
            stt, root, isd = fl.get('is_static'), fl.get('is_root'), fl.get('is_definition')
            if not isinstance(stt, int):
                lk.undecided(key, 'is_static is not concrete after `%s`' % desc, fline)
                continue
            if want == 0:
                msg = ('after `%s` the function has is_static=%d: not every declaration says `inline` without `extern`, so the definition is an external definition (C11 6.7.4p7) -- '
                       '%s; the function is emitted .local (and only if referenced) and other translation units that call it fail to link'
                       % (desc, stt, 'the linkage decided by the first declaration (`inline` alone: is_static) is never revised by a redeclaration' if cls.startswith('inline-then') else 'it has external linkage'))
            else:
                msg = ('after `%s` the function has is_static=%d: %s; it is emitted .globl and clashes with the definition of another translation unit'
                       % (desc, stt, 'it has internal linkage (C11 6.2.2p4/p5)' if cls == 'static-first' else 'every declaration is `inline` without `extern`, so this is an inline definition that provides no external definition (C11 6.7.4p7)'))
            lk.note(key, stt == want, msg, fline, facts)
            if want == 0 and stt == 0:
                lk.note('linkage/declaration-sequence/external-definition-is-root', root == 1, 'after `%s` the function has external linkage but is not a liveness root: it is not emitted unless referenced' % desc, fline, facts)
            lk.note('linkage/declaration-sequence/definition-flag', isd == int(any(d for a, d in seq)), 'after `%s` is_definition is %r' % (desc, isd), fline, facts)
    if n < 100:
        lk.undecided('linkage/declaration-sequence/evaluation', 'function() could be evaluated on %d declaration sequences only' % n, fline)
    lk.flush(fline)


def r158_block_sequences(pe, rep):
    """function() applied to declaration sequences in which a declaration of an already declared function stands inside a function body (`int g(void){ int f(void); .. }`).
    Oracle (C11 6.7.4p7): whether a definition is an inline definition is decided by the FILE-SCOPE declarations alone; the linkage (6.2.2p4/p5) by the first declaration.
    A block-scope declaration therefore leaves the classification of the sequence of file-scope declarations unchanged.  Sequences whose first declaration stands
    in a block are not judged (no earlier Obj; gcc and clang disagree), nor is `static` in a block (6.7.1p7: constraint violation)."""
    u = pe.u
    fline = u.fn('function').line
    lk = Agg(rep, 'R15.8', PU, 'function')
    ATTRS, step = _fn_stepper(pe)
    BATTRS = [a for a in ATTRS if not a['is_static']]
    seqs = []
    for a1 in ATTRS:
        for d1 in (0, 1):
            for b in BATTRS:
                seqs.append(((a1, d1, 0), (b, 0, 1)))
                for a3 in ATTRS:
                    for d3 in ((0, 1) if not d1 else (0,)):
                        seqs.append(((a1, d1, 0), (b, 0, 1), (a3, d3, 0)))
                        seqs.append(((a1, d1, 0), (a3, d3, 0), (b, 0, 1)))
    n = 0
    for seq in seqs:
        attrs = [a for a, d, blk in seq if not blk]          # the file-scope declarations
        if attrs[0]['is_static']:
            want, cls = 1, 'static-first'
        elif any(a['is_static'] for a in attrs[1:]):
            continue
        elif all(a['is_inline'] and not a['is_extern'] for a in attrs):
            want, cls = 1, 'every-file-scope-declaration-inline'
        elif attrs[0]['is_inline'] and not attrs[0]['is_extern']:
            want, cls = 0, 'inline-then-external-declaration'
        else:
            want, cls = 0, 'external-first'
        states = [None]
        broken = False
        for a, d, blk in seq:
            nxt = []
            for st in states:
                r = step(st, a, d, blk)
                if r is None:
                    broken = True
                    break
                for x in r:
                    if x not in nxt:
                        nxt.append(x)
            if broken:
                break
            states = nxt
        desc = ' '.join(('int g(void){ %s }' if blk else '%s') % _decl_words(a, d) for a, d, blk in seq)
        key = 'linkage/block-scope-redeclaration/' + cls
        if broken:
            lk.undecided(key, 'the Obj function() works on was not found for `%s`' % desc, fline)
            continue
        for st in states:          # no state: a declaration of the sequence is diagnosed
            n += 1
            fl = dict(st)
            facts = {'declarations': desc, 'function object at the end': {k: v for k, v in fl.items() if k.startswith('is_')}}
            stt, root, isd = fl.get('is_static'), fl.get('is_root'), fl.get('is_definition')
            if not isinstance(stt, int):
                lk.undecided(key, 'is_static is not concrete after `%s`' % desc, fline)
                continue
            if want == 0:
                msg = ('after `%s` the function has is_static=%d: a file-scope declaration lacks `inline` or says `extern`, so the definition is an external definition (C11 6.7.4p7); '
                       'it is emitted .local (and only if referenced) and other translation units that call it fail to link' % (desc, stt))
            else:
                msg = ('after `%s` the function has is_static=%d: %s; the declaration inside the function body does not count (C11 6.7.4p7 speaks of the file scope declarations only), '
                       'but it turns the function into an external definition: the function is emitted .globl and two translation units doing this fail to link (multiple definition)'
                       % (desc, stt, 'it has internal linkage (C11 6.2.2p4/p5)' if cls == 'static-first' else 'every file-scope declaration is `inline` without `extern`, so this is an inline definition that provides no external definition'))
            lk.note(key, stt == want, msg, fline, facts)
            if want == 0 and stt == 0:
                lk.note('linkage/block-scope-redeclaration/external-definition-is-root', root == 1, 'after `%s` the function has external linkage but is not a liveness root: it is not emitted unless referenced' % desc, fline, facts)
            lk.note('linkage/block-scope-redeclaration/definition-flag', isd == int(any(d for a, d, blk in seq)), 'after `%s` is_definition is %r' % (desc, isd), fline, facts)
    if n < 100:
        lk.undecided('linkage/block-scope-redeclaration/evaluation', 'function() could be evaluated on %d declaration sequences only' % n, fline)
    lk.flush(fline)


def _judge_redeclared_linkage(it, ctx, lk, f, old, attr, isdef, st, fline, facts):
    """C11 6.2.2p4/p5, 6.7.4p7: the linkage of a function is fixed by its first declaration.  A later declaration without `static`
    (plain, extern, inline) inherits internal linkage; a later `inline` does not turn a function that already has external linkage
    into an inline definition.  Only the judgements that hold for every conforming treatment of the flags are made:
      earlier is_static, not inline (declared `static`)                   -> stays is_static, whatever the later specifiers
      earlier is_static and inline, later `static` or `inline` w/o extern  -> stays is_static
      earlier is_static and inline, later plain / extern                   -> not judged (`inline f; extern f;` is an external definition in C11,
                                                                             `static inline f; extern f;` is not: the Obj does not tell them apart)
      earlier not is_static, later without `static`                        -> stays external
      earlier not is_static, later `static`                                -> undefined behaviour (6.2.2p7), not judged"""
    if not isinstance(st, int):
        lk.undecided('linkage/redeclaration', 'is_static is not concrete after a redeclaration: %r' % (st,), fline)
        return
    later = _attr_doc(attr, isdef)
    fn_ = _final(it, f.fields.get('is_function'))
    lk.note('function-flag/redeclaration', fn_ == 1, 'after a redeclaration %s is_function is %r: emit_text skips the function' % (later, fn_), fline, facts)
    inline_def = attr['is_inline'] and not attr['is_extern']
    if old['is_static']:
        if old['is_inline'] and not (attr['is_static'] or inline_def):
            return
        lk.note('linkage/redeclaration-keeps-internal', st == 1,
                'a function first declared with internal linkage (is_static=1, is_inline=%d) and declared again %s ends with is_static=%d: the linkage follows the latest '
                'declaration instead of the first (C11 6.2.2p4/p5: a later declaration without `static` inherits internal linkage); the function is emitted .globl and clashes with / '
                'interposes on a same-named function of another translation unit' % (old['is_inline'], later, st), fline, facts)
    elif not attr['is_static']:
        lk.note('linkage/redeclaration-keeps-external', st == 0,
                'a function first declared with external linkage (is_static=0, is_inline=%d) and declared again %s ends with is_static=%d: the linkage follows the latest '
                'declaration instead of the first (C11 6.7.4p7: not all declarations are `inline` without `extern`, so this is an external definition); the function is emitted '
                '.local and other translation units cannot call it' % (old['is_inline'], later, st), fline, facts)


def _judge_lookup_name(it, ctx, lk, fline, facts):
    """the earlier declaration is looked up under the declared name (get_ident of the declarator's name token), exactly once, before the flags are decided"""
    finds = [e for e in ctx.events if e[0] == 'find']
    idents = [e for e in ctx.events if e[0] == 'call' and e[1] == 'get_ident' and len(e) > 4 and e[2] and isinstance(_final(it, e[2][0]), Obj) and _final(it, e[2][0]).label == 'ty.name']
    if not finds:
        lk.note('lookup/earlier-declaration-consulted', False,
                'function() decides the flags of the function without calling find_func: a redeclaration is not recognised, every declaration creates a new Obj whose linkage follows its own specifiers', fline, facts)
        return
    lk.note('lookup/earlier-declaration-consulted', True)
    if not idents:
        lk.undecided('lookup/by-declared-name', 'the declared name is not obtained with get_ident(ty->name): the lookup key cannot be recognised', finds[0][2])
        return
    bad = [e for e in finds if not any(same(e[1], i[4]) for i in idents)]
    lk.note('lookup/by-declared-name', not bad,
            'the earlier declaration is looked up under %r, not under the declared name: a redeclaration is not matched with the first declaration' % (bad[0][1] if bad else None,), bad[0][2] if bad else fline, facts)


def _attr_doc(attr, isdef):
    w = [k[3:] for k in ('is_static', 'is_extern', 'is_inline') if attr[k]]
    return '`%s` (%s)' % (' '.join(w) or 'plain', 'definition' if isdef else 'prototype')


def r153_primary(pe, rep, root_marks_permanent, linkage_roots_hold):
    """every reference to a function is recorded: on current_fn->refs inside a function, as a root mark at file scope"""
    u = pe.u
    fline = fline0 = u.fn('primary').line
    ag = Agg(rep, 'R15.3', PU, 'primary')
    E = pe.E

    def h_findvar(it, ctx, n, args):
        return ctx.c15_sc

    def h_equal(it, ctx, n, args):
        if args[0] is ctx.c15_tok:
            return 0          # the token is an ordinary identifier: none of the keywords / punctuators primary() tests for
        return _fresh_bool(ctx, 'equal')
    nulls = []
    states = _static_states(pe)
    # outside the initialiser of a static object the parser-context flags have their program-start value (R15.6 static-context/ends-with-the-initialiser)
    s0 = dict(states['initial']) if states else {}
    it = pe.interp(('primary',), opaque=('generic_selection', 'new_ulong'), cut={'find_var': h_findvar, 'equal': h_equal, 'strarray_push': None, 'new_var_node': None},
                   globals_=dict(s0, current_fn=lambda ctx: ctx.c15_cf0), on_null_deref=lambda it_, n: nulls.append(n.line))
    n = 0
    for inside in (0, 1):
        for callee in _bits(('is_definition', 'is_static', 'is_inline', 'is_root')):
            if not (callee['is_static'] and callee['is_inline']) and not callee['is_root']:
                continue        # function() makes every function that is not static inline a root

            def mk(ctx, inside=inside, callee=callee):
                ctx.c15_tok = Obj('Token', lazy=True, label='tok')
                ctx.c15_tok.fields['kind'] = E['TK_IDENT']
                v = Obj('Obj', lazy=True, label='callee')
                v.fields.update(callee)
                v.fields['is_function'] = 1
                v.fields['is_local'] = 0
                v.fields['name'] = Sym('callee.name', 'char *')
                ctx.c15_callee = v
                sc = Obj('VarScope', lazy=True, label='sc')
                sc.fields['var'] = v
                ctx.c15_sc = sc
                ctx.c15_cf0 = Obj('Obj', lazy=True, label='caller') if inside else 0
                return [Sym('rest', 'Token **'), ctx.c15_tok]
            del nulls[:]
            res = _explore(it, 'primary', mk)
            rets = [(c, o) for c, o in res if o[0] == 'ret']
            if not rets:
                if nulls:
                    ag.note('reference/file-scope-marks-root' if not inside else 'reference/inside-function-recorded', False,
                            'primary() dereferences a NULL pointer when a function is referenced %s (e.g. current_fn->refs while current_fn is NULL): the compiler crashes on `int (*p)(void) = f;`' % ('inside a function' if inside else 'at file scope'),
                            nulls[0], {'referenced function': callee})
                else:
                    ag.undecided('reference/no-path', 'primary() has no returning path for an identifier that names a function', fline)
                continue
            for ctx, out in rets:
                n += 1
                v = ctx.c15_callee
                pushes = [e for e in ctx.events if e[0] == 'call' and e[1] == 'strarray_push']
                root_now = _final(it, v.fields.get('is_root'))
                facts = {'referenced function': callee, 'inside a function': bool(inside), 'path': ctx.trail[-6:],
                         'events': [repr(e[:3]) for e in ctx.events if e[0] in ('call', 'fstore')][:8]}
                evl = [e[3] for e in ctx.events if e[0] in ('call', 'store') and len(e) > 3 and isinstance(e[3], int)]
                fline = evl[0] if evl else fline0
                if inside:
                    caller = ctx.c15_cf0
                    rec = [e for e in pushes if isinstance(e[2][0], Obj) and e[2][0] is caller.fields.get('refs') and same(e[2][1], v.fields['name'])]
                    caller_root = _final(it, caller.fields.get('is_root')) if 'is_root' in caller.fields else None
                    ok = bool(rec)
                    alt = (not rec) and root_now == 1 and caller_root == 1 and not callee['is_root']
                    if alt and root_marks_permanent:
                        ok = True       # marking the callee of an always-emitted caller as a root is equivalent when root marks are never withdrawn
                    if not rec and not pushes and linkage_roots_hold and not (callee['is_static'] and callee['is_inline']) and root_now == callee['is_root']:
                        ok = True       # a function that is not static inline is a root by its linkage: it is emitted whether or not the reference is recorded
                    if alt and not root_marks_permanent:
                        msg = ('a reference made inside an always-emitted function is not recorded on current_fn->refs; the referenced function is marked is_root instead, '
                               'but function() recomputes is_root on every later declaration/definition of it, so a static inline function that is declared, referenced and only '
                               'then defined loses the mark and is never emitted (undefined symbol at link time)')
                    else:
                        msg = ('a reference to a function made inside a function body is not recorded on current_fn->refs (pushes: %s): mark_live cannot reach the referenced '
                               'static inline function and it is not emitted') % ([repr(e[2]) for e in pushes] or 'none')
                    ag.note('reference/inside-function-recorded', ok, msg, fline, facts)
                    stray = [e for e in pushes if e not in rec]
                    ag.note('reference/nothing-else-recorded', not stray, 'primary() records something else than the referenced function\'s name on a refs list: %s' % [repr(e[2]) for e in stray], fline, facts)
                    if not alt:
                        ag.note('reference/inside-function-leaves-root-mark', root_now == callee['is_root'],
                                'a reference made inside a function changes is_root of the referenced function from %d to %r: a static inline function referenced only from unreferenced static inline functions would be emitted (or a root lose its mark)' % (callee['is_root'], root_now), fline, facts)
                else:
                    ag.note('reference/file-scope-marks-root', root_now == 1 and not pushes,
                            'a reference to a function at file scope (outside any function, e.g. in a global initialiser) does not make it a liveness root (is_root=%r, pushes=%d): a static inline function referenced only from a global initialiser is not emitted' % (root_now, len(pushes)),
                            fline, facts)
    if n == 0:
        raise AnalysisBroken('primary(): the identifier arm was not reached')
    ag.flush(fline0)


def _static_states(pe):
    """parser-context states of r156_static_context (evaluated once, silently; R15.6 reports them), or None"""
    if not hasattr(pe, 'c15_states'):
        pe.c15_states, pe.c15_states_err = None, None
        try:
            _need(pe.u, PU, 'gvar_initializer', 'postfix')
            pe.c15_states = r156_static_context(pe, _Scratch(), None)
        except AnalysisBroken as e:
            pe.c15_states_err = str(e)
    return pe.c15_states


def r1510(pe, rep):
    """An object with static storage duration is emitted whether or not the function whose body declares it is (R15.1: emit_data emits every
    definition; R15.6: block-scope statics and static compound literals are anonymous globals).  So a function named in the initialiser of such
    an object is referenced by something that is always emitted: the reference must make it a liveness root -- recording it on the refs list of
    the enclosing function keeps it alive only if that function happens to be live.  primary() is evaluated in exactly the parser context
    (context flags, current_fn) gvar_initializer() is evaluated to establish while it has the initialiser parsed inside a function body."""
    rep.rule('R15.10', 'a function referenced in the initialiser of a static-storage object declared inside a function body (block-scope static, static compound literal) is made a '
             'liveness root: the object is emitted unconditionally, so its relocation must not depend on the liveness of the enclosing function', floor=2)
    u = pe.u
    _need(u, PU, 'primary', 'gvar_initializer')
    fline = u.fn('primary').line
    ag = Agg(rep, 'R15.10', PU, 'primary')
    states = _static_states(pe)
    if not states or states.get('skip-static-initialiser') or not states['enclosing-function']:
        ag.undecided('static-initialiser-reference/context', 'the parser context gvar_initializer() establishes while the initialiser of a static object is parsed is not known: %s'
                     % (getattr(pe, 'c15_states_err', None) or 'no region recognised'), fline)
        ag.flush(fline)
        return
    E = pe.E
    s0 = states['initial']

    def h_findvar(it, ctx, n, args):
        return ctx.c15_sc

    def h_equal(it, ctx, n, args):
        if args[0] is ctx.c15_tok:
            return 0
        return _fresh_bool(ctx, 'equal')
    nulls = []
    it = pe.interp(('primary',), opaque=('generic_selection', 'new_ulong'), cut={'find_var': h_findvar, 'equal': h_equal, 'strarray_push': None, 'new_var_node': None},
                   globals_=dict({v: (lambda ctx, v=v: ctx.c15_state[v]) for v in s0}, current_fn=lambda ctx: ctx.c15_cf0), on_null_deref=lambda it_, n: nulls.append(n.line))
    n = 0
    ag.note('static-initialiser-reference/context-evaluated', True)
    for st, cf in states['enclosing-function']:
        if cf == 'other':
            ag.undecided('static-initialiser-reference/context', 'while the initialiser of a block-scope static object is parsed current_fn is neither the enclosing function nor NULL', fline)
            continue
        for isdef in (0, 1):
            def mk(ctx, st=st, cf=cf, isdef=isdef):
                ctx.c15_state = dict(s0, **st)
                ctx.c15_tok = Obj('Token', lazy=True, label='tok')
                ctx.c15_tok.fields['kind'] = E['TK_IDENT']
                v = Obj('Obj', lazy=True, label='callee')
                v.fields.update(dict(is_definition=isdef, is_static=1, is_inline=1, is_root=0, is_function=1, is_local=0, name=Sym('callee.name', 'char *')))
                ctx.c15_callee = v
                sc = Obj('VarScope', lazy=True, label='sc')
                sc.fields['var'] = v
                ctx.c15_sc = sc
                ctx.c15_cf0 = Obj('Obj', lazy=True, label='caller') if cf == 'kept' else 0
                return [Sym('rest', 'Token **'), ctx.c15_tok]
            del nulls[:]
            res = _explore(it, 'primary', mk)
            rets = [(c, o) for c, o in res if o[0] == 'ret']
            key = 'static-initialiser-reference/marks-root'
            if not rets:
                if nulls:
                    ag.note(key, False, 'primary() dereferences a NULL pointer when a function is named in the initialiser of a block-scope static object', nulls[0])
                else:
                    ag.undecided(key, 'primary() has no returning path for an identifier that names a function (context: %s)' % _state_doc(st), fline)
                continue
            for ctx, out in rets:
                n += 1
                root_now = _final(it, ctx.c15_callee.fields.get('is_root'))
                evl = [e[3] for e in ctx.events if e[0] in ('call', 'store') and len(e) > 3 and isinstance(e[3], int)]
                facts = {'parser context': dict(s0, **st), 'current_fn': 'the enclosing function' if cf == 'kept' else 'NULL', 'path': ctx.trail[-6:],
                         'events': [repr(e[:3]) for e in ctx.events if e[0] in ('call', 'fstore')][:8]}
                ag.note(key, root_now == 1,
                        'a static inline function named in the initialiser of a block-scope static object (parser context while gvar_initializer() has it parsed: %s; current_fn: %s) '
                        'is not made a liveness root (is_root=%r): it is only recorded as referenced by the enclosing function.  The static object is emitted unconditionally '
                        '(`.quad f` in .data), the function only if the enclosing function is live: `static inline int f(void){..} static inline int g(void){ static int (*p)(void) = f; ..}` '
                        'with g unreferenced leaves an undefined reference to f at link time' % (_state_doc(dict(s0, **st)), 'the enclosing function' if cf == 'kept' else 'NULL', root_now),
                        evl[0] if evl else fline, facts)
    if n == 0:
        raise AnalysisBroken('primary(): the identifier arm was not reached in the context of a static initialiser')
    ag.flush(fline)


def r153_mark_live(pe, rep):
    """bounded-exhaustive evaluation of mark_live on every reference graph over three functions (cycles and self
    references included), plus unresolvable names"""
    u = pe.u
    fline = u.fn('mark_live').line
    ag = Agg(rep, 'R15.3', PU, 'mark_live')
    NAMES = ('f0', 'f1', 'f2')

    def m_find(it, ctx, n, args):
        nm = args[0]
        if not isinstance(nm, str):
            raise AnalysisBroken('mark_live looks up %r, not a recorded name' % (nm,))
        return ctx.c15_fns.get(nm, 0)
    nulls = []
    it = pe.interp(('mark_live',), models={'find_func': m_find}, rec_limit=8, on_null_deref=lambda it_, n: nulls.append(n.line))
    subsets = [[j for j in range(3) if m >> j & 1] for m in range(8)]
    graphs = [(a, b, c) for a in subsets for b in subsets for c in subsets]
    extra = [([1, 1], [0, 1], []), ([2, 1], [], [1]), (['ghost', 1], [], []), ([1, 'ghost'], ['ghost'], [])]
    ngraph = 0
    for g in graphs + extra:
        def mk(ctx, g=g):
            fns = {}
            for k, nm in enumerate(NAMES):
                o = Obj('Obj', lazy=False, label=nm)
                o.fields.update(dict(name=nm, is_function=1, is_live=0, is_static=1, is_inline=1, is_definition=1, is_root=0, is_local=0))
                refs = Obj('StringArray', lazy=False, label=nm + '.refs')
                names = [x if isinstance(x, str) else NAMES[x] for x in g[k]]
                refs.fields.update(dict(data=Arr(list(names)), len=len(names), capacity=8))
                o.fields['refs'] = refs
                if k == 0:          # parse() starts mark_live at roots only: f0 is an ordinary (always emitted) function
                    o.fields.update(dict(is_static=0, is_inline=0, is_root=1))
                fns[nm] = o
            ctx.c15_fns = fns
            return [fns['f0']]
        del nulls[:]
        try:
            res = _explore(it, 'mark_live', mk)
        except AnalysisBroken as e:
            if 'depth' in str(e):
                res = []
            else:
                raise
        reach = set()
        st = ['f0']
        while st:
            x = st.pop()
            if x in reach or x not in NAMES:
                continue
            reach.add(x)
            st.extend(y if isinstance(y, str) else NAMES[y] for y in g[NAMES.index(x)])
        desc = '; '.join('%s -> {%s}' % (NAMES[k], ','.join(x if isinstance(x, str) else NAMES[x] for x in g[k])) for k in range(3))
        cyc = 'cyclic' if _has_cycle(g) else 'acyclic'
        facts = {'reference graph': desc}
        if nulls:
            ngraph += 1
            ag.note('unresolved-name-tolerated', False, 'mark_live dereferences the result of find_func() without testing it: a name recorded for a block-scope prototype resolves to NULL (graph %s)' % desc, nulls[0], facts)
            continue
        rets = [(c, o) for c, o in res if o[0] == 'ret']
        if not rets:
            ngraph += 1
            ag.note('terminates/' + cyc, False, 'mark_live(f0) does not return on the reference graph %s (unbounded recursion: is_live must be set and tested before following references)' % desc, fline, facts)
            continue
        ngraph += 1
        if len(rets) != 1:
            ag.undecided('closure/evaluated', 'mark_live is not deterministic on a concrete graph (%d paths)' % len(rets), fline)
        for ctx, out in rets:
            live = set(nm for nm, o in ctx.c15_fns.items() if _final(it, o.fields.get('is_live')) == 1)
            ag.note('terminates/' + cyc, True)
            if any(isinstance(x, str) for k in range(3) for x in g[k]):
                ag.note('unresolved-name-tolerated', live == reach, 'with an unresolvable recorded name, mark_live(f0) marks %s; reachable: %s (graph %s)' % (sorted(live), sorted(reach), desc), fline, facts)
                continue
            missing, extra_ = reach - live, live - reach
            ag.note('closure/every-reachable-function-live', not missing,
                    'mark_live(f0) leaves %s unmarked although reachable from f0 (graph %s): a referenced static inline function is not emitted' % (sorted(missing), desc), fline, facts)
            ag.note('closure/only-reachable-functions-live', not extra_,
                    'mark_live(f0) marks %s which f0 does not reach (graph %s): an unreferenced static inline function is emitted' % (sorted(extra_), desc), fline, facts)
    if ngraph < 400:
        ag.undecided('closure/evaluated', 'mark_live could be evaluated on %d of %d graphs only' % (ngraph, len(graphs) + len(extra)), fline)
    ag.flush(fline)


def _has_cycle(g):
    for s0 in range(3):
        seen, st = set(), [x for x in g[s0] if isinstance(x, int)]
        while st:
            x = st.pop()
            if x == s0:
                return True
            if x in seen:
                continue
            seen.add(x)
            st.extend(y for y in g[x] if isinstance(y, int))
    return False


def r153_parse(pe, rep):
    """parse(): after the declaration loop, mark_live is started from every root of `globals` (and from nothing else), before the list is returned"""
    u = pe.u
    fline = u.fn('parse').line
    ag = Agg(rep, 'R15.3', PU, 'parse')

    def havoc(it, ctx, n, args):
        # a top-level declaration has been parsed: `globals` is now an arbitrary list
        hd = View(Cell([0, Obj('Obj', lazy=True, label='g1')], 'globals', names={0: 'NULL'}))
        ctx.globals['globals'] = hd
        ctx.events = [e for e in ctx.events if e[0] != 'c15-head']
        ctx.emit('c15-head', hd)
        ctx.c15_havoc = True
        return Obj('Token', lazy=True, label=ctx.fresh('tok'))

    def h_mark(it, ctx, n, args):
        a = _final(it, args[0])
        ctx.emit('mark', a, n.line)
        return None

    def h_scan(it, ctx, n, args):
        ctx.emit('scan', n.line)
        ctx.c15_scanned = Sym('globals-after-scan', 'Obj *')
        ctx.globals['globals'] = ctx.c15_scanned
        return None
    it = pe.interp(('parse',), opaque=('declare_builtin_functions',), cut={'function': havoc, 'global_variable': havoc, 'parse_typedef': havoc, 'mark_live': h_mark, 'scan_globals': h_scan}, loop_limit=2)

    def mk(ctx):
        ctx.c15_havoc = False
        ctx.c15_scanned = None
        return [Obj('Token', lazy=True, label='tok')]
    res = _explore(it, 'parse', mk)
    n = 0
    for ctx, out in res:
        if out[0] != 'ret' or not ctx.c15_havoc:
            continue
        marks = [e[1] for e in ctx.events if e[0] == 'mark']
        scans = [e for e in ctx.events if e[0] == 'scan']
        # walk the abstract list as this path has refined it
        chain = []
        cur = _first_global(ctx)
        complete = None
        while True:
            cur = _final(it, cur)
            if isinstance(cur, int) and cur == 0:
                complete = True; break
            if not isinstance(cur, Obj):
                complete = False; break
            chain.append(cur)
            if 'next' not in cur.fields:
                complete = False; break
            cur = cur.fields['next']
        if not chain and complete:
            continue            # the declarations produced an empty list on this path
        n += 1
        facts = {'path': ctx.trail[-8:], 'list': [repr(c) for c in chain]}
        ag.note('roots/whole-list-visited', complete, 'the marking loop of parse() stops before the end of `globals` (after %d objects): roots further down the list are never marked' % len(chain), fline, facts)
        for o in chain:
            r = _final(it, o.fields.get('is_root')) if 'is_root' in o.fields else None
            marked = any(m is o for m in marks)
            if r == 1:
                ag.note('roots/every-root-marked', marked, 'an object with is_root set is not passed to mark_live: a non-static-inline function (or one referenced at file scope) and everything it references would not be emitted', fline, facts)
            elif r == 0:
                ag.note('roots/only-roots-marked', not marked, 'mark_live is started from an object whose is_root is false: unreferenced static inline functions are emitted', fline, facts)
            elif marked:
                ag.note('roots/only-roots-marked', False, 'mark_live is called for a list object without consulting is_root', fline, facts)
            else:
                ag.note('roots/every-root-marked', False, 'a list object is passed over without consulting is_root: if it is a root, it and everything it references is not emitted', fline, facts)
        ag.note('tentative-scan/after-marking-result-returned', len(scans) == 1 and out[1] is ctx.c15_scanned,
                'parse() does not return `globals` as left by scan_globals() (scan_globals called %d times, returns %r): redundant tentative definitions reach the code generator' % (len(scans), out[1]), fline, facts)
    if n == 0:
        ag.undecided('roots/no-path', 'no path of parse() walks a non-empty `globals` list', fline)
    ag.flush(fline)


def _first_global(ctx):
    # the head cell installed by the havoc handler: recover it from the trail of mark/loop decisions
    for e in ctx.events:
        if e[0] == 'c15-head':
            return e[1]
    return None


def r158_find_func(pe, rep):
    """find_func(name): the binding of `name` in the outermost (file) scope, whatever the other flags of the function are; NULL when there is none"""
    u = pe.u
    fline = u.fn('find_func').line
    ag = Agg(rep, 'R15.8', PU, 'find_func')
    FLAGS = ('is_definition', 'is_static', 'is_inline', 'is_root', 'is_live')

    def h_get(it, ctx, n, args):
        ctx.emit('lookup', _final(it, args[0]) if args else None, args[1] if len(args) > 1 else None, n.line)
        return ctx.c15_entry
    nulls = []
    it = pe.interp(('find_func',), cut={'hashmap_get': h_get}, globals_={'scope': lambda ctx: ctx.c15_scs[0]}, loop_limit=4,
                   on_null_deref=lambda it_, n: nulls.append(n.line))
    cases = [('no-binding', None), ('binding-without-object', None)] + [('function', fl) for fl in _bits(FLAGS)]
    n = 0
    for depth in (1, 2, 3):
        for kind, fl in cases:
            def mk(ctx, depth=depth, kind=kind, fl=fl):
                scs = []
                for i in range(depth):
                    sc = Obj('Scope', lazy=False, label='scope%d' % i)
                    sc.fields.update(dict(vars=Obj('HashMap', lazy=True, label='scope%d.vars' % i), tags=Obj('HashMap', lazy=True, label='scope%d.tags' % i), next=0))
                    scs.append(sc)
                for a, b in zip(scs, scs[1:]):
                    a.fields['next'] = b
                ctx.c15_scs = scs
                ctx.c15_v = None
                if kind == 'no-binding':
                    ctx.c15_entry = 0
                else:
                    e = Obj('VarScope', lazy=False, label='binding')
                    e.fields.update(dict(var=0, type_def=0, enum_ty=0, enum_val=0))
                    if fl is not None:
                        v = Obj('Obj', lazy=True, label='earlier-declaration')
                        v.fields.update(fl)
                        v.fields.update(dict(is_function=1, is_local=0))
                        e.fields['var'] = ctx.c15_v = v
                    ctx.c15_entry = e
                return [Sym('name', 'char *')]
            del nulls[:]
            res = _explore(it, 'find_func', mk)
            where = 'file scope' if depth == 1 else 'block-depth-%d' % (depth - 1)
            facts = {'scope depth': depth, 'binding': kind, 'flags of the bound function': fl}
            if nulls:
                n += 1
                ag.note('lookup/' + kind, False, 'find_func dereferences a NULL pointer when the name has %s' % kind.replace('-', ' '), nulls[0], facts)
                continue
            rets = [(c, o) for c, o in res if o[0] == 'ret']
            if len(rets) != 1 or len(res) != 1:
                ag.undecided('lookup/' + kind, 'find_func has %d paths (%d returning) on a concrete scope chain' % (len(res), len(rets)), fline)
                continue
            ctx, out = rets[0]
            n += 1
            r = _final(it, out[1])
            lks = [e for e in ctx.events if e[0] == 'lookup']
            facts['lookups'] = [repr(e[1:3]) for e in lks]
            ag.note('lookup/file-scope-table', len(lks) == 1 and lks[0][1] is ctx.c15_scs[-1].fields['vars'] and same(lks[0][2], Sym('name')),
                    'find_func (called at %s) does not look the name up in the identifier table of the outermost scope exactly once (lookups: %s): a function declared at file scope is '
                    'not found again and a redeclaration creates a second Obj with its own linkage' % (where, facts['lookups']), fline, facts)
            if fl is None:
                ag.note('lookup/' + kind, isinstance(r, int) and r == 0, 'find_func returns %r for a name that has %s' % (r, kind.replace('-', ' ')), fline, facts)
                continue
            ag.note('lookup/function-found-whatever-its-flags', r is ctx.c15_v,
                    'find_func returns %r for a name bound to a function at file scope with %s: the earlier declaration is not recognised, function() creates a fresh Obj and the linkage / '
                    'definition / root marks of the first declaration are lost' % (r, ', '.join('%s=%d' % kv for kv in sorted(fl.items()))), fline, facts)
            st = [e for e in ctx.events if e[0] == 'fstore' and e[1] is ctx.c15_v]
            ag.note('lookup/leaves-the-function-unchanged', not st, 'find_func writes %s of the function it looks up' % sorted(set(e[2] for e in st)), fline, facts)
    if n == 0:
        raise AnalysisBroken('find_func: nothing explored')
    ag.flush(fline)


def r153(pe, rep):
    rep.rule('R15.8', 'the linkage of a function is fixed by its first declaration (C11 6.2.2p4/p5, 6.7.4p7): function() looks the earlier declaration up once, under the declared '
             'name; find_func returns the file-scope binding whatever its flags; a redeclaration leaves is_static (and is_function) of the existing Obj as the first declaration set it', floor=10)
    rep.rule('R15.3', 'liveness: is_root is false exactly for unreferenced static inline functions and a root mark is never withdrawn; every reference to a function is '
             'recorded (on current_fn->refs inside a function, as a root mark at file scope); current_fn designates the function exactly while its body is parsed; '
             'mark_live marks before it recurses, tests is_live, visits every recorded reference; parse marks from every root', floor=18)
    def part(fns, f):
        try:
            _need(pe.u, PU, *fns)
            f()
        except AnalysisBroken as e:
            rep.undecided('R15.3', '%s:%s:analysis' % (PU, fns[0]), 'part of the rule could not be evaluated: %s' % e)
    part(('function', 'new_gvar', 'find_func'), lambda: r153_function(pe, rep))
    part(('find_func',), lambda: r158_find_func(pe, rep))
    part(('function', 'new_gvar', 'find_func'), lambda: r158_sequences(pe, rep))
    part(('function', 'new_gvar', 'find_func'), lambda: r158_block_sequences(pe, rep))
    keep = [o for o in rep.obs if o['key'] == 'R15.3:%s:function:is_root/redeclaration-keeps-root-mark' % PU]
    permanent = bool(keep) and all(o['verdict'] == 'holds' for o in keep)
    lk = [o for o in rep.obs if o['key'] in ('R15.3:%s:function:is_root/first-declaration' % PU, 'R15.3:%s:function:is_root/redeclaration' % PU)]
    part(('primary',), lambda: r153_primary(pe, rep, permanent, len(lk) == 2 and all(o['verdict'] == 'holds' for o in lk)))
    part(('mark_live', 'find_func'), lambda: r153_mark_live(pe, rep))
    part(('parse', 'mark_live', 'scan_globals'), lambda: r153_parse(pe, rep))


# =============================================================================================
# R15.5 file-scope objects: definition / tentative flags, tentative merging
# =============================================================================================
def r155_global_variable(pe, rep):
    u = pe.u
    fline = u.fn('global_variable').line
    ag = Agg(rep, 'R15.5', PU, 'global_variable')
    n = 0
    built = pe.c15_built = {}       # (storage, thread-local, initialised) -> the flags global_variable() gives the object
    for storage in ('plain', 'static', 'extern'):
        for tls in (0, 1):
            for has_init in (0, 1):
                for aligned in (0, 1):
                    def h_consume(it, ctx, nd, args):
                        if args[2] == ';':
                            ctx.c15_k += 1
                            return 0 if ctx.c15_k == 1 else 1      # exactly one declarator, then ';'
                        return _fresh_bool(ctx, 'consume')

                    def h_equal(it, ctx, nd, args, has_init=has_init):
                        if args[1] == '=':
                            return has_init
                        if args[1] == ';':
                            return 0 if ctx.c15_k == 0 else 1
                        return _fresh_bool(ctx, 'equal')

                    def h_decl(it, ctx, nd, args):
                        ty = Obj('Type', lazy=True, label='ty')
                        ty.fields['name'] = Obj('Token', lazy=True, label='ty.name')
                        ty.fields['align'] = Sym('ty.align', 'int')
                        # a complete scalar object: which flags the object gets does not depend on its type, and the composite type a
                        # redeclared incomplete array takes from the earlier declaration is C04's R04.31
                        if 'TY_INT' in u.enums:
                            ty.fields['kind'] = u.enums['TY_INT']
                            ty.fields['size'] = 4
                        ctx.c15_ty = ty
                        return ty

                    def h_init(it, ctx, nd, args):
                        ctx.emit('init', _final(it, args[2]) if len(args) > 2 else None, nd.line)
                        return None

                    def h_ident(it, ctx, nd, args):
                        return Sym('declared-name', 'char *')
                    it = pe.interp(('global_variable', 'new_gvar', 'new_var'),
                                   cut={'consume': h_consume, 'equal': h_equal, 'declarator': h_decl, 'gvar_initializer': h_init, 'get_ident': h_ident},
                                   globals_={'globals': lambda ctx: ctx.c15_g0})

                    def mk(ctx, storage=storage, tls=tls, aligned=aligned):
                        ctx.c15_k = 0
                        ctx.c15_g0 = Obj('Obj', lazy=True, label='earlier-globals')
                        a = Obj('VarAttr', lazy=True, label='attr')
                        a.fields.update(dict(is_extern=int(storage == 'extern'), is_static=int(storage == 'static'), is_tls=tls, is_inline=0, is_typedef=0,
                                             align=64 if aligned else 0))
                        return [Obj('Token', lazy=True, label='tok'), Obj('Type', lazy=True, label='basety'), a]
                    res = _explore(it, 'global_variable', mk)
                    rets = [(c, o) for c, o in res if o[0] == 'ret']
                    cls = '%s%s/%s' % (storage, '+tls' if tls else '', 'initialised' if has_init else 'no-initialiser')
                    if not rets:
                        ag.undecided('shape/' + cls, 'global_variable has no returning path for `%s`' % cls, fline)
                        continue
                    for ctx, out in rets:
                        v = _final(it, ctx.globals.get('globals'))
                        if not isinstance(v, Obj) or v is ctx.c15_g0:
                            ag.note('list-linked', False, 'the declared object is not put at the head of `globals`', fline, {'class': cls})
                            continue
                        n += 1
                        F = lambda f: _final(it, v.fields.get(f, 0))
                        facts = {'declaration': cls, 'aligned': bool(aligned), 'object': {k: repr(F(k)) for k in ('is_definition', 'is_static', 'is_tls', 'is_tentative', 'is_function', 'is_local', 'align')}}
                        ag.note('list-linked', F('next') is ctx.c15_g0, 'the new object does not link to the earlier globals (next=%r)' % (F('next'),), fline, facts)
                        ag.note('identity', same(F('name'), Sym('declared-name')) and F('ty') is ctx.c15_ty and not F('is_function') and not F('is_local'),
                                'the object does not carry the declared name/type or is flagged as function/local', fline, facts)
                        # C11 6.9.2: extern without initialiser declares; everything else defines
                        want_def = int(storage != 'extern' or has_init)
                        ag.note('is_definition/%s/%s' % (storage, 'initialised' if has_init else 'no-initialiser'), F('is_definition') == want_def,
                                ('`extern T x = init;` is a definition (C11 6.9.2p1) but the object is left a mere declaration: it is never emitted and every reference to it is undefined at link time' if (storage == 'extern' and has_init) else
                                 'is_definition is %r for a `%s` declaration %s initialiser, expected %d' % (F('is_definition'), storage, 'with' if has_init else 'without', want_def)), fline, facts)
                        ag.note('is_static/%s' % storage, F('is_static') == int(storage == 'static'),
                                'is_static is %r for a `%s` file-scope object: %s' % (F('is_static'), storage, 'a static object would be exported (.globl)' if storage == 'static' else 'an object with external linkage would be emitted .local and be invisible to other units'), fline, facts)
                        ag.note('is_tls/%s' % ('thread-local' if tls else 'ordinary'), F('is_tls') == tls,
                                'is_tls is %r for %s object: it would be placed in %s' % (F('is_tls'), 'a _Thread_local' if tls else 'an ordinary', '.data/.bss and shared by all threads' if tls else 'a TLS section'), fline, facts)
                        want_t = int(not has_init and storage != 'extern' and not tls)
                        bf = {k: F(k) for k in ('is_definition', 'is_static', 'is_tls', 'is_tentative')}
                        if all(isinstance(x, int) for x in bf.values()):
                            built.setdefault((storage, tls, has_init), {k: int(bool(x)) for k, x in bf.items()})
                        tl_ok = False
                        if tls and not has_init and storage != 'extern' and F('is_tentative') == 1 and all(isinstance(x, int) for x in bf.values()):
                            # `_Thread_local int x;` may be declared again (with an initialiser): flagging it tentative is one way to have scan_globals merge the two,
                            # provided emit_data never turns that state into a common symbol
                            ok_, why_ = _emitted_where_declared(pe.cg, dict({k: int(bool(x)) for k, x in bf.items()}, is_function=0), 0)
                            if ok_ is None:
                                ag.undecided('is_tentative/%s' % cls, 'a thread-local object is flagged is_tentative and emit_data could not be evaluated on that state: %s' % why_, fline)
                            tl_ok = bool(ok_)
                        ag.note('is_tentative/%s' % cls, F('is_tentative') == want_t or tl_ok,
                                'is_tentative is %r for `%s`: only a definition without initialiser that is neither extern nor thread-local is tentative (a wrongly tentative object becomes a .comm symbol or is dropped as redundant; a wrongly non-tentative one clashes with its later real definition)' % (F('is_tentative'), cls), fline, facts)
                        inits = [e for e in ctx.events if e[0] == 'init']
                        ag.note('initializer-parsed', (len(inits) == 1 and inits[0][1] is v) if has_init else not inits,
                                'gvar_initializer is called %d times (for %r) for a declarator %s initialiser' % (len(inits), [e[1] for e in inits], 'with' if has_init else 'without'), fline, facts)
                        al = F('align')
                        ag.note('align/%s' % ('_Alignas' if aligned else 'type'), (al == 64) if aligned else same(al, Sym('ty.align')),
                                'the object\'s alignment is %r, expected %s' % (al, 'the _Alignas value 64' if aligned else 'the alignment of its type'), fline, facts)
    if n == 0:
        raise AnalysisBroken('global_variable: nothing explored')
    ag.flush(fline)


def r155_scan_globals(pe, rep):
    """bounded-exhaustive evaluation of scan_globals on every list of up to three file-scope objects over two names
    (tentative / initialised / extern), external and internal linkage, plus lists with functions"""
    u = pe.u
    fline = u.fn('scan_globals').line
    ag = Agg(rep, 'R15.5', PU, 'scan_globals')
    it = pe.interp(('scan_globals',), globals_={'globals': lambda ctx: ctx.c15_list[0] if ctx.c15_list else 0})
    kinds = [(nm, k) for nm in ('x', 'y') for k in 'TDE']
    lists = [()]
    for L in (1, 2, 3):
        lists += list(itertools.product(kinds, repeat=L))
    lists += [(('f', 'F'), ('x', 'T'), ('g', 'F'), ('x', 'T')), (('x', 'T'), ('f', 'F'), ('x', 'D'), ('y', 'T')), (('x', 'T'), ('x', 'T'), ('x', 'T'), ('x', 'T')),
              (('x', 'E'), ('x', 'T'), ('x', 'E'), ('x', 'T'))]
    n = 0
    for lst, static in [(l, st) for st in (0, 1) for l in lists]:
        if any(sum(1 for nm, k in lst if k == 'D' and nm == name) > 1 for name in ('x', 'y')):
            continue        # two initialised definitions of one name: not a valid program
        if static and any(k in 'EF' for nm, k in lst):
            continue        # the internal-linkage variant is run on object definitions only

        def mk(ctx, lst=lst, static=static):
            objs = []
            for idx, (nm, k) in enumerate(lst):
                o = Obj('Obj', lazy=False, label='%s%d:%s' % (nm, idx, k))
                o.fields.update(dict(name=nm, is_function=int(k == 'F'), is_definition=int(k != 'E'), is_tentative=int(k == 'T'), is_static=static, is_tls=0,
                                     is_local=0, is_root=0, next=0))
                if k != 'F':
                    # a complete scalar type (the merging of array types is r155_merge's subject)
                    ity = Obj('Type', lazy=False, label='int')
                    ity.fields.update(dict(kind=pe.E['TY_INT'], size=4, align=4, is_unsigned=0, base=0, array_len=0, origin=0, is_atomic=0))
                    o.fields['ty'] = ity
                objs.append(o)
            for a, b in zip(objs, objs[1:]):
                a.fields['next'] = b
            ctx.c15_list = objs
            return []
        res = _explore(it, 'scan_globals', mk)
        rets = [(c, o) for c, o in res if o[0] == 'ret']
        desc = ('static ' if static else '') + (' -> '.join('%s:%s' % (nm, {'T': 'tentative', 'D': 'initialised', 'E': 'extern', 'F': 'function'}[k]) for nm, k in lst) or '(empty)')
        if len(rets) != 1:
            ag.undecided('evaluation', 'scan_globals has %d returning paths on the concrete list %s' % (len(rets), desc), fline)
            continue
        n += 1
        ctx, out = rets[0]
        objs = ctx.c15_list
        outl = []
        cur = _final(it, ctx.globals.get('globals', objs[0] if objs else 0))
        ok_chain = True
        while True:
            cur = _final(it, cur)
            if isinstance(cur, int) and cur == 0:
                break
            if not isinstance(cur, Obj) or any(cur is o for o in outl) or len(outl) > 8:
                ok_chain = False; break
            outl.append(cur)
            cur = cur.fields.get('next', 0)
        facts = {'input': desc, 'output': [o.label for o in outl]}
        foreign = [o for o in outl if not any(o is x for x in objs)]
        ag.note('result/well-formed-list', ok_chain and not foreign, 'on %s scan_globals leaves a list that is cyclic, unterminated or contains foreign objects (%s)' % (desc, facts['output']), fline, facts)
        if not ok_chain or foreign:
            continue
        pos = [next(i for i, x in enumerate(objs) if x is o) for o in outl]
        # scan_globals decides which objects stay; it does not redefine what they are
        changed = []
        for o, (nm, k) in zip(objs, lst):
            was = dict(name=nm, is_function=int(k == 'F'), is_definition=int(k != 'E'), is_tentative=int(k == 'T'), is_static=static, is_tls=0)
            for f, w in was.items():
                now = _final(it, o.fields.get(f))
                if now != w:
                    changed.append('%s.%s: %r -> %r' % (o.label, f, w, now))
        ag.note('result/objects-unchanged', not changed,
                'on %s scan_globals rewrites the linkage/storage flags of the objects it walks (%s): emit_data then emits an object that is not the one declared '
                '(a definition turned tentative becomes a .comm symbol under -fcommon, a tentative one turned definite clashes with the same tentative definition of another unit)' % (desc, ', '.join(changed[:4])), fline, facts)
        ag.note('result/order-kept', pos == sorted(pos), 'on %s the surviving objects change order: %s' % (desc, facts['output']), fline, facts)
        kept = set(pos)
        lost = [objs[i].label for i, (nm, k) in enumerate(lst) if k != 'T' and i not in kept]
        ag.note('non-tentative-kept', not lost, 'on %s scan_globals removes %s, which is not a tentative definition' % (desc, lost), fline, facts)
        for name in ('x', 'y'):
            ts = [i for i, (nm, k) in enumerate(lst) if nm == name and k == 'T']
            ds = [i for i, (nm, k) in enumerate(lst) if nm == name and k == 'D']
            if not ts:
                continue
            left = [i for i in ts if i in kept]
            if ds:
                ag.note('tentative-dropped-beside-definition', not left,
                        'on %s a tentative definition of `%s` survives next to its initialised definition: the symbol is defined twice in the assembly' % (desc, name), fline, facts)
            elif len(ts) == 1:
                ag.note('single-tentative-kept', len(left) == 1, 'on %s the only definition of `%s` (tentative) is removed: the object is never emitted' % (desc, name), fline, facts)
            else:
                if len(left) == 0:
                    ag.note('repeated-tentative/one-survives', False,
                            'on %s every one of the %d tentative definitions of `%s` is removed (each is "redundant" because of the other): `int %s; int %s;` defines nothing and references are undefined at link time (C11 6.9.2p2: behaves as one definition with initialiser 0)' % (desc, len(ts), name, name, name), fline, facts)
                else:
                    ag.note('repeated-tentative/one-survives', True)
                    ag.note('repeated-tentative/only-one-survives', len(left) == 1,
                            'on %s %d tentative definitions of `%s` survive: under -fno-common the object is emitted (and its label defined) more than once' % (desc, len(left), name), fline, facts)
    if n < 200:
        ag.undecided('evaluation', 'scan_globals could be evaluated on %d lists only' % n, fline)
    ag.flush(fline)


def r155_merge(pe, rep):
    """Several declarations of one file-scope object that each define it (C11 6.9.2p2) denote ONE object: exactly one definition reaches emit_data,
    it is the initialised one if there is one, and it has the composite type (6.2.7p3: an array of unknown size declared again with a size has that size;
    6.9.2p5: an array still incomplete at the end of the unit gets one element).  Evaluated on concrete lists as global_variable() is evaluated to build them:
    thread-local objects with the flags the parser gives `_Thread_local T x;` / `_Thread_local T x = i;`, tentative arrays with an incomplete / complete type."""
    u = pe.u
    fline = u.fn('scan_globals').line
    ag = Agg(rep, 'R15.5', PU, 'scan_globals')
    E = pe.E
    built = getattr(pe, 'c15_built', None) or {}
    FL = {'L': built.get(('plain', 1, 0), dict(is_definition=1, is_static=0, is_tls=1, is_tentative=0)),
          'M': built.get(('plain', 1, 1), dict(is_definition=1, is_static=0, is_tls=1, is_tentative=0)),
          'T': built.get(('plain', 0, 0), dict(is_definition=1, is_static=0, is_tls=0, is_tentative=1)),
          'A0': built.get(('plain', 0, 0), dict(is_definition=1, is_static=0, is_tls=0, is_tentative=1)),
          'A5': built.get(('plain', 0, 0), dict(is_definition=1, is_static=0, is_tls=0, is_tentative=1))}
    DOC = {'L': '_Thread_local int %s;', 'M': '_Thread_local int %s = 3;', 'T': 'int %s;', 'A0': 'int %s[];', 'A5': 'int %s[5];'}

    def mktype(kind):
        ity = Obj('Type', lazy=False, label='int')
        ity.fields.update(dict(kind=E['TY_INT'], size=4, align=4, is_unsigned=0, base=0, array_len=0, origin=0, is_atomic=0))
        if kind not in ('A0', 'A5'):
            return ity
        n_ = -1 if kind == 'A0' else 5
        aty = Obj('Type', lazy=False, label='int[%s]' % ('' if n_ < 0 else n_))
        aty.fields.update(dict(kind=E['TY_ARRAY'], size=4 * n_, align=4, base=ity, array_len=n_, is_unsigned=0, origin=0, is_atomic=0))
        return aty

    def m_array_of(it, ctx, nd, args):
        b, ln = _final(it, args[0]), _final(it, args[1])
        if not isinstance(b, Obj) or not isinstance(ln, int):
            return it.lazy_value('Type *', ctx.fresh('array_of'))
        t = Obj('Type', lazy=False, label='array_of')
        bs = _final(it, b.fields.get('size'))
        t.fields.update(dict(kind=E['TY_ARRAY'], size=it.arith('*', bs, ln, 'int') if not isinstance(bs, int) else bs * ln, align=b.fields.get('align'), base=b, array_len=ln,
                             is_unsigned=0, origin=0, is_atomic=0))
        return t
    it = pe.interp(('scan_globals',), cut={'array_of': m_array_of}, globals_={'globals': lambda ctx: ctx.c15_list[0] if ctx.c15_list else 0})
    lists = []
    for L in (1, 2, 3):
        for ks in itertools.product(('L', 'M', 'T'), repeat=L):
            if ks.count('M') <= 1 and ('L' in ks or 'M' in ks) and not (L == 3 and 'T' in ks and ks[1] != 'T'):
                lists.append([('y' if k == 'T' else 'x', k) for k in ks])
        lists += [[('x', k) for k in ks] for ks in itertools.product(('A0', 'A5'), repeat=L)]
    lists += [[('x', 'A0'), ('y', 'T'), ('x', 'A5')], [('y', 'A5'), ('x', 'A0')]]
    emitted = {}
    n = 0
    for lst in lists:
        def mk(ctx, lst=lst):
            objs = []
            for idx, (nm, k) in enumerate(lst):
                o = Obj('Obj', lazy=False, label='%s%d:%s' % (nm, idx, k))
                o.fields.update(dict(name=nm, is_function=0, is_local=0, is_root=0, next=0, ty=mktype(k), align=4, init_data=_nonnull_sym(ctx, 'image', 'char *') if k == 'M' else 0, rel=0))
                o.fields.update(FL[k])
                objs.append(o)
            for a, b in zip(objs, objs[1:]):
                a.fields['next'] = b
            ctx.c15_list = objs
            return []
        # `globals` is in reverse order of declaration (new_gvar pushes at the head)
        desc = ' '.join(DOC[k] % nm for nm, k in reversed(lst))
        try:
            res = _explore(it, 'scan_globals', mk)
        except AnalysisBroken as e:
            ag.undecided('merge/evaluation', 'scan_globals could not be evaluated on `%s`: %s' % (desc, e), fline)
            continue
        rets = [(c, o) for c, o in res if o[0] == 'ret']
        if len(rets) != 1 or len(res) != 1:
            ag.undecided('merge/evaluation', 'scan_globals has %d paths (%d returning) on the concrete declarations `%s`' % (len(res), len(rets), desc), fline)
            continue
        ctx, out = rets[0]
        objs = ctx.c15_list
        outl, cur, okc = [], _final(it, ctx.globals.get('globals', objs[0])), True
        while True:
            cur = _final(it, cur)
            if isinstance(cur, int) and cur == 0:
                break
            if not isinstance(cur, Obj) or not any(cur is o for o in objs) or any(cur is o for o in outl):
                okc = False; break
            outl.append(cur)
            cur = cur.fields.get('next', 0)
        if not okc:
            ag.undecided('merge/evaluation', 'the list scan_globals leaves for `%s` is not a sub-list of its input' % desc, fline)
            continue
        n += 1
        kept = [i for i, o in enumerate(objs) if any(o is x for x in outl)]
        facts = {'declarations': desc, 'globals (head first)': [o.label for o in objs], 'after scan_globals': [o.label for o in outl]}
        others = [i for i, (nm, k) in enumerate(lst) if nm == 'y']
        ag.note('merge/other-objects-kept', not others or len([i for i in others if i in kept]) == 1, 'on `%s` `y` is not left with exactly one definition' % desc, fline, facts)
        xs = [i for i, (nm, k) in enumerate(lst) if nm == 'x']
        left = [i for i in xs if i in kept]
        kinds = [lst[i][1] for i in xs]
        if 'L' in kinds or 'M' in kinds:
            if 'M' in kinds:
                im = [i for i in xs if lst[i][1] == 'M'][0]
                ag.note('thread-local/initialised-definition-kept', im in left, 'on `%s` the initialised definition of the thread-local object is removed' % desc, fline, facts)
                ag.note('thread-local/no-initialiser-dropped-beside-definition', [i for i in left if i != im] == [],
                        'on `%s` %d definition(s) of the thread-local `x` without initialiser reach emit_data next to its initialised definition: `_Thread_local T x;` may be followed by '
                        '`_Thread_local T x = i;` like any file-scope object, both denote one object; the label `x:` is emitted in .tbss and again in .tdata (assembler: symbol `x\' is already defined)'
                        % (desc, len([i for i in left if i != im])), fline, facts)
            elif len(xs) > 1:
                ag.note('thread-local/repeated-no-initialiser/one-survives', len(left) >= 1, 'on `%s` every declaration of the thread-local `x` is removed: it is never defined' % desc, fline, facts)
                ag.note('thread-local/repeated-no-initialiser/only-one-survives', len(left) <= 1,
                        'on `%s` %d definitions of the thread-local `x` reach emit_data: repeating `_Thread_local T x;` declares one object, but the label `x:` is emitted %d times in .tbss '
                        '(assembler: symbol `x\' is already defined)' % (desc, len(left), len(left)), fline, facts)
            else:
                ag.note('thread-local/single-definition-kept', len(left) == 1, 'on `%s` the only definition of the thread-local `x` is removed' % desc, fline, facts)
            for i in left:
                o = objs[i]
                fl = {k: _final(it, o.fields.get(k)) for k in ('is_definition', 'is_static', 'is_tls', 'is_tentative', 'is_function')}
                hi = int(lst[i][1] == 'M')
                if not all(isinstance(x, int) for x in fl.values()):
                    ag.undecided('thread-local/survivor-emitted-where-declared', 'the flags of the surviving object are not concrete: %r' % fl, fline)
                    continue
                fl = {k: int(bool(x)) for k, x in fl.items()}
                if not fl['is_definition'] or not fl['is_tls'] or fl['is_function']:
                    ag.note('thread-local/survivor-emitted-where-declared', False, 'on `%s` the surviving object is no longer a thread-local definition: %r' % (desc, fl), fline, facts)
                    continue
                if not fl['is_tentative']:
                    ag.note('thread-local/survivor-emitted-where-declared', True)      # inside the table R15.1 verifies
                    continue
                kk = (tuple(sorted(fl.items())), hi)
                if kk not in emitted:
                    emitted[kk] = _emitted_where_declared(pe.cg, fl, hi)
                ok_, why_ = emitted[kk]
                if ok_ is None:
                    ag.undecided('thread-local/survivor-emitted-where-declared', 'emit_data could not be evaluated on the surviving object (%r): %s' % (fl, why_), fline)
                else:
                    ag.note('thread-local/survivor-emitted-where-declared', ok_, 'on `%s` the surviving thread-local object is flagged is_tentative; %s' % (desc, why_), fline, facts)
        else:
            if len(left) != 1:
                continue        # R15.5 repeated-tentative/* (every list of tentative definitions) reports that
            o = objs[left[0]]
            ty = _final(it, o.fields.get('ty'))
            sz = _final(it, ty.fields.get('size')) if isinstance(ty, Obj) else None
            ln = _final(it, ty.fields.get('array_len')) if isinstance(ty, Obj) else None
            facts['type of the surviving object'] = {'size': repr(sz), 'array_len': repr(ln)}
            if not isinstance(sz, int):
                ag.undecided('array-type/size-of-survivor', 'the size of the surviving object\'s type is not concrete on `%s`: %r' % (desc, sz), fline)
                continue
            if 'A5' in kinds:
                ag.note('array-type/composite-type-of-survivor', sz == 20,
                        'on `%s` the one object that reaches emit_data has a type of size %d: the declarations denote one object whose type is the composite type int[5] (C11 6.2.7p3/p4), 20 bytes. '
                        'scan_globals keeps one of the tentative definitions without looking at the types, so the incomplete declaration `int x[]` (size = -sizeof(int)) decides the storage: '
                        '`.comm x, -4` / `.zero -4` -- the assembler ignores the size and every reference to x is undefined at link time' % (desc, sz), fline, facts)
            else:
                ag.note('array-type/incomplete-array-completed', sz == 4 and (ln is None or ln == 1),
                        'on `%s` the object reaches emit_data with a type of size %d: an array whose type is still incomplete at the end of the translation unit is defined with one element '
                        '(C11 6.9.2p5, 4 bytes here); emit_data prints the negative size of the incomplete type (`.comm x, -4, 4`), the assembler ignores it and x is undefined at link time' % (desc, sz), fline, facts)
    if n < 30:
        ag.undecided('merge/evaluation', 'scan_globals could be evaluated on %d of %d declaration lists only' % (n, len(lists)), fline)
    ag.flush(fline)


def r155(pe, rep):
    rep.rule('R15.5', 'file-scope objects: is_definition / is_static / is_tls / is_tentative follow C11 6.9.2 from (storage class, _Thread_local, initialiser); '
             'scan_globals removes exactly the tentative definitions made redundant by another definition, keeps one of several tentative ones, keeps order, leaves the flags of every object as declared', floor=31)

    def part(fns, f):
        try:
            _need(pe.u, PU, *fns)
            f()
        except AnalysisBroken as e:
            rep.undecided('R15.5', '%s:%s:analysis' % (PU, fns[0]), 'part of the rule could not be evaluated: %s' % e)
    part(('global_variable', 'new_gvar'), lambda: r155_global_variable(pe, rep))
    part(('scan_globals',), lambda: r155_scan_globals(pe, rep))
    part(('scan_globals',), lambda: r155_merge(pe, rep))


# =============================================================================================
# R15.6 static locals and string literals are anonymous static globals
# =============================================================================================
def r156(pe, rep):
    rep.rule('R15.6', 'string literals, block-scope static objects and static compound literals are created by new_anon_gvar: a fresh assembler-local name (.L..n) per object, is_static, '
             'is_definition, on `globals` (not `locals`); the block-scope identifier is bound to that object; _Thread_local and the initialiser are honoured: the flag state the parser '
             'builds is one emit_data places in the section the declaration demands (never a common symbol for a thread-local or initialised object) under -fcommon and -fno-common; '
             'gvar_initializer installs init_data and leaves the flags alone; every writer of is_tentative is evaluated by a rule; the compound-literal decision is evaluated in the '
             'parser context (file-scope flags) gvar_initializer really establishes for the parse of an initialiser, that context holds for the whole initialiser -- a nested activation '
             '(compound literal inside the initialiser) returns with the context it was entered with -- and is gone after the outermost one', floor=34)
    u = pe.u
    _need(u, PU, 'new_gvar', 'new_anon_gvar', 'new_string_literal', 'declaration')
    ag = Agg(rep, 'R15.6', PU, 'new_anon_gvar')
    fline = u.fn('new_anon_gvar').line
    keep = ('new_anon_gvar', 'new_gvar', 'new_var', 'new_unique_name', 'new_string_literal')
    it = pe.interp(keep, globals_={'globals': lambda ctx: ctx.c15_g0})

    def mk(ctx):
        ctx.c15_g0 = Obj('Obj', lazy=True, label='earlier-globals')
        ctx.c15_ty1 = Obj('Type', lazy=True, label='ty1'); ctx.c15_ty1.fields['align'] = Sym('ty1.align', 'int')
        ctx.c15_ty2 = Obj('Type', lazy=True, label='ty2'); ctx.c15_ty2.fields['align'] = Sym('ty2.align', 'int')
        ctx.c15_first = it.call_fn(u, u.fn('new_anon_gvar'), [ctx.c15_ty1])
        return [Sym('bytes', 'char *'), ctx.c15_ty2]
    res = _explore(it, 'new_string_literal', mk)
    rets = [(c, o) for c, o in res if o[0] == 'ret']
    if len(rets) != 1:
        ag.undecided('evaluation', 'new_anon_gvar followed by new_string_literal has %d returning paths' % len(rets), fline)
    else:
        ctx, out = rets[0]
        a, b = _final(it, ctx.c15_first), _final(it, out[1])
        if not isinstance(a, Obj) or not isinstance(b, Obj):
            ag.undecided('evaluation', 'the constructors do not return objects (%r, %r)' % (a, b), fline)
        else:
            na, nb = a.fields.get('name'), b.fields.get('name')
            facts = {'first': {k: repr(v) for k, v in a.fields.items()}, 'second': {k: repr(v) for k, v in b.fields.items()}}
            ag.note('name/fresh-per-object', isinstance(na, str) and isinstance(nb, str) and na != nb,
                    'two anonymous objects get the names %r and %r: distinct string literals / static locals would share one symbol' % (na, nb), fline, facts)
            ag.note('name/assembler-local', isinstance(na, str) and na.startswith('.L') and isinstance(nb, str) and nb.startswith('.L'),
                    'anonymous objects are named %r / %r: without the .L prefix the name can collide with a C identifier and lands in the symbol table' % (na, nb), fline, facts)
            for tag, o, ty in (('first', a, ctx.c15_ty1), ('second', b, ctx.c15_ty2)):
                F = lambda f: _final(it, o.fields.get(f, 0))
                ag.note('flags/static-definition', F('is_static') == 1 and F('is_definition') == 1 and not F('is_local') and not F('is_function') and not F('is_tentative'),
                        'an anonymous global is created with is_static=%r is_definition=%r is_local=%r is_function=%r is_tentative=%r: it must be a static, defined, non-local object '
                        '(else it is exported with .globl / skipped by emit_data / addressed through %%rbp)' % (F('is_static'), F('is_definition'), F('is_local'), F('is_function'), F('is_tentative')), u.fn('new_gvar').line, facts)
                ag.note('type-and-alignment', F('ty') is ty and same(F('align'), ty.fields['align']), 'the object does not carry the given type and its alignment', u.fn('new_var').line if 'new_var' in u.functions else fline, facts)
            g = _final(it, ctx.globals.get('globals'))
            ag.note('on-globals-list', g is b and _final(it, b.fields.get('next')) is a and _final(it, a.fields.get('next')) is ctx.c15_g0,
                    'the created objects are not chained onto `globals` (they would never reach emit_data)', u.fn('new_gvar').line, facts)
            ag.note('string-literal-contents', same(b.fields.get('init_data'), Sym('bytes')), 'new_string_literal does not install the literal\'s bytes as init_data (%r)' % (b.fields.get('init_data'),), u.fn('new_string_literal').line, facts)
    ag.flush(fline)
    # ---- block-scope `static` ---------------------------------------------------------------------------------------
    ag = Agg(rep, 'R15.6', PU, 'declaration')
    fline = u.fn('declaration').line
    E = pe.E
    n = 0
    for tls, has_init, aligned in [(t_, h_, a_) for t_ in (0, 1) for h_ in (0, 1) for a_ in (0, 1)]:
        if True:
            def h_equal(it, ctx, nd, args, has_init=has_init):
                if args[1] == ';':
                    return 0 if ctx.c15_k == 0 else 1
                if args[1] == '=':
                    return has_init
                return _fresh_bool(ctx, 'equal')

            def h_decl(it, ctx, nd, args):
                ctx.c15_k += 1
                ty = Obj('Type', lazy=True, label='ty')
                ty.fields.update(dict(kind=E['TY_INT'], size=4, align=4, name=Obj('Token', lazy=True, label='ty.name')))
                ctx.c15_ty = ty
                return ty

            def h_ident(it, ctx, nd, args):
                return Sym('declared-name', 'char *')

            def h_push(it, ctx, nd, args):
                sc = Obj('VarScope', lazy=False, label='scope-entry')
                ctx.emit('push_scope', args[0], sc, nd.line)
                return sc

            def h_init(it, ctx, nd, args):
                ctx.emit('init', _final(it, args[2]) if len(args) > 2 else None, nd.line)
                return None
            it = pe.interp(('declaration',) + keep, opaque=('new_alloca', 'new_vla_ptr'),
                           cut={'equal': h_equal, 'declarator': h_decl, 'get_ident': h_ident, 'push_scope': h_push, 'gvar_initializer': h_init},
                           globals_={'globals': lambda ctx: ctx.c15_g0, 'locals': lambda ctx: ctx.c15_l0})

            def mk(ctx, tls=tls, aligned=aligned):
                ctx.c15_k = 0
                ctx.c15_g0 = Obj('Obj', lazy=True, label='earlier-globals')
                ctx.c15_l0 = Obj('Obj', lazy=True, label='earlier-locals')
                a = Obj('VarAttr', lazy=True, label='attr')
                a.fields.update(dict(is_static=1, is_extern=0, is_tls=tls, is_inline=0, is_typedef=0, align=64 if aligned else 0))
                return [Sym('rest', 'Token **'), Obj('Token', lazy=True, label='tok'), Obj('Type', lazy=True, label='basety'), a]
            res = _explore(it, 'declaration', mk)
            rets = [(c, o) for c, o in res if o[0] == 'ret']
            if not rets:
                ag.undecided('static-local/evaluation', 'declaration() has no returning path for a block-scope static object', fline)
                continue
            for ctx, out in rets:
                n += 1
                g = _final(it, ctx.globals.get('globals', ctx.c15_g0))
                facts = {'declaration': 'static %s%sint x%s;' % ('_Alignas(64) ' if aligned else '', '_Thread_local ' if tls else '', ' = init' if has_init else ''), 'path': ctx.trail[-4:]}
                isobj = isinstance(g, Obj) and g is not ctx.c15_g0 and not g.lazy
                ag.note('static-local/is-anonymous-global', isobj and _final(it, ctx.globals.get('locals', ctx.c15_l0)) is ctx.c15_l0,
                        'a block-scope static object is not created as a new object on `globals` (or it is put on `locals`): it would live in the stack frame and lose its value between calls', fline, facts)
                if not isobj:
                    continue
                F = lambda f: _final(it, g.fields.get(f, 0))
                facts['object'] = {k: repr(F(k)) for k in ('name', 'is_static', 'is_definition', 'is_local', 'is_tls', 'is_tentative')}
                ag.note('static-local/internal-linkage', F('is_static') == 1 and F('is_definition') == 1 and not F('is_local') and isinstance(F('name'), str) and F('name').startswith('.L'),
                        'a block-scope static object gets name=%r is_static=%r is_definition=%r is_local=%r: it must be a defined static object under a unique assembler-local name '
                        '(two functions may both have `static int n;`)' % (F('name'), F('is_static'), F('is_definition'), F('is_local')), fline, facts)
                ps = [e for e in ctx.events if e[0] == 'push_scope' and same(e[1], Sym('declared-name'))]
                ag.note('static-local/name-bound-to-object', len(ps) == 1 and _final(it, ps[0][2].fields.get('var')) is g,
                        'the declared identifier is not bound (push_scope(name)->var) to the anonymous global: uses of the name do not reach the static object', fline, facts)
                ag.note('static-local/thread-local-flag/%s' % ('thread-local' if tls else 'ordinary'), F('is_tls') == tls,
                        ('`static _Thread_local` at block scope creates an ordinary static object (is_tls stays %r): it is placed in .data/.bss and shared by all threads instead of being per-thread' % F('is_tls')) if tls else
                        'an ordinary block-scope static object is flagged thread-local', fline, facts)
                al = F('align')
                ag.note('static-local/align/%s' % ('_Alignas' if aligned else 'type'), (al == 64) if aligned else (al == 4),
                        ('a block-scope static object declared `_Alignas(64)` gets alignment %r (the alignment of its type is 4): the requested alignment does not reach the object emit_data '
                         'places (.align), as it does for the same declaration at file scope' % (al,)) if aligned else
                        'a block-scope static object without alignment specifier gets alignment %r, its type has 4' % (al,), fline, facts)
                _judge_built_state(pe.cg, ag, 'static-local', 'a block-scope static object', F, tls, has_init, fline, facts)
                inits = [e for e in ctx.events if e[0] == 'init']
                ag.note('static-local/initializer', (len(inits) == 1 and inits[0][1] is g) if has_init else not inits,
                        'the initialiser of a block-scope static object is %s' % ('not evaluated at translation time into the object (gvar_initializer calls: %d)' % len(inits) if has_init else 'invented'), fline, facts)
    if n == 0:
        raise AnalysisBroken('declaration(): static-local arm not reached')
    ag.flush(fline)
    sc = {}

    def static_context(pe, rep, keep):
        sc['states'] = r156_static_context(pe, rep, keep)
    for fns, f, tag in ((('gvar_initializer', 'postfix'), static_context, 'gvar_initializer:static-context'),
                        (('postfix', 'gvar_initializer'), lambda pe_, rep_, keep_: r156_compound_literal(pe_, rep_, keep_, sc.get('states')), 'postfix'),
                        (('gvar_initializer',), r156_gvar_initializer, 'gvar_initializer'), ((), r156_flag_writers, 'is_tentative-writers')):
        try:
            _need(u, PU, *fns)
            f(pe, rep, keep)
        except AnalysisBroken as e:
            rep.undecided('R15.6', '%s:%s:analysis' % (PU, tag), 'part of the rule could not be evaluated: %s' % e)


def r156_compound_literal(pe, rep, keep, states=None):
    """postfix(): `(T){...}` at file scope or inside the initialiser of a static object is an anonymous static object like a string literal;
    inside a function body it is an automatic object.  `states` (r156_static_context): the values the parser's context flags have at program start
    and while gvar_initializer has the initialiser of a static object parsed -- the flag postfix() reads is not known by name"""
    u = pe.u
    if states is None:
        states = {'initial': {}, 'regions': [], 'skip-static-initialiser': True}
    s0 = states['initial']
    ag = Agg(rep, 'R15.6', PU, 'postfix')
    fline = u.fn('postfix').line

    def h_equal(it, ctx, nd, args):
        if args[0] is ctx.c15_tok and args[1] == '(':
            return 1
        if getattr(ctx, 'c15_ty', None) is not None:
            # the input judged is `(T){...}` followed by a token that is no postfix operator: what postfix() applies to the literal
            # afterwards ([], (), ., ->, ++, --) does not change which object the literal is
            return 0
        return _fresh_bool(ctx, 'equal')

    def h_typename(it, ctx, nd, args):
        ty = Obj('Type', lazy=True, label='ty')
        ty.fields.update(dict(size=4, align=4))
        ctx.c15_ty = ty
        return ty

    def h_skip(it, ctx, nd, args):
        return Obj('Token', lazy=True, label=ctx.fresh('tok'))

    def h_init(it, ctx, nd, args):
        ctx.emit('init', _final(it, args[2]) if len(args) > 2 else None, nd.line)
        return None

    def h_varnode(it, ctx, nd, args):
        ctx.emit('var_node', _final(it, args[0]) if args else None, nd.line)
        n_ = Obj('Node', lazy=True, label='var-node')
        n_.fields['var'] = args[0] if args else 0
        return n_
    it = pe.interp(('postfix',) + tuple(keep), opaque=('primary', 'funcall', 'new_lvar', 'lvar_initializer', 'new_binary', 'new_unary', 'struct_ref', 'new_inc_dec'),
                   cut={'equal': h_equal, 'is_typename': lambda it_, ctx, nd, args: 1, 'typename': h_typename, 'skip': h_skip, 'gvar_initializer': h_init, 'new_var_node': h_varnode},
                   globals_=dict({'globals': lambda ctx: ctx.c15_g0, 'locals': lambda ctx: ctx.c15_l0, 'scope': lambda ctx: ctx.c15_scope},
                                 **{v: (lambda ctx, v=v: ctx.c15_state[v]) for v in s0}))
    n = 0
    # a literal nested in the initialiser of a file-scope object is parsed at file scope *and* in the context of a static initialiser
    cases = ([('file-scope', s0)] + [('file-scope-initialiser', st) for w, st in states['regions'] if w == 'static-initialiser' and st != s0] +
             [(w, st) for w, st in states['regions']] + [('function-body', s0)])
    for where, state in cases:
        def mk(ctx, where=where, state=state):
            ctx.c15_g0 = Obj('Obj', lazy=True, label='earlier-globals')
            ctx.c15_l0 = Obj('Obj', lazy=True, label='earlier-locals')
            sc = Obj('Scope', lazy=True, label='scope')
            sc.fields['next'] = 0 if where.startswith('file-scope') else Obj('Scope', lazy=True, label='outer-scope')
            ctx.c15_scope = sc
            ctx.c15_state = dict(s0, **state)
            ctx.c15_tok = Obj('Token', lazy=True, label='tok')
            return [Sym('rest', 'Token **'), ctx.c15_tok]
        res = _explore(it, 'postfix', mk)
        rets = [(c, o) for c, o in res if o[0] == 'ret']
        key = 'compound-literal/' + where
        if not rets:
            ag.undecided(key + '/evaluation', 'postfix() has no returning path for `(T){...}` (%s)' % where, fline)
            continue
        for ctx, out in rets:
            n += 1
            g = _final(it, ctx.globals.get('globals', ctx.c15_g0))
            inits = [e for e in ctx.events if e[0] == 'init']
            facts = {'compound literal': where, 'path': ctx.trail[-4:]}
            if s0:
                facts['parser context'] = dict(s0, **state)
            if where == 'function-body':
                ag.note(key + '/automatic-object', g is ctx.c15_g0 and not inits,
                        'a compound literal in a function body is put on `globals` / initialised at translation time: it has automatic storage (C11 6.5.2.5p5), '
                        'one object per evaluation of the enclosing block, initialised each time', fline, facts)
                continue
            isobj = isinstance(g, Obj) and g is not ctx.c15_g0 and not g.lazy
            ag.note(key + '/is-anonymous-global', isobj and _final(it, ctx.globals.get('locals', ctx.c15_l0)) is ctx.c15_l0,
                    'a compound literal with static storage duration (%s) is not created as a new object on `globals`%s' % (where, '' if where.startswith('file-scope') else
                    ': with the parser context gvar_initializer() establishes while it has the initialiser of a block-scope static object parsed (%s; %s) postfix() makes the literal '
                    'an automatic object of the enclosing function -- the static object is initialised with the address of a stack slot that has no symbol (C11 6.5.2.5p5)'
                    % (_state_doc(dict(s0, **state)), 'outermost initialiser' if where == 'static-initialiser' else 'initialiser of a compound literal nested in it')), fline, facts)
            if not isobj:
                continue
            F = lambda f: _final(it, g.fields.get(f, 0))
            facts['object'] = {k: repr(F(k)) for k in ('name', 'is_static', 'is_definition', 'is_local', 'is_tls', 'is_tentative')}
            ag.note(key + '/internal-linkage', F('is_static') == 1 and F('is_definition') == 1 and not F('is_local') and not F('is_function') and isinstance(F('name'), str) and F('name').startswith('.L'),
                    'a static compound literal gets name=%r is_static=%r is_definition=%r is_local=%r: it must be a defined static object under a unique assembler-local name' % (F('name'), F('is_static'), F('is_definition'), F('is_local')), fline, facts)
            ag.note(key + '/initializer', len(inits) == 1 and inits[0][1] is g,
                    'the braces of a static compound literal are not evaluated at translation time into the object (gvar_initializer calls: %d)' % len(inits), fline, facts)
            vn = [e for e in ctx.events if e[0] == 'var_node']
            r = _final(it, out[1])
            ag.note(key + '/value-is-the-object', len(vn) == 1 and vn[0][1] is g and isinstance(r, Obj) and _final(it, r.fields.get('var')) is g,
                    'the expression does not denote the anonymous object created for the literal', fline, facts)
            tl = F('is_tls')
            if tl not in (0, 1):
                ag.undecided(key + '/emitted-where-declared', 'is_tls of the literal\'s object is not concrete: %r' % (tl,), fline)
            else:
                ag.note(key + '/ordinary-storage', tl == 0, 'a compound literal is flagged thread-local: no declaration asked for that', fline, facts)
                _judge_built_state(pe.cg, ag, key, 'a static compound literal', F, tl, 1, fline, facts)
    if n == 0:
        raise AnalysisBroken('postfix(): compound-literal arm not reached')
    ag.flush(fline)


_INT_TYPES = ('bool', '_Bool', 'char', 'signed char', 'unsigned char', 'short', 'unsigned short', 'int', 'unsigned int', 'long', 'unsigned long',
              'long long', 'unsigned long long')
MAX_CONTEXT_LEVELS = 3


def _state_doc(st):
    return ', '.join('%s=%r' % kv for kv in sorted(st.items())) or 'no context flag'


def _lvalue_of_write(nd):
    """the object a node stores to (assignment, compound assignment, ++/--) or whose address it takes, else None"""
    if nd.kind in ('BinaryOperator', 'CompoundAssignOperator') and nd.opcode and nd.opcode.endswith('=') and nd.opcode not in ('==', '!=', '<=', '>=') and nd.inner:
        return nd.inner[0].strip()
    if nd.kind == 'UnaryOperator' and nd.opcode in ('++', '--', '&') and nd.inner:
        return nd.inner[0].strip()
    return None


def _context_scalars(u):
    """integer objects defined at file scope in this unit that some function writes: parser context kept outside the token stream.
    Returns ({name: set(writer functions)}, {name: set(reader functions)})"""
    cand = {}
    for n_, g in u.globals.items():
        if g.d.get('storageClass') == 'extern':
            continue
        t = (g.dtype or g.type or '').replace('volatile ', '').strip()
        if t in _INT_TYPES or t.startswith('enum '):
            cand[g.id] = n_
    writers, readers = {}, {}
    for fname, fd in u.functions.items():
        stores = set()
        for nd in fd.walk():
            lv = _lvalue_of_write(nd)
            if lv is not None and lv.kind == 'DeclRefExpr' and lv.ref_id in cand:
                writers.setdefault(cand[lv.ref_id], set()).add(fname)
                if nd.opcode == '=':
                    stores.add(id(lv))
        for nd in fd.walk():
            if nd.kind == 'DeclRefExpr' and nd.ref_id in cand and id(nd) not in stores:
                readers.setdefault(cand[nd.ref_id], set()).add(fname)
    return writers, readers


def r156_static_context(pe, rep, keep):
    """postfix() decides the storage duration of a compound literal by parser context kept in file-scope flags.  The compound-literal rule is
    evaluated in the context gvar_initializer() really establishes for the parse of the initialiser (not in a context assumed by name), and the
    context is a region: it holds for the whole parse of the initialiser -- gvar_initializer() is re-entered from inside its own region (a compound
    literal in the initialiser) and that inner activation must hand the region back as it found it -- and it ends with the initialiser.
    Returns the context states for r156_compound_literal"""
    u = pe.u
    ag = Agg(rep, 'R15.6', PU, 'gvar_initializer')
    fline = u.fn('gvar_initializer').line
    writers, readers = _context_scalars(u)
    names = sorted(writers)
    probe = pe.interp(('gvar_initializer',), opaque=('write_gvar_data',))
    s0 = {}
    for v in names:
        x = _final(probe, _initial_global(probe, pe.P, v))
        if not isinstance(x, int):
            raise AnalysisBroken('initial value of the context flag %s is not concrete: %r' % (v, x))
        s0[v] = x
    # call graph of the unit; R = functions from which a reader of a context flag is reachable
    calls = {f: {n_.ref_name for n_ in fd.walk() if n_.kind == 'DeclRefExpr' and n_.ref_kind == 'FunctionDecl' and n_.ref_name in u.functions} for f, fd in u.functions.items()}

    def reach(srcs):
        seen, todo = set(srcs), list(srcs)
        while todo:
            for g in calls.get(todo.pop(), ()):
                if g not in seen:
                    seen.add(g); todo.append(g)
        return seen
    read_by = set()
    for v in names:
        read_by |= readers.get(v, set())
    R = {f for f in u.functions if reach([f]) & read_by}
    # private helpers of gvar_initializer are evaluated with it (also one that does the parse on its behalf); a function that reads the context is not a helper
    pure_readers = read_by - set().union(*writers.values()) - {'gvar_initializer'} if names else set()
    inl = pe.inlined(('gvar_initializer',), pure_readers | {'write_gvar_data'})
    R -= inl
    region_callees = sorted({g for f in inl for g in calls.get(f, ()) if g in R})
    local_writers = sorted(v for v in names if writers[v] & inl)

    def snap(it, ctx):
        return {v: _final(it, ctx.globals[v]) if v in ctx.globals else ctx.c15_state[v] for v in names}

    def h_region(it, ctx, nd, args):
        cf = _final(it, ctx.globals.get('current_fn', ctx.c15_cf))
        ctx.emit('region', nd.callee(), snap(it, ctx), nd.line, 'kept' if cf is ctx.c15_cf else ('null' if isinstance(cf, int) and cf == 0 else 'other'))
        return it.lazy_value(nd.dtype or nd.type or 'void *', ctx.fresh('parsed'))
    it = pe.interp(('gvar_initializer',), opaque=('write_gvar_data',) + tuple(sorted(pure_readers - set(region_callees))), cut={f: h_region for f in region_callees},
                   globals_=dict({v: (lambda ctx, v=v: ctx.c15_state[v]) for v in names}, current_fn=lambda ctx: ctx.c15_cf))
    reentrant = 'gvar_initializer' in reach(region_callees)
    # 'enclosing-function': what current_fn is while the initialiser is parsed, when gvar_initializer() is entered inside a function body
    result = {'initial': s0, 'regions': [], 'enclosing-function': []}
    if not region_callees:
        ag.undecided('static-context/evaluation', 'gvar_initializer() calls no function that parses an initialiser (none of its callees reaches a reader of the parser context %s): '
                     'where the initialiser of a static object is parsed is not recognised' % names, fline)
        result['skip-static-initialiser'] = True
        ag.flush(fline)
        return result
    if names and not local_writers:
        # the flags exist and are written, but not here: the region is established by somebody else (refactoring), outside this evaluation
        ag.undecided('static-context/evaluation', 'the parser context %s is written by %s and not by gvar_initializer(): which context holds while the initialiser of a static '
                     'object is parsed is not recognised' % (names, sorted(set().union(*[writers[v] for v in names]))), fline)
        result['skip-static-initialiser'] = True
        ag.flush(fline)
        return result
    shared = {v: sorted(writers[v] - inl) for v in local_writers if writers[v] - inl}
    if shared:
        ag.undecided('static-context/evaluation', 'the parser context gvar_initializer() establishes is also written by other functions (%s): whether it still holds at every compound literal '
                     'of the initialiser is not decided by evaluating gvar_initializer() alone' % '; '.join('%s: %s' % (v, ', '.join(fs)) for v, fs in sorted(shared.items())), fline)
    done, todo, level, nexp = [], [s0], 0, 0
    while todo and level < MAX_CONTEXT_LEVELS:
        nxt = []
        for entry in todo:
            done.append(entry)
            tag = 'outermost' if level == 0 else 'nested'

            def mk(ctx, entry=entry):
                ctx.c15_state = dict(entry)
                ctx.c15_cf = Obj('Obj', lazy=True, label='enclosing-function')
                v = Obj('Obj', lazy=True, label='var')
                ty = Obj('Type', lazy=True, label='ty')
                ty.fields['size'] = Sym('ty.size', 'int')
                v.fields['ty'] = ty
                return [Sym('rest', 'Token **'), Obj('Token', lazy=True, label='tok'), v]
            res = _explore(it, 'gvar_initializer', mk)
            rets = [(c, o) for c, o in res if o[0] == 'ret']
            if not rets:
                ag.undecided('static-context/evaluation', 'gvar_initializer has no returning path (parser context on entry: %s)' % _state_doc(entry), fline)
                continue
            for ctx, out in rets:
                nexp += 1
                regs = [e for e in ctx.events if e[0] == 'region']
                end = snap(it, ctx)
                facts = {'parser context on entry': dict(entry), 'while the initialiser is parsed': [dict(e[2], call=e[1]) for e in regs], 'on return': dict(end), 'path': ctx.trail[-4:]}
                bad = [v for st in [e[2] for e in regs] + [end] for v in names if not isinstance(st[v], int)]
                if bad or not regs:
                    ag.undecided('static-context/evaluation', ('the value of %s is not concrete' % sorted(set(bad))) if bad else 'a returning path of gvar_initializer() parses no initialiser', fline)
                    continue
                ch = ['%s: %r on entry, %r on return' % (v, entry[v], end[v]) for v in names if end[v] != entry[v]]
                if level == 0:
                    ag.note('static-context/ends-with-the-initialiser', not ch,
                            'after gvar_initializer() has returned to a caller outside any static initialiser the parser context is changed (%s): postfix() reads it, so a compound literal '
                            'in a function body that follows the declaration is no longer judged in the context of that body (automatic object, C11 6.5.2.5p5)' % '; '.join(ch), fline, facts)
                else:
                    ag.note('static-context/nested-initialiser-hands-the-region-back', not ch,
                            'gvar_initializer() is re-entered while the initialiser of a static object is being parsed (a compound literal in that initialiser: %s -> ... -> postfix -> gvar_initializer) '
                            'and returns with the parser context changed (%s): the rest of the outer initialiser is parsed as if it were not the initialiser of a static object -- every '
                            'later compound literal in it becomes an automatic object of the enclosing function, and the static object is initialised with the address of a stack slot '
                            '(relocation against an empty symbol); the context must be restored to what it was on entry, not reset' % ('/'.join(region_callees), '; '.join(ch)), fline, facts)
                for e in regs:
                    st = {v: e[2][v] for v in names}
                    w = 'static-initialiser' if level == 0 else 'nested-static-initialiser'
                    if (w, st) not in result['regions'] and not (level > 0 and ('static-initialiser', st) in result['regions']):
                        result['regions'].append((w, st))
                    if (st, e[4]) not in result['enclosing-function']:
                        result['enclosing-function'].append((st, e[4]))
                    if reentrant and st not in done and st not in nxt:
                        nxt.append(st)
        todo = nxt
        level += 1
    if nexp == 0:
        raise AnalysisBroken('gvar_initializer: static-context: nothing explored')
    if names and not reentrant:
        ag.undecided('static-context/nested-initialiser-hands-the-region-back', 'gvar_initializer() is not reachable from the calls it makes to have the initialiser parsed (%s): '
                     'the compound-literal arm of postfix() is verified to call it, so the call graph of parse.c is not understood' % region_callees, fline)
    ag.flush(fline)
    return result


def r156_gvar_initializer(pe, rep, keep):
    """the parser rules above cut gvar_initializer (\"the object now has an initialiser\"): it installs init_data and leaves every linkage/storage flag alone"""
    u = pe.u
    ag = Agg(rep, 'R15.6', PU, 'gvar_initializer')
    fline = u.fn('gvar_initializer').line
    FL = ('is_static', 'is_definition', 'is_tentative', 'is_tls')

    def h_initializer(it, ctx, nd, args):
        return Obj('Initializer', lazy=True, label='init')
    it = pe.interp(('gvar_initializer',), opaque=('write_gvar_data',), cut={'initializer': h_initializer})
    n = 0
    for fl in _bits(FL):
        def mk(ctx, fl=fl):
            v = Obj('Obj', lazy=True, label='var')
            v.fields.update(fl)
            v.fields.update(dict(is_function=0, is_local=0, init_data=0, rel=0, name=Sym('var.name', 'char *')))
            ty = Obj('Type', lazy=True, label='ty')
            ty.fields['size'] = Sym('ty.size', 'int')
            v.fields['ty'] = ty
            ctx.c15_v = v
            return [Sym('rest', 'Token **'), Obj('Token', lazy=True, label='tok'), v]
        res = _explore(it, 'gvar_initializer', mk)
        rets = [(c, o) for c, o in res if o[0] == 'ret']
        if not rets:
            ag.undecided('evaluation', 'gvar_initializer has no returning path', fline)
            continue
        for ctx, out in rets:
            n += 1
            v = ctx.c15_v
            now = {k: _final(it, v.fields.get(k)) for k in FL + ('is_function', 'is_local')}
            was = dict(fl, is_function=0, is_local=0)
            ch = ['%s: %r -> %r' % (k, was[k], now[k]) for k in sorted(was) if now[k] != was[k]]
            facts = {'object before': fl, 'path': ctx.trail[-4:]}
            ag.note('flags-unchanged', not ch,
                    'parsing the initialiser rewrites the linkage/storage flags of the object (%s): the states global_variable() / declaration() are verified to build '
                    'are not the states emit_data receives' % ', '.join(ch), fline, facts)
            d = _final(it, v.fields.get('init_data'))
            ag.note('init-data-installed', not (isinstance(d, int) and d == 0),
                    'after gvar_initializer the object still has no init_data: emit_data treats it as zero-initialised (.bss / .comm) and the initialiser is lost', fline, facts)
    if n == 0:
        raise AnalysisBroken('gvar_initializer: nothing explored')
    ag.flush(fline)


JUDGED_WRITERS = {PU: ('global_variable', 'declaration', 'postfix', 'gvar_initializer', 'scan_globals', 'new_gvar', 'new_anon_gvar', 'new_var', 'new_string_literal'),
                  CGU: ('emit_data',)}


def r156_flag_writers(pe, rep, keep):
    """closure: `is_tentative` decides between a common symbol and a section of its own; the rules of this module evaluate it where the functions
    above leave it.  Any other function that writes the flag is outside every evaluation"""
    P = pe.P
    nw = 0
    for un in P.unit_names:
        uu = P.unit(un)
        if not any(f == 'is_tentative' for f, _, _ in uu.records.get('Obj', [])):
            continue
        ag = Agg(rep, 'R15.6', un, 'is_tentative-writers')
        env = pe if un == PU else UnitEnv(P, pe.cg, un)
        judged = env.inlined([f for f in JUDGED_WRITERS.get(un, ()) if f in uu.functions], set())
        first = 0
        for fname, fd in uu.functions.items():
            for nd in fd.walk():
                lhs = None
                if nd.kind in ('BinaryOperator', 'CompoundAssignOperator') and nd.opcode and nd.opcode.endswith('=') and nd.opcode not in ('==', '!=', '<=', '>=') and nd.inner:
                    lhs = nd.inner[0].strip()
                elif nd.kind == 'UnaryOperator' and nd.opcode in ('++', '--') and nd.inner:
                    lhs = nd.inner[0].strip()
                if lhs is None or lhs.kind != 'MemberExpr' or lhs.name != 'is_tentative':
                    continue
                nw += 1
                first = first or nd.line
                if fname in judged:
                    ag.note('evaluated/' + fname, True)
                else:
                    ag.undecided('not-evaluated/' + fname,
                                 '%s() writes is_tentative, and no rule of this module evaluates the object states that function leaves: whether a thread-local or initialised '
                                 'object can reach emit_data flagged tentative is not decided' % fname, nd.line)
        ag.flush(first)
    if nw == 0:
        rep.undecided('R15.6', '%s:is_tentative-writers:writers-found' % PU, 'no store to Obj.is_tentative was found in any unit: the writers of the flag are not recognised')


# =============================================================================================
# R15.7 option plumbing
# =============================================================================================
def r157(P, rep):
    rep.rule('R15.7', 'option plumbing: -fcommon/-fno-common (last one wins) and -fpic/-fPIC set the globals read by emit_data/gen_addr and nothing else does; -static/-shared '
             'reach run_linker, which selects start files, dynamic linker and libraries by them', floor=18)
    me = UnitEnv(P, None, MU)
    mu = me.u
    _need(mu, MU, 'parse_args', 'run_linker')

    def m_push(it, ctx, nd, args):
        arr = args[0]
        if isinstance(arr, View):
            arr = it.settle(arr)
        if not isinstance(arr, Obj):
            raise AnalysisBroken('strarray_push on %r' % (arr,))
        d = arr.fields.get('data')
        if not isinstance(d, Arr):
            d = Arr([]); arr.fields['data'] = d
        d.elems.append(args[1])
        arr.fields['len'] = len(d.elems)
        ctx.emit('push', arr, args[1], nd.line)
        return None
    # ---- parse_args ---------------------------------------------------------------------------------------------------
    ag = Agg(rep, 'R15.7', MU, 'parse_args')
    fline = mu.fn('parse_args').line
    keepf = ('parse_args', 'take_arg')
    it = me.interp(keepf, opaque=('define', 'parse_opt_x', 'usage'), models={'strarray_push': m_push})
    FLAGS = ('opt_fcommon', 'opt_fpic', 'opt_static', 'opt_shared')
    base = None
    table = [((), {}),
             (('-fno-common',), {'opt_fcommon': 0}), (('-fcommon',), {'opt_fcommon': 1}),
             (('-fno-common', '-fcommon'), {'opt_fcommon': 1}), (('-fcommon', '-fno-common'), {'opt_fcommon': 0}),
             (('-fpic',), {'opt_fpic': 1}), (('-fPIC',), {'opt_fpic': 1}),
             (('-static',), {'opt_static': 1}), (('-shared',), {'opt_shared': 1}),
             (('-fPIC', '-shared', '-fno-common'), {'opt_fpic': 1, 'opt_shared': 1, 'opt_fcommon': 0})]
    for opts, want in table:
        def mk(ctx, opts=opts):
            argv = Arr(['chibicc'] + list(opts) + ['a.c', 0], label='argv')
            return [len(opts) + 2, argv]
        res = _explore(it, 'parse_args', mk)
        okp = [(c, o) for c, o in res if o[0] == 'ret']
        name = '+'.join(opts) or 'no-option'
        if not okp:
            errs = [o for c, o in res if o[0] == 'noreturn']
            if errs and len(errs) == len(res):
                ag.note('option/' + name, False, '`chibicc %s a.c` is rejected: %s(%s)' % (' '.join(opts), errs[0][1], ', '.join(repr(a) for a in errs[0][2])), errs[0][3], {'argv': list(opts)})
            else:
                ag.undecided('option/' + name, 'parse_args has no returning path for `chibicc %s a.c`' % ' '.join(opts), fline)
            continue
        allvals = []
        for ctx, out in okp:
            vals = {}
            for f in FLAGS:
                v = ctx.globals.get(f)
                if v is None:
                    v = _initial_global(it, P, f)      # never touched: the value at program start
                vals[f] = _final(it, v)
            allvals.append(vals)
        ctx, out = okp[0]
        vals = allvals[0]
        if not all(isinstance(v, int) for vv in allvals for v in vv.values()) or any(vv != vals for vv in allvals):
            ag.undecided('option/' + name, 'option flags are not concrete / not path-independent after parse_args: %r' % allvals[:2], fline)
            continue
        if not opts:
            base = dict(vals)
            ag.note('option/no-option', vals['opt_fpic'] == 0 and vals['opt_static'] == 0 and vals['opt_shared'] == 0,
                    'without any option the driver starts with %r' % vals, fline, {'flags': vals})
            continue
        if base is None:
            ag.undecided('option/' + name, 'no baseline run', fline)
            continue
        exp = dict(base); exp.update(want)
        bad = {f: (vals[f], exp[f]) for f in FLAGS if vals[f] != exp[f]}
        ag.note('option/' + name, not bad,
                '`chibicc %s` leaves %s' % (' '.join(opts), ', '.join('%s=%d (expected %d)' % (f, a, b) for f, (a, b) in bad.items())) +
                ': the code generator / linker step does not see the option', fline, {'flags': vals})
        for o in opts:
            if o in ('-static', '-shared'):
                extra = [e for e in ctx.events if e[0] == 'push' and e[2] == o and getattr(e[1], 'label', '') == 'g:ld_extra_args']
                ag.note('linker-flag/' + o, len(extra) == 1, '`%s` is not passed on to the linker command line (ld_extra_args)' % o, fline)
    ag.flush(fline)
    # ---- run_linker -----------------------------------------------------------------------------------------------------
    ag = Agg(rep, 'R15.7', MU, 'run_linker')
    fline = mu.fn('run_linker').line
    for cfg, st, sh in (('default', 0, 0), ('static', 1, 0), ('shared', 0, 1)):
        def m_sub(it_, ctx, nd, args):
            ctx.emit('exec', args[0], nd.line)
            return None
        it = me.interp(('run_linker',), opaque=('find_file', 'find_gcc_libpath', 'find_libpath'), models={'strarray_push': m_push, 'run_subprocess': m_sub},
                       globals_={'opt_static': st, 'opt_shared': sh,
                                 'ld_extra_args': lambda ctx, st=st, sh=sh: _strarray('g:ld_extra_args', (['-static'] if st else []) + (['-shared'] if sh else []))})

        def mk(ctx):
            return [_strarray('inputs', ['a.o', 'b.o']), 'a.out']
        res = _explore(it, 'run_linker', mk)
        rets = [(c, o) for c, o in res if o[0] == 'ret']
        if len(rets) != 1:
            ag.undecided('command/' + cfg, 'run_linker has %d returning paths' % len(rets), fline)
            continue
        ctx, out = rets[0]
        ex = [e for e in ctx.events if e[0] == 'exec']
        seq = None
        if len(ex) == 1 and isinstance(ex[0][1], Arr):
            seq = [_render(x) for x in ex[0][1].elems]
        if not seq:
            ag.undecided('command/' + cfg, 'the argument vector handed to run_subprocess was not recovered', fline)
            continue
        facts = {'command': seq}
        base_ = lambda x: x.rsplit('/', 1)[-1] if isinstance(x, str) else x
        names = [base_(x) for x in seq]

        def idx(nm):
            return names.index(nm) if nm in names else None
        msgs = []
        if names[0] != 'ld':
            msgs.append('the command is %r, not ld' % names[0])
        if seq[-1] != 0:
            msgs.append('the argument vector is not NULL-terminated')
        if 0 in seq[:-1]:
            msgs.append('a NULL argument cuts the command line short')
        o = idx('-o')
        if o is None or seq[o + 1] != 'a.out':
            msgs.append('-o <output> is missing')
        ag.note('command/' + cfg, not msgs, '; '.join(msgs), fline, facts)
        # start / end files
        beg = 'crtbeginS.o' if sh else 'crtbegin.o'
        end = 'crtendS.o' if sh else 'crtend.o'
        crt1, crti, crtb, crte, crtn, ia, ib = idx('crt1.o'), idx('crti.o'), idx(beg), idx(end), idx('crtn.o'), idx('a.o'), idx('b.o')
        if st and crtb is None and idx('crtbeginT.o') is not None:
            crtb = idx('crtbeginT.o')
        m = None
        if sh and crt1 is not None:
            m = 'crt1.o (which needs main) is linked into a shared object'
        elif not sh and crt1 is None:
            m = 'crt1.o (_start) is not linked into an executable'
        elif any(x in names for x in (('crtbegin.o', 'crtend.o') if sh else ('crtbeginS.o', 'crtendS.o'))):
            m = 'the %s variant of crtbegin/crtend is used for a %s link' % ('non-PIC' if sh else 'shared', cfg)
        elif None in (crti, crtb, crte, crtn, ia, ib):
            m = 'missing from the link: %s' % [n_ for n_, v in (('crti.o', crti), (beg, crtb), (end, crte), ('crtn.o', crtn), ('a.o', ia), ('b.o', ib)) if v is None]
        elif not ((crt1 is None or crt1 < crti) and crti < crtb < ia < ib < crte < crtn):
            m = 'link order is not crt1.o crti.o crtbegin inputs.. crtend crtn.o: %s' % [n_ for n_ in names if isinstance(n_, str) and (n_.startswith('crt') or n_.endswith('.o'))]
        ag.note('startfiles/' + cfg, m is None, m or '', fline, facts)
        # dynamic linker and libraries
        dl = idx('-dynamic-linker')
        m = None
        lc, lgcc = idx('-lc'), idx('-lgcc')
        if st:
            sg, eg, leh = idx('--start-group'), idx('--end-group'), idx('-lgcc_eh')
            if dl is not None:
                m = 'a static executable is given a dynamic linker'
            elif None in (lc, lgcc, leh, sg, eg) or not (ib < sg < min(lc, lgcc, leh) and max(lc, lgcc, leh) < eg < crte if None not in (ib, crte) else True):
                m = 'static link needs --start-group -lgcc -lgcc_eh -lc --end-group after the inputs (libc and libgcc reference each other)'
            elif '-lgcc_s' in names:
                m = 'the shared libgcc_s is linked into a static executable'
            elif '-static' not in names:
                m = '-static does not reach ld'
        else:
            if dl is None or not isinstance(seq[dl + 1], str) or 'ld-linux-x86-64.so.2' not in seq[dl + 1]:
                m = 'a dynamically linked output gets no -dynamic-linker /lib64/ld-linux-x86-64.so.2'
            elif None in (lc, lgcc) or (None not in (ib, crte) and not (ib < lc < crte and ib < lgcc < crte)):
                m = '-lc / -lgcc must follow the inputs and precede crtend'
            elif sh and '-shared' not in names:
                m = '-shared does not reach ld'
        ag.note('libraries/' + cfg, m is None, m or '', fline, facts)
        ex_ = [x for x in (['-static'] if st else []) + (['-shared'] if sh else [])]
        if ex_:
            ag.note('extra-args-before-inputs/' + cfg, all(x in names and (ia is None or names.index(x) < ia) for x in ex_), 'ld_extra_args (%s) are not placed before the input files' % ex_, fline, facts)
    ag.flush(fline)


# =============================================================================================
# R15.9 link operands keep their command-line order
# =============================================================================================
# A link set is resolved by ld strictly from left to right: an archive (named by path or found through -l) contributes
# only the members that define a symbol which is undefined AT THAT POINT, and options such as --whole-archive /
# --start-group / -Bstatic act on the operands that FOLLOW them.  So the driver must hand every position-sensitive
# word of its own command line -- inputs (the object made from a source input stands in its place), -l<lib>,
# the words of -Wl,<a>,<b> and of -Xlinker <a> -- to ld in command-line order relative to each other, all of them after
# the start files and before the default libraries / end files.  Decided on concrete command lines through the real
# main() + parse_args() + run_linker(); only the argument vector of the ld process is observed, nothing about how the
# driver gets there.
_LK_CLASSES = ('xlinker-operand', 'linker-option-operand', 'library-operand', 'archive-operand', 'shared-object-operand', 'object-operand', 'compiled-input')


def _lk_src(n):
    return ('in', n, [('obj-of', n)], 'compiled-input')


def _lk_obj(n):
    return ('in', n, [('str', n)], 'archive-operand' if n.endswith('.a') else 'shared-object-operand' if n.endswith('.so') else 'object-operand')


def _lk_lib(w):
    return ('in', w, [('str', w)], 'library-operand')


def _lk_wl(*ws):
    return ('in', '-Wl,' + ','.join(ws), [('str', w) for w in ws], 'linker-option-operand')


def _lk_xl(w):
    return ('in2', ['-Xlinker', w], [('str', w)], 'xlinker-operand')


def _lk_opt(*ws):
    return ('opt', list(ws), [], None)


_LINK_LINES = [
    ('object-then-library', [_lk_obj('o1.o'), _lk_lib('-lfoo')]),
    ('library-first', [_lk_lib('-lfoo'), _lk_obj('o1.o'), _lk_lib('-lbar')]),
    ('libraries-between-inputs', [_lk_src('u1.c'), _lk_lib('-lfoo'), _lk_obj('o1.o'), _lk_lib('-lbar'), _lk_obj('lib.d/libz.a'), _lk_src('sub.d/u2.c'), _lk_lib('-lm')]),
    ('repeated-library', [_lk_obj('o1.o'), _lk_lib('-lfoo'), _lk_obj('o2.o'), _lk_lib('-lfoo')]),
    ('linker-options-around-archive', [_lk_obj('o1.o'), _lk_wl('--push-state', '--whole-archive'), _lk_obj('libz.a'), _lk_wl('--pop-state'), _lk_src('u1.c'), _lk_lib('-lm')]),
    ('assembler-input', [_lk_src('s1.s'), _lk_lib('-lfoo'), _lk_src('u1.c'), _lk_obj('o1.o')]),
    ('options-between-operands', [_lk_obj('o1.o'), _lk_opt('-s'), _lk_lib('-lfoo'), _lk_opt('-Llib.d'), _lk_obj('o2.o'), _lk_opt('-o', 'out.bin'), _lk_lib('-lbar')]),
    ('static', [_lk_opt('-static'), _lk_src('u1.c'), _lk_opt('-L', 'lib.d'), _lk_lib('-lfoo'), _lk_obj('o1.o'), _lk_wl('-z', 'now'), _lk_lib('-lm'), _lk_opt('-o', 'out.bin')]),
    ('shared', [_lk_opt('-shared', '-fPIC'), _lk_src('u1.c'), _lk_lib('-lfoo'), _lk_obj('lib.d/libq.so'), _lk_wl('-soname', 'libx.so.1'), _lk_opt('-o', 'libx.so')]),
    ('xlinker-group', [_lk_src('u1.c'), _lk_xl('--start-group'), _lk_lib('-lfoo'), _lk_lib('-lbar'), _lk_xl('--end-group')]),
    ('search-directories', [_lk_opt('-Lfirst.d'), _lk_obj('o1.o'), _lk_opt('-L', 'second.d'), _lk_lib('-lfoo'), _lk_opt('-Lthird.d')]),
]
_LK_START = ('crt1.o', 'crti.o', 'crtbegin.o', 'crtbeginS.o', 'crtbeginT.o', 'Scrt1.o')
_LK_END_FILES = ('crtend.o', 'crtendS.o', 'crtn.o')
_LK_DEFAULT_LIBS = ('-lc', '-lgcc', '-lgcc_eh', '-lgcc_s')


def _lk_show(t):
    if t[0] == 'str':
        return t[1]
    if t[0] == 'obj-of':
        return '<object of %s>' % t[1]
    if t[0] == 'asm-of':
        return '<compiler output of %s>' % t[1]
    if t[0] == 'file':
        return '<dir>/' + t[1] if not t[1].startswith('-') else t[1]
    return '<%s>' % ' '.join(str(x) for x in t)


def r159(P, rep):
    from ..lib_c15 import LinkDriver
    rep.rule('R15.9', 'link sets: every position-sensitive word of the command line (inputs - a source input is represented by the object made from it -, -l<lib>, the words of -Wl,.. and -Xlinker ..) '
             'reaches the ld command line exactly as often as it was written and in command-line order relative to the others, after the start files and before the default libraries and end files '
             '(ld resolves archives and applies positional options strictly left to right); the user\'s -L directories reach ld in command-line order and before the built-in system directories', floor=2 * len(_LINK_LINES) - 2)
    mu = P.unit(MU)
    drv = LinkDriver(P, mu)
    ag = Agg(rep, 'R15.9', MU, 'main')
    fline = mu.fn('main').line
    for label, elems in _LINK_LINES:
        K = 'link-order/%s:' % label
        words = ['chibicc']
        expect = []
        for kind, w, toks, cls in elems:
            words += w if isinstance(w, list) else [w]
            expect += [(t, cls) for t in toks]
        shown = ' '.join(words)
        try:
            ps = drv.run(words)
        except AnalysisBroken as e:
            ag.undecided(K + 'interpretation', '`%s`: %s' % (shown, e), fline)
            continue
        if len(ps) != 1 or ps[0][0].decisions:
            ag.undecided(K + 'state-not-concrete', '`%s`: the path through parse_args / main / run_linker depends on values the model leaves open (%d paths)' % (shown, len(ps)), fline)
            continue
        ctx, out = ps[0]
        if out[0] != 'ret':
            if out[1] == '__assert_fail':
                ag.undecided(K + 'assertion', '`%s` ends in a failed assertion' % shown, out[3])
            else:
                ag.note(K + 'command-line-rejected', False, '`%s` is a legitimate link command line, but the driver ends in %s%r before any link' % (shown, out[1], tuple(a for a in out[2][:2] if isinstance(a, str))),
                        out[3], {'argv': words})
            continue
        items, line, err = drv.link_command(ctx)
        if err == 'unreadable':
            ag.undecided(K + 'argument-vector', '`%s`: the argument vector handed to the process launcher is not a list the analysis can read' % shown, line or fline)
            continue
        if err is not None:
            n = int(err.split(':')[1])
            ag.note(K + ('no-link-step' if n == 0 else 'several-link-steps'), False, '`%s` returns success after starting %d ld processes: the link set is not linked %s' % (shown, n, 'at all' if n == 0 else 'in one step'),
                    fline, {'argv': words})
            continue
        facts = {'argv': words, 'ld': [_lk_show(t) for t in items]}
        bad = [t for t in items if t[0] == '?']
        if bad:
            ag.undecided(K + 'argument-not-concrete', '`%s`: an argument of the ld command is not a concrete word: %s' % (shown, bad[0][1]), line)
            continue
        if not items or items[-1] != ('end',):
            ag.undecided(K + 'argument-vector', '`%s`: the ld argument vector is not NULL-terminated in the model' % shown, line)
            continue
        want = [t for t, c in expect]
        cls_of = {}
        for t, c in expect:
            cls_of.setdefault(t, c)
        wset = set(want)
        got = [(i, t) for i, t in enumerate(items) if t in wset or t[0] in ('obj-of', 'asm-of', 'tmp')]
        gseq = [t for i, t in got]
        # ---- multiplicity and order -------------------------------------------------------------------------------------
        verdict = None
        for t in want:
            if gseq.count(t) < want.count(t):
                verdict = (cls_of[t] + '-dropped', '%s (written %d time(s)) reaches ld %d time(s): an operand of the link set is lost' % (_lk_show(t), want.count(t), gseq.count(t)))
                break
            if gseq.count(t) > want.count(t):
                verdict = (cls_of[t] + '-repeated', '%s (written %d time(s)) reaches ld %d times' % (_lk_show(t), want.count(t), gseq.count(t)))
                break
        if verdict is None:
            extra = [t for t in gseq if t not in wset]
            if extra:
                verdict = ('unrequested-temporary', 'ld is given %s, which stands for no operand of the command line' % _lk_show(extra[0]))
        if verdict is None and gseq != want:
            moved = None
            for c in _LK_CLASSES:
                if [t for t in gseq if cls_of[t] != c] == [t for t in want if cls_of[t] != c] and [t for t in gseq if cls_of[t] == c] == [t for t in want if cls_of[t] == c]:
                    moved = c
                    break
            verdict = ((moved or 'operands') + '-out-of-order',
                       'the operands reach ld as [%s], the command line has them as [%s]: %s; ld scans archives and applies positional options left to right, so a library placed before '
                       'the object that needs it contributes nothing (undefined references) and an option such as --whole-archive / --start-group no longer encloses its operands'
                       % (' '.join(_lk_show(t) for t in gseq), ' '.join(_lk_show(t) for t in want),
                          ('every ' + moved.replace('-', ' ') + ' has lost its position relative to the other operands') if moved else 'the relative order is not kept'))
        if verdict is None:
            ag.note(K + 'operands-in-command-line-order', True, '', line, facts)
        else:
            ag.note(K + verdict[0], False, '`%s`: %s' % (shown, verdict[1]), line, facts)
        # ---- library search directories: the user's before the built-in ones, in command-line order -------------------------
        udirs, flat = [], [x for kind, w, toks, cls in elems if kind == 'opt' for x in w]
        for i, w in enumerate(flat):
            if w == '-L' and i + 1 < len(flat):
                udirs.append(flat[i + 1])
            elif w.startswith('-L') and len(w) > 2:
                udirs.append(w[2:])
        if udirs:
            S = 'search-path:'
            texts = [t[1] if t[0] in ('str', 'file') else None for t in items]
            upos, mine = [], set()
            for d in udirs:
                hit = [i for i, x in enumerate(texts) if (x == '-L' + d) or (x == d and i > 0 and texts[i - 1] == '-L')]
                upos.append(hit)
                for i in hit:
                    mine.add(i)
                    if texts[i] == d:
                        mine.add(i - 1)
            builtin = [i for i, x in enumerate(texts) if isinstance(x, str) and x.startswith('-L') and i not in mine]
            lost = [d for d, h in zip(udirs, upos) if not h]
            if lost:
                ag.note(S + 'user-directory-dropped', False, '`%s`: the library directory -L%s does not reach the ld command line: -l<lib> operands are not searched there' % (shown, lost[0]), line, facts)
            else:
                firsts = [h[0] for h in upos]
                ag.note(S + 'user-directories-in-command-line-order', firsts == sorted(firsts),
                        '`%s`: the -L directories reach ld in another order (%s): ld searches them left to right, so a library present in two of them is taken from the wrong one'
                        % (shown, ' '.join(udirs[k] for k in sorted(range(len(udirs)), key=lambda k: firsts[k]))), line, facts)
                if not builtin:
                    ag.undecided(S + 'user-directories-before-built-in', '`%s`: no built-in -L directory recognised on the ld command line' % shown, line)
                else:
                    late = [d for d, h in zip(udirs, upos) if h[0] > min(builtin)]
                    ag.note(S + 'user-directories-before-built-in', not late,
                            '`%s`: -L%s follows the driver\'s built-in system directories (%s ...) on the ld command line.  ld searches -L directories in the order given, so '
                            '-l<lib> finds the system\'s copy of a library before the one in the directory the user named (cc convention: user -L directories are searched first); a '
                            'program that links against its own build of a library whose name also exists in /usr/lib gets the wrong one or undefined references'
                            % (shown, late[0] if late else '', _lk_show(items[min(builtin)])), line, facts)
        # ---- operands lie between the start files and the default libraries / end files ---------------------------------
        starts = [i for i, t in enumerate(items) if t[0] == 'file' and t[1] in _LK_START]
        ends = [i for i, t in enumerate(items) if (t[0] == 'file' and t[1] in _LK_END_FILES) or (t[0] == 'str' and t[1] in _LK_DEFAULT_LIBS)]
        if not starts or not ends:
            ag.undecided(K + 'start-and-end-files', '`%s`: no start file / no default library or end file recognised in the ld command' % shown, line)
            continue
        early = [t for i, t in got if i < max(starts) and t in wset]
        late = [t for i, t in got if i > min(ends) and t in wset]
        if early:
            ag.note(K + cls_of[early[0]] + '-before-start-files', False, '`%s`: %s precedes the start files (crt1.o/crti.o/crtbegin) on the ld command line' % (shown, _lk_show(early[0])), line, facts)
        elif late:
            ag.note(K + cls_of[late[0]] + '-after-default-libraries', False, '`%s`: %s follows the default libraries / end files on the ld command line: what it needs from libc / libgcc is no longer resolved '
                    '(static archives) and constructors/destructors frames are closed before it' % (shown, _lk_show(late[0])), line, facts)
        else:
            ag.note(K + 'operands-between-start-files-and-default-libraries', True, '', line, facts)
    ag.flush(fline)


# =============================================================================================
# R15.11 composite function type after a redeclaration
# =============================================================================================
PROTO_DOC = {'none': 'without a prototype (`double f();`)', 'proto': 'with a prototype (`double f(double);`)', 'variadic': 'with a variadic prototype (`double f(double, ...);`)'}


def r1511(pe, rep):
    """C11 6.2.7p3/p4: an identifier declared again in a scope where the earlier declaration is visible has the composite type; for a function type of which only one
    declaration has a parameter type list, the composite type is the prototype.  chibicc represents `f()` by params == NULL with is_variadic set.  function() is evaluated
    on a file-scope redeclaration for every combination (earlier type, later type) of {no prototype, prototype, variadic prototype} x {declaration, definition}; judged is
    the type the function Obj carries afterwards (calls are converted according to it, C06/C07)."""
    rep.rule('R15.11', 'composite type of a redeclared function (C11 6.2.7p3/p4): after function() the Obj of a function of which any declaration so far has a prototype '
             'carries the parameter list (params, is_variadic) of a prototype; an unprototyped `f()` neither hides an earlier prototype nor stays the type when a prototype follows', floor=6)
    _need(pe.u, PU, 'function', 'find_func')
    u = pe.u
    fline = u.fn('function').line
    ag = Agg(rep, 'R15.11', PU, 'function')
    KINDS = ('none', 'proto', 'variadic')

    def mkty(label, kind):
        ty = Obj('Type', lazy=True, label=label)
        ty.fields['name'] = Obj('Token', lazy=True, label=label + '.name')
        ty.fields['return_ty'] = _tyobj(pe.cg, label + '.return_ty', 'double')
        ty.fields['params'] = 0 if kind == 'none' else Obj('Type', lazy=True, label=label + '.params')
        ty.fields['is_variadic'] = 0 if kind == 'proto' else 1
        if 'TY_FUNC' in pe.E:
            ty.fields['kind'] = pe.E['TY_FUNC']
        ty.meta['cat'] = 'func'
        return ty
    npaths = 0
    for isdef in (0, 1):
        def h_find(it, ctx, n, args):
            return ctx.c15_old

        def h_equal(it, ctx, n, args, isdef=isdef):
            if args[0] is ctx.c15_tok and args[1] == '{':
                return isdef
            if args[0] is ctx.c15_tok and isinstance(args[1], str):
                return 0
            return _fresh_bool(ctx, 'equal')

        def h_consume(it, ctx, n, args, isdef=isdef):
            if args[2] == ';':
                return 0 if isdef else 1
            return _fresh_bool(ctx, 'consume')

        def h_decl(it, ctx, n, args):
            return ctx.c15_newty

        def h_body(it, ctx, n, args):
            return Obj('Node', lazy=True, label='body')
        it = pe.interp(('function', 'new_gvar', 'new_var'), opaque=('create_param_lvars', 'resolve_goto_labels'),
                       cut={'find_func': h_find, 'equal': h_equal, 'consume': h_consume, 'declarator': h_decl, 'compound_stmt': h_body},
                       globals_={'current_fn': 0, 'scope': lambda ctx: ctx.c15_scope})
        for ok_ in KINDS:
            for nk in KINDS:
                if (ok_ == 'variadic') != (nk == 'variadic'):
                    continue          # `f()` / `f(double)` and `f(double, ...)` are not compatible types (C11 6.7.6.3p15): undefined, not judged
                def mk(ctx, ok_=ok_, nk=nk):
                    ctx.c15_tok = Obj('Token', lazy=True, label='tok')
                    ctx.c15_scope = Obj('Scope', lazy=True, label='scope')
                    ctx.c15_scope.fields['next'] = 0
                    ctx.c15_oldty = mkty('earlier-type', ok_)
                    ctx.c15_newty = mkty('ty', nk)
                    o = Obj('Obj', lazy=True, label='earlier-declaration')
                    o.fields.update(dict(is_function=1, is_definition=0, is_static=0, is_inline=0, is_root=1, is_live=0, is_local=0, is_inline_only=0, ty=ctx.c15_oldty))
                    ctx.c15_old = o
                    a = Obj('VarAttr', lazy=True, label='attr')
                    a.fields.update(dict(is_static=0, is_inline=0, is_extern=0, is_typedef=0, is_tls=0, align=0))
                    return [ctx.c15_tok, Obj('Type', lazy=True, label='basety'), a]
                res = _explore(it, 'function', mk)
                what = '%s-after-%s%s' % ({'none': 'unprototyped', 'proto': 'prototype', 'variadic': 'variadic-prototype'}[nk], {'none': 'unprototyped', 'proto': 'prototype', 'variadic': 'variadic-prototype'}[ok_],
                                         '/definition' if isdef else '')
                key = 'composite-type/' + what
                for ctx, out in res:
                    if out[0] != 'ret':
                        continue
                    npaths += 1
                    T = _final(it, ctx.c15_old.fields.get('ty'))
                    facts = {'earlier declaration': PROTO_DOC[ok_], 'this %s' % ('definition' if isdef else 'declaration'): PROTO_DOC[nk], 'path': ctx.trail[-5:]}
                    if not isinstance(T, Obj):
                        ag.note(key, False, 'after the redeclaration the function Obj has no type (%r)' % (T,), fline, facts)
                        continue
                    if T is not ctx.c15_oldty and T is not ctx.c15_newty:
                        ag.undecided(key, 'after the redeclaration the function Obj carries a type that is neither the earlier nor the declared one (%r): its parameter list is not recognised' % (T.label,), fline)
                        continue
                    pa = _final(it, T.fields.get('params', 0)); va = _final(it, T.fields.get('is_variadic', 0))
                    srcs = [t for t, k in ((ctx.c15_oldty, ok_), (ctx.c15_newty, nk)) if k != 'none']
                    if not srcs:
                        ag.note(key, isinstance(pa, int) and pa == 0 and va == 1, 'two declarations without a prototype leave a type with a parameter list (params=%r, is_variadic=%r)' % (pa, va), fline, facts)
                        continue
                    good = any(pa is _final(it, t.fields['params']) and va == t.fields['is_variadic'] for t in srcs)
                    if ok_ == 'none':
                        msg = ('a function declared %s and then %s %s keeps the type of the first declaration (params=%r, is_variadic=%r): the prototype never becomes the type of the function '
                               '(C11 6.2.7p3/p4 composite type), so later calls do not convert their arguments to the parameter types (`double g(); double g(double x){..} .. g(3)` passes an int)'
                               % (PROTO_DOC[ok_], 'defined' if isdef else 'declared again', PROTO_DOC[nk], pa, va))
                    elif nk == 'none':
                        msg = ('a function declared %s and then %s %s ends with params=%r, is_variadic=%r: the unprototyped redeclaration hides the prototype (C11 6.2.7p3: the composite type is the '
                               'prototype), later calls do not convert their arguments' % (PROTO_DOC[ok_], 'defined' if isdef else 'declared again', PROTO_DOC[nk], pa, va))
                    else:
                        msg = 'after two prototyped declarations the function type has params=%r, is_variadic=%r, the parameter list of neither declaration' % (pa, va)
                    ag.note(key, good, msg, fline, facts)
    if npaths == 0:
        raise AnalysisBroken('function(): no returning path explored for a redeclaration')
    ag.flush(fline)


# =============================================================================================
# R15.12 address constants designate objects of static storage duration only
# =============================================================================================
class _LabelSlot:
    """the caller's `char **label` variable"""
    def __init__(self):
        self.v = 0

    def get(self, it):
        return self.v

    def set(self, it, v):
        self.v = v


def r1512(pe, rep):
    """C11 6.6p9: an address constant is a pointer to an lvalue designating an object of STATIC storage duration (or to a function).  The address of a thread-local
    object differs per thread and is not known at link time (a `.quad sym` against a TLS symbol yields the offset in the TLS segment, not an address); the address of
    an automatic object does not exist before run time.  The constant evaluator hands out a relocation label through `*label`; every arm of eval2 / eval_rval is
    explored per node kind (recursive calls cut) with the storage flags of node->var left open: on a path that returns with the label pointing into node->var, the
    code must have established that the variable is neither thread-local nor local."""
    from ..interp import _Ref, FieldPlace
    rep.rule('R15.12', 'an address constant designates an object of static storage duration (C11 6.6p9): the constant evaluator (eval2 / eval_rval) hands out the name of an Obj as '
             'relocation label only on paths on which the Obj is neither thread-local (is_tls) nor local (is_local)', floor=4)
    u = pe.u
    _need(u, PU, 'eval2', 'eval_rval')
    kinds = u.enum_types.get('NodeKind')
    if not kinds or 'ND_VAR' not in kinds:
        raise AnalysisBroken('enum NodeKind / ND_VAR vanished')
    nlabel = {}
    for fn in ('eval2', 'eval_rval'):
        fline = u.fn(fn).line
        ag = Agg(rep, 'R15.12', PU, fn)

        def h(name):
            def f(it, ctx, n, args):
                return Sym(ctx.fresh(name), 'long')
            return f
        it = pe.interp((fn,), cut={'eval2': h('eval2'), 'eval_rval': h('eval_rval'), 'eval': h('eval')}, opaque=('add_type', 'eval_double'))
        for kind in kinds:
            def mk(ctx, kind=kind):
                node = Obj('Node', lazy=True, label='node')
                node.fields['kind'] = pe.E[kind]
                node.fields['ty'] = pe.cg.tcell('node.ty', only=('ptr', 'array', 'int', 'long'))
                var = Obj('Obj', lazy=True, label='node.var')
                var.fields['ty'] = pe.cg.tcell('node.var.ty', only=('array', 'func', 'int', 'ptr', 'struct'))
                var.fields['is_local'] = _fresh_bool(ctx, 'node.var.is_local')
                var.fields['is_tls'] = _fresh_bool(ctx, 'node.var.is_tls')
                node.fields['var'] = var
                ctx.c15_var = var
                ctx.c15_slot = _LabelSlot()
                return [node, _Ref(ctx.c15_slot)]
            try:
                res = _explore(it, fn, mk)
            except AnalysisBroken:
                raise
            except Exception as e:
                if kind == 'ND_VAR':
                    raise AnalysisBroken('%s cannot be evaluated for ND_VAR: %r' % (fn, e))
                continue          # an arm this engine cannot interpret and that is not the variable arm: not judged
            for ctx, out in res:
                if out[0] != 'ret':
                    continue
                L = ctx.c15_slot.v
                if not (isinstance(L, _Ref) and isinstance(L.place, FieldPlace) and L.place.obj is ctx.c15_var):
                    continue
                nlabel[fn] = nlabel.get(fn, 0) + 1
                var = ctx.c15_var
                tls = _final(it, var.fields.get('is_tls')); loc = _final(it, var.fields.get('is_local'))
                facts = {'node kind': kind, 'path': ctx.trail[-6:]}
                ag.note('%s/thread-local-address-constant' % kind, isinstance(tls, int) and tls == 0,
                        '%s returns the name of node->var as relocation label for %s without having excluded a thread-local variable (is_tls): `_Thread_local int t; int *p = &t;` is accepted and '
                        'emitted as `.quad t` against a TLS symbol -- p does not point to any thread\'s t (C11 6.6p9: an address constant designates an object of static storage duration)' % (fn, kind),
                        fline, facts)
                ag.note('%s/automatic-object-address-constant' % kind, isinstance(loc, int) and loc == 0,
                        '%s returns the name of node->var as relocation label for %s without having excluded a local variable (is_local): the address of an automatic object is accepted as a link-time '
                        'constant (`int a[3]; static int *p = a;` is emitted as `.quad a`, an undefined or unrelated symbol)' % (fn, kind), fline, facts)
        ag.flush(fline)
    for fn in ('eval2', 'eval_rval'):
        if not nlabel.get(fn):
            rep.undecided('R15.12', '%s:%s:ND_VAR/label' % (PU, fn), 'no path of %s hands out the name of a variable as relocation label: the address-constant arm is not recognised' % fn)


# =============================================================================================
# R15.13 the alignment specifier reaches the object at every declaring site (block-scope automatic objects; file scope: R15.5, block-scope static: R15.6)
# =============================================================================================
def r1513(pe, rep):
    rep.rule('R15.13', 'every site that creates an Obj from a declaration (type, VarAttr) transfers the alignment specifier: a block-scope automatic object declared _Alignas(N) '
             'is created on `locals` with alignment N, without specifier with the alignment of its type (file scope: R15.5 align/*, block-scope static: R15.6 static-local/align/*)', floor=2)
    u = pe.u
    _need(u, PU, 'declaration', 'new_lvar')
    ag = Agg(rep, 'R15.13', PU, 'declaration')
    fline = u.fn('declaration').line
    E = pe.E
    n = 0
    for has_init, aligned in ((0, 0), (0, 1), (1, 0), (1, 1)):
        def h_equal(it, ctx, nd, args, has_init=has_init):
            if args[1] == ';':
                return 0 if ctx.c15_k == 0 else 1
            if args[1] == '=':
                return has_init
            return _fresh_bool(ctx, 'equal')

        def h_decl(it, ctx, nd, args):
            ctx.c15_k += 1
            ty = Obj('Type', lazy=True, label='ty')
            ty.fields.update(dict(kind=E['TY_INT'], size=4, align=4, name=Obj('Token', lazy=True, label='ty.name')))
            ctx.c15_ty = ty
            return ty

        def h_ident(it, ctx, nd, args):
            return Sym('declared-name', 'char *')

        def h_push(it, ctx, nd, args):
            sc = Obj('VarScope', lazy=False, label='scope-entry')
            ctx.emit('push_scope', args[0], sc, nd.line)
            return sc

        def h_node(it, ctx, nd, args):
            return Obj('Node', lazy=True, label=ctx.fresh('node'))
        it = pe.interp(('declaration', 'new_lvar', 'new_var'), opaque=('new_alloca', 'new_vla_ptr', 'new_anon_gvar', 'new_gvar', 'gvar_initializer'),
                       cut={'equal': h_equal, 'declarator': h_decl, 'get_ident': h_ident, 'push_scope': h_push, 'lvar_initializer': h_node, 'compute_vla_size': h_node,
                            'new_unary': h_node, 'new_binary': h_node, 'new_node': h_node, 'new_var_node': h_node},
                       globals_={'globals': lambda ctx: ctx.c15_g0, 'locals': lambda ctx: ctx.c15_l0})

        def mk(ctx, aligned=aligned):
            ctx.c15_k = 0
            ctx.c15_g0 = Obj('Obj', lazy=True, label='earlier-globals')
            ctx.c15_l0 = Obj('Obj', lazy=True, label='earlier-locals')
            a = Obj('VarAttr', lazy=True, label='attr')
            a.fields.update(dict(is_static=0, is_extern=0, is_tls=0, is_inline=0, is_typedef=0, align=64 if aligned else 0))
            return [Sym('rest', 'Token **'), Obj('Token', lazy=True, label='tok'), Obj('Type', lazy=True, label='basety'), a]
        res = _explore(it, 'declaration', mk)
        rets = [(c, o) for c, o in res if o[0] == 'ret']
        cls = 'automatic/%s' % ('_Alignas' if aligned else 'type')
        if not rets:
            ag.undecided(cls + '/evaluation', 'declaration() has no returning path for a block-scope automatic object', fline)
            continue
        for ctx, out in rets:
            v = _final(it, ctx.globals.get('locals', ctx.c15_l0))
            facts = {'declaration': '%sint x%s;' % ('_Alignas(64) ' if aligned else '', ' = init' if has_init else ''), 'path': ctx.trail[-4:]}
            if not isinstance(v, Obj) or v is ctx.c15_l0 or v.lazy:
                ag.undecided(cls + '/evaluation', 'declaration() does not put a new object on `locals` for `%s`' % facts['declaration'], fline)
                continue
            n += 1
            al = _final(it, v.fields.get('align', 0))
            facts['object'] = {k: repr(_final(it, v.fields.get(k, 0))) for k in ('name', 'is_local', 'align')}
            ag.note('align/' + cls, (al == 64) if aligned else (al == 4),
                    ('a block-scope automatic object declared `_Alignas(64)` gets alignment %r (its type has 4): the frame layout places it by Obj.align, the specifier is lost '
                     '(the file-scope and block-scope-static sites transfer VarAttr.align)' % (al,)) if aligned else
                    'a block-scope automatic object without alignment specifier gets alignment %r, its type has 4' % (al,), fline, facts)
    if n == 0:
        raise AnalysisBroken('declaration(): automatic-object arm not reached')
    ag.flush(fline)


# =============================================================================================
# R15.14 declaration dispatch: which parser handles a declaration, at file scope and at block scope
# =============================================================================================
_DISPATCH_HANDLERS = ('parse_typedef', 'function', 'global_variable', 'declaration')
_DISPATCH_ATTRS = (('plain', {}), ('static', {'is_static': 1}), ('extern', {'is_extern': 1}), ('inline', {'is_inline': 1}), ('static-inline', {'is_static': 1, 'is_inline': 1}),
                   ('extern-inline', {'is_extern': 1, 'is_inline': 1}), ('thread-local', {'is_tls': 1}), ('static-thread-local', {'is_static': 1, 'is_tls': 1}),
                   ('extern-thread-local', {'is_extern': 1, 'is_tls': 1}), ('typedef', {'is_typedef': 1}))


def _dispatch_want(site, attr, fn):
    if attr.get('is_typedef'):
        return 'parse_typedef'
    if fn:
        return 'function'
    if site == 'parse':
        return 'global_variable'
    return 'global_variable' if attr.get('is_extern') else 'declaration'


def r1514(pe, rep):
    rep.rule('R15.14', 'declaration dispatch: at every site that parses declaration specifiers and hands the declarators on (file scope: parse(); block scope: compound_stmt()) a declarator '
             'of function type goes to function() whatever the storage class (so that the Obj is a function: linkage of the first declaration, liveness references), a typedef to parse_typedef(), '
             'an object with `extern` at block scope / any object at file scope to global_variable(), other block-scope objects to declaration(); the handler gets the base type and the '
             'attributes declspec() produced; no other function dispatches to function() / global_variable(); the look-ahead is_function() both sites use is true exactly for a declarator of function type', floor=38)
    u = pe.u
    _need(u, PU, 'parse', 'compound_stmt', 'function', 'global_variable', 'declaration', 'declspec', 'is_function')
    sites = {'parse': 'file scope', 'compound_stmt': 'block scope'}
    others = sorted((pe.callers.get('function', set()) | pe.callers.get('global_variable', set())) - set(sites) - {'function', 'global_variable'})
    for o in others:
        rep.undecided('R15.14', '%s:%s:dispatch/unknown-site' % (PU, o), '%s() calls function() / global_variable(): a declaration dispatch site the rule has no model of' % o,
                      where='%s:%d' % (PU, u.fn(o).line))
    for site, scope_doc in sites.items():
        ag = Agg(rep, 'R15.14', PU, site)
        fline = u.fn(site).line
        n = 0
        for aname, attr in _DISPATCH_ATTRS:
            for fn in (0, 1):
                if fn and attr.get('is_tls'):
                    continue

                def h_declspec(it, ctx, nd, args, attr=attr):
                    a = _final(it, args[2]) if len(args) > 2 else None
                    ty = Obj('Type', lazy=True, label=ctx.fresh('basety'))
                    if isinstance(a, Obj):
                        for k in ('is_typedef', 'is_static', 'is_extern', 'is_inline', 'is_tls'):
                            a.fields[k] = attr.get(k, 0)
                        a.fields['align'] = 0
                    ctx.emit('c15-declspec', a, ty, nd.line)
                    return ty

                def h_isfn(it, ctx, nd, args, fn=fn):
                    return fn

                def mk_handler(name):
                    def h(it, ctx, nd, args):
                        ctx.emit('c15-dispatch', name, [_final(it, x) for x in args], nd.line)
                        ctx.c15_done = True
                        if name == 'declaration':
                            return Obj('Node', lazy=True, label=ctx.fresh('node'))
                        return Obj('Token', lazy=True, label=ctx.fresh('tok'))
                    return h

                def h_equal(it, ctx, nd, args):
                    if args[1] == '}':
                        return 1 if ctx.c15_done else 0
                    return 0

                def h_stmt(it, ctx, nd, args):
                    ctx.emit('c15-stmt', nd.line)
                    ctx.c15_done = True
                    return Obj('Node', lazy=True, label=ctx.fresh('node'))

                def h_none(it, ctx, nd, args):
                    return None
                cut = {h_: mk_handler(h_) for h_ in _DISPATCH_HANDLERS}
                cut.update({'declspec': h_declspec, 'is_function': h_isfn, 'is_typename': lambda it_, ctx, nd, args: 1, 'equal': h_equal, 'stmt': h_stmt,
                            'mark_live': h_none, 'scan_globals': h_none})
                it = pe.interp((site,), opaque=('declare_builtin_functions', 'enter_scope', 'leave_scope', 'add_type', 'new_node'), cut=cut, loop_limit=1)

                def mk(ctx):
                    ctx.c15_done = False
                    if site == 'parse':
                        return [Obj('Token', lazy=True, label='tok')]
                    return [Sym('rest', 'Token **'), Obj('Token', lazy=True, label='tok')]
                res = _explore(it, site, mk)
                want = _dispatch_want(site, attr, fn)
                what = 'function' if fn else 'object'
                key = 'dispatch/%s/%s' % (aname, what)
                doc = '`%s` declaration of %s at %s' % (aname.replace('-', ' '), 'a function' if fn else 'an object', scope_doc)
                seen = 0
                for ctx, out in res:
                    if out[0] != 'ret':
                        continue
                    evs = [e for e in ctx.events if e[0] in ('c15-declspec', 'c15-dispatch', 'c15-stmt')]
                    i = 0
                    while i < len(evs):
                        if evs[i][0] != 'c15-declspec':
                            i += 1
                            continue
                        j = i + 1
                        while j < len(evs) and evs[j][0] != 'c15-declspec':
                            j += 1
                        ds = evs[i]
                        got = [e for e in evs[i + 1:j] if e[0] == 'c15-dispatch']
                        seen += 1
                        n += 1
                        facts = {'declaration': doc, 'handlers called': [e[1] for e in got], 'path': ctx.trail[-6:]}
                        names = [e[1] for e in got]
                        why = ''
                        if fn and want == 'function' and names != ['function']:
                            why = ('a declarator of function type is handed to %s instead of function(): the Obj created is not a function (is_function unset) -- references to it are not '
                                   'recorded for liveness, so a static inline function used only through this declaration is never emitted, and the linkage rules of function() are bypassed; '
                                   'the other dispatch site sends it to function()' % ('/'.join(x + '()' for x in names) or 'no handler'))
                        ag.note(key, names == [want], why or '%s is handled by %s, expected %s()' % (doc, '/'.join(x + '()' for x in names) or 'no handler', want), fline, facts)
                        if names == [want]:
                            a_ = got[0][2]
                            ag.note('arguments/' + want, any(x is ds[2] for x in a_) and (want == 'parse_typedef' or any(x is ds[1] for x in a_)),
                                    '%s() does not receive the base type and the attributes declspec() produced for this declaration' % want, fline, facts)
                        i = j
                if not seen:
                    ag.undecided(key + '/evaluation', 'no returning path of %s() parses declaration specifiers for a %s' % (site, doc), fline)
        if n == 0:
            raise AnalysisBroken('%s(): no declaration dispatched' % site)
        ag.flush(fline)
    # ---- the look-ahead both sites dispatch on: true exactly for a declarator of function type
    ag = Agg(rep, 'R15.14', PU, 'is_function')
    fline = u.fn('is_function').line
    kinds = [k for k in u.enum_types.get('TypeKind', []) if k in pe.E]
    if 'TY_FUNC' not in kinds:
        raise AnalysisBroken('TypeKind / TY_FUNC vanished')
    for kname in kinds:
        def h_decl(it, ctx, nd, args, kname=kname):
            ty = Obj('Type', lazy=True, label='declared-type')
            ty.fields['kind'] = pe.E[kname]
            ctx.c15_decl = True
            return ty
        it = pe.interp(('is_function',), cut={'declarator': h_decl, 'equal': lambda it_, ctx, nd, args: 0, 'consume': lambda it_, ctx, nd, args: 0})

        def mk(ctx):
            ctx.c15_decl = False
            return [Obj('Token', lazy=True, label='tok')]
        res = _explore(it, 'is_function', mk)
        vals = [_final(it, o[1]) for c, o in res if o[0] == 'ret']
        key = 'look-ahead/%s' % ('function-type' if kname == 'TY_FUNC' else 'other-type')
        if len(vals) != len(res) or not vals or not all(isinstance(x, int) for x in vals):
            ag.undecided(key, 'is_function() could not be evaluated for a declarator of kind %s (%r)' % (kname, vals), fline)
            continue
        want = int(kname == 'TY_FUNC')
        ag.note(key, all(int(bool(x)) == want for x in vals),
                'is_function() answers %r for a declarator whose type has kind %s: %s' % (vals, kname, 'function declarations are parsed as objects (no function Obj, no liveness references)'
                                                                                         if want else 'object declarations are handed to function()'), fline, {'kind': kname})
    ag.flush(fline)


# =============================================================================================
# R15.15 an object whose type is completed after its declaration is emitted with the alignment of the completed type
# =============================================================================================
def _emitted_alignments(cg, flags, align, tyfields):
    """run emit_data on one object with concrete flags / alignment / type under -fcommon and -fno-common: {fcommon: alignment operand | None}"""
    it = cg.interp()
    it.global_init['opt_fcommon'] = lambda ctx: ctx.c15_fcommon
    NAME1, NAME2 = ('sym', 'var.name'), ('sym', 'next.name')
    got = {}
    for fcommon in (1, 0):
        def mk(ctx, fcommon=fcommon):
            inner = _data_mk(cg, flags, fcommon, 0, 'struct')
            r = inner(ctx)
            v = ctx.c15_var
            v.fields['align'] = align
            v.fields['ty'].fields.update(tyfields)
            return r
        res = _explore(it, 'emit_data', mk)
        rets = [(c, o) for c, o in res if o[0] == 'ret']
        if len(rets) != 1 or len(res) != 1:
            got[fcommon] = (None, 'emit_data has %d returning of %d paths on the concrete object' % (len(rets), len(res)))
            continue
        ctx = rets[0][0]
        mine = []
        for l in lines_of(it, ctx):
            if l.mentions(NAME2):
                break
            if l.kind != 'blank':
                mine.append(l)
        vals = []
        for l in mine:
            if l.kind == 'dir' and l.head == '.comm' and len(l.ops) == 3 and op_is(l.ops[0], A, NAME1):
                vals.append(op_val(l.ops[2]))
            elif l.kind == 'dir' and l.head in ('.align', '.balign') and l.ops:
                vals.append(op_val(l.ops[0]))
            elif l.kind == 'dir' and l.head == '.p2align':
                vals.append(None)
        if len(vals) != 1 or not isinstance(vals[0], int):
            got[fcommon] = (None, 'no single concrete alignment operand in: %s' % '; '.join(l.text.strip() for l in mine[:6]))
        else:
            got[fcommon] = (vals[0], '; '.join(l.text.strip() for l in mine[:6]))
    return got


def r1515(pe, rep):
    rep.rule('R15.15', 'a file-scope object declared with a structure type that is still incomplete (`struct S; struct S s;`, C11 6.9.2p2: a tentative definition) and completed later in the '
             'translation unit (`struct S { long a, b; };` -- the Type is completed in place) is emitted with the alignment of the completed type, or the _Alignas value: '
             'parse() (declaration loop, scan_globals) and emit_data are evaluated in sequence on that translation unit; the alignment cached in the Obj at its creation is that of the incomplete type', floor=4)
    u = pe.u
    cg = pe.cg
    _need(u, PU, 'parse', 'global_variable', 'new_gvar', 'scan_globals', 'declspec')
    _need(cg.cu, CGU, 'emit_data')
    E = pe.E
    for k in ('TY_STRUCT', 'TK_EOF', 'TK_IDENT'):
        if k not in E:
            raise AnalysisBroken('enumerator %s vanished' % k)
    fline = u.fn('parse').line
    ag = Agg(rep, 'R15.15', PU, 'parse')
    SIZE, ALIGN = 16, 8
    n = 0
    for storage in ('plain', 'static'):
        for aligned in (0, 1):
            def h_declspec(it, ctx, nd, args, storage=storage, aligned=aligned):
                ctx.c15_k += 1
                a = _final(it, args[2]) if len(args) > 2 else None
                if isinstance(a, Obj):
                    for f in ('is_typedef', 'is_extern', 'is_inline', 'is_tls', 'is_static', 'align'):
                        a.fields[f] = 0
                if ctx.c15_k == 1:
                    ty = Obj('Type', lazy=True, label='struct S')
                    ty.fields.update(dict(kind=E['TY_STRUCT'], size=-1, align=1, members=0, base=0, is_atomic=0, origin=0, array_len=0, is_flexible=0, is_packed=0,
                                          name=Obj('Token', lazy=True, label='ty.name')))
                    ctx.c15_ty = ty
                    if isinstance(a, Obj):
                        a.fields['is_static'] = int(storage == 'static')
                        a.fields['align'] = 64 if aligned else 0
                    return ty
                # `struct S { long a; long b; };`: struct_union_decl overwrites the Type registered for the tag
                ctx.c15_ty.fields.update(dict(size=SIZE, align=ALIGN, members=Obj('Member', lazy=True, label='members')))
                ctx.c15_tok.fields['kind'] = E['TK_EOF']
                return ctx.c15_ty

            def h_consume(it, ctx, nd, args):
                if args[2] == ';':
                    if ctx.c15_k >= 2:
                        return 1
                    ctx.c15_c += 1
                    return 0 if ctx.c15_c == 1 else 1
                return 0

            def h_equal(it, ctx, nd, args):
                if args[1] == ';':
                    return 1 if (ctx.c15_k >= 2 or ctx.c15_c >= 1) else 0
                return 0

            def h_push(it, ctx, nd, args):
                return Obj('VarScope', lazy=False, label='scope-entry')

            def h_none(it, ctx, nd, args):
                return None
            it = pe.interp(('parse', 'global_variable', 'new_gvar', 'new_var', 'scan_globals'), opaque=('declare_builtin_functions',),
                           cut={'declspec': h_declspec, 'is_function': lambda it_, ctx, nd, args: 0, 'declarator': lambda it_, ctx, nd, args: ctx.c15_ty,
                                'get_ident': lambda it_, ctx, nd, args: 's', 'consume': h_consume, 'equal': h_equal, 'push_scope': h_push, 'mark_live': h_none,
                                'is_variably_modified': lambda it_, ctx, nd, args: 0, 'parse_typedef': h_none, 'function': h_none}, loop_limit=3)

            def mk(ctx):
                ctx.c15_k = 0
                ctx.c15_c = 0
                ctx.c15_ty = None
                t = Obj('Token', lazy=True, label='tok')
                t.fields['kind'] = E['TK_IDENT']
                ctx.c15_tok = t
                return [t]
            decl = '%s%sstruct S s;' % ('static ' if storage == 'static' else '', '_Alignas(64) ' if aligned else '')
            key = 'late-completion/%s/%s' % (storage, '_Alignas' if aligned else 'type')
            res = _explore(it, 'parse', mk)
            rets = [(c, o) for c, o in res if o[0] == 'ret' and c.c15_k == 2]
            if len(rets) != 1:
                ag.undecided(key, 'parse() has %d returning paths (of %d) on `struct S; %s struct S { long a; long b; };`' % (len(rets), len(res), decl), fline)
                continue
            ctx, out = rets[0]
            v = _final(it, out[1])
            if not isinstance(v, Obj) or _final(it, v.fields.get('ty', 0)) is not ctx.c15_ty or _final(it, v.fields.get('next', 0)) != 0:
                ag.undecided(key, 'parse() does not return the one object declared by `%s` (%r)' % (decl, v), fline)
                continue
            fl = {f: _final(it, v.fields.get(f, 0)) for f in ('is_function', 'is_definition', 'is_static', 'is_tentative', 'is_tls')}
            al = _final(it, v.fields.get('align', 0))
            tsz, tal = _final(it, ctx.c15_ty.fields.get('size')), _final(it, ctx.c15_ty.fields.get('align'))
            if not all(isinstance(x, int) for x in list(fl.values()) + [al, tsz, tal]):
                ag.undecided(key, 'flags / alignment of the object are not concrete after parse(): %r align=%r type size/align=%r/%r' % (fl, al, tsz, tal), fline)
                continue
            fl = {f: int(bool(x)) for f, x in fl.items()}
            got = _emitted_alignments(cg, fl, al, dict(kind=E['TY_STRUCT'], size=tsz, align=tal))
            want = 64 if aligned else tal
            for fcommon, (val, text) in sorted(got.items()):
                cfg = '-fcommon' if fcommon else '-fno-common'
                k2 = key
                if val is None:
                    ag.undecided(k2, 'emit_data on the object parse() built for `%s`: %s' % (decl, text), fline)
                    continue
                n += 1
                ag.note(k2, val == want,
                        '`struct S; %s struct S { long a; long b; };`: the object is emitted with alignment %d (%s, %s), the completed type demands %d: Obj.align (%d) still holds the alignment '
                        'the incomplete type had when the object was created -- completing the struct does not update it and emit_data does not consult the type; the members are '
                        'accessed with aligned-type assumptions by every unit that sees the complete type' % (decl, val, text, cfg, want, al), u.fn('new_var').line if 'new_var' in u.functions else fline,
                        {'declaration': decl, 'flags': fl, 'Obj.align': al, 'type': {'size': tsz, 'align': tal}, 'emitted': text})
    if n == 0:
        raise AnalysisBroken('late completion: nothing evaluated')
    ag.flush(fline)


def _initial_global(it, P, name):
    """value of a global at program start: its initialiser, else zero (static storage duration)"""
    found = False
    for un in P.unit_names:
        g = P.unit(un).globals.get(name)
        if g is None:
            continue
        found = True
        if 'init' in g.d:
            return it.materialise_global(name, g)
    if not found:
        raise AnalysisBroken('global %s vanished' % name)
    return 0


def _strarray(label, items):
    o = Obj('StringArray', lazy=False, label=label)
    o.fields.update(dict(data=Arr(list(items)), len=len(items), capacity=len(items) + 8))
    return o


def _render(x):
    if isinstance(x, Term) and x.op == 'format' and isinstance(x.args[0], str):
        try:
            return x.args[0] % tuple('<%r>' % (a,) if not isinstance(a, (int, str)) else a for a in x.args[1:])
        except (TypeError, ValueError):
            return repr(x)
    if isinstance(x, (str, int)):
        return x
    return repr(x)


def run(P, rep, tier):
    rep.explanation = ('Decision tables of the symbol-emission code, obtained by abstract interpretation (Engine I) of chibicc\'s own source on complete finite input '
                       'domains and compared with oracle tables: emit_data / emit_text / gen_addr(ND_VAR) for every combination of the linkage and storage flags of an Obj '
                       'and of -fcommon / -fPIC (emitted directives are parsed and the address left in %rax is evaluated symbolically); function(), primary(), '
                       'global_variable(), declaration(), postfix() (compound literals, in the parser-context states gvar_initializer() is evaluated to establish on first and on nested entry), gvar_initializer() for every combination of declaration attributes (a parser-built state outside the emit_data table is run through emit_data; function(): also for every state an earlier declaration can have left, '
                       'judging that a redeclaration keeps the linkage of the first declaration, and find_func on scope chains of depth 1-3 for every flag combination of the bound function); mark_live on all reference graphs over three functions; '
                       'scan_globals on all lists of up to three file-scope objects over two names; parse_args / run_linker on concrete option vectors; '
                       'main() + parse_args() + run_linker() on concrete link command lines (objects, archives, shared objects, C and assembler inputs, -l, -Wl, -Xlinker, interleaved options; default / -static / -shared), '
                       'observing only the argument vector of the ld process: every position-sensitive operand arrives once per mention, in command-line order, between start files and default libraries (R15.9). '
                       'function() also on sequences in which a redeclaration stands inside a function body (only file-scope declarations decide whether a definition is an inline definition, R15.8 block-scope-redeclaration) '
                       'and on redeclarations with / without a prototype (the Obj ends with the composite type, R15.11); eval2 / eval_rval per node kind with the storage flags of node->var open '
                       '(a relocation label is handed out only for objects of static storage duration, R15.12). '
                       'Not decided: link results, run-time equivalence of the configurations, initialiser bytes (C05), prologue/epilogue (C06), the one redeclaration case the Obj flags '
                       'cannot tell apart (`inline f` vs `static inline f` followed by a plain / extern declaration: judged on declaration sequences instead, R15.8 declaration-sequence).')
    rep.assumptions += ['states never built by the parser are not judged (tentative with initialiser / thread-local / extern; local thread-local; non-static function that is not live)',
                        'one declarator per declaration in global_variable()/declaration(); a definition has `{` where a prototype has `;`',
                        'gas semantics: a symbol is local unless .globl; .comm is global unless preceded by .local; .L names stay out of the symbol table',
                        'psABI 3.1.2 array alignment, ELF TLS ABI (general-dynamic 16-byte pattern, local-exec), crt start-file order of the GNU toolchain',
                        'R15.4 stack at the __tls_get_addr call: %rsp is a multiple of 16 when `depth` is 0 (prologue: C06) and every unit of `depth` is one 8-byte slot (C20); `depth` evaluated for 0..63',
                        'lists are analysed with the object under test followed by one plain definition (continuation), graphs with three functions (bounded-exhaustive)',
                        'R15.9: ld resolves archives and applies positional options left to right (GNU ld); the cc convention for the link line: inputs, -l, -Wl, and -Xlinker words in command-line order; '
                        'stage functions run_cc1(argc, argv, input, output) / assemble(input, output) and the temporary-name creator are cut points, libc string functions incl. strtok behave as ISO C specifies',
                        'parser context of static initialisers: integer file-scope objects of parse.c; nesting of gvar_initializer() evaluated to depth %d; between the calls it makes, '
                        'only gvar_initializer() and its private helpers change that context while an initialiser is parsed (every other writer makes the rule undecided)' % MAX_CONTEXT_LEVELS]
    cg = CG(P)
    envs = {}

    def penv():
        if 'pe' not in envs:
            envs['pe'] = ParseEnv(P, cg)
        return envs['pe']
    steps = [('R15.1', lambda: r151(cg, rep)), ('R15.2', lambda: r152(cg, rep)), ('R15.4', lambda: r154(cg, rep)),
             ('R15.3', lambda: r153(penv(), rep)), ('R15.5', lambda: r155(penv(), rep)), ('R15.6', lambda: r156(penv(), rep)),
             ('R15.10', lambda: r1510(penv(), rep)), ('R15.11', lambda: r1511(penv(), rep)), ('R15.12', lambda: r1512(penv(), rep)), ('R15.13', lambda: r1513(penv(), rep)), ('R15.14', lambda: r1514(penv(), rep)), ('R15.15', lambda: r1515(penv(), rep)),
             ('R15.7', lambda: r157(P, rep)), ('R15.9', lambda: r159(P, rep))]
    for rule, f in steps:
        try:
            f()
        except AnalysisBroken as e:        # one rule that cannot be evaluated must not hide the verdicts of the others
            rep.undecided(rule, 'analysis', 'rule could not be evaluated: %s' % e)
        except RecursionError as e:
            rep.undecided(rule, 'analysis', 'interpreter recursion limit: %s' % e)
        except Exception as e:             # a checker bug is never a verdict
            import traceback
            tb = traceback.format_exc().strip().splitlines()
            rep.undecided(rule, 'crash', 'internal error of the checker: %r | %s' % (e, ' / '.join(x.strip() for x in tb[-4:])))
