"""C16 Atomic read-modify-write operations are indivisible (DESIGN.md §3 C16)."""
import os, re
from ..build import AnalysisBroken
from ..interp import Obj, View, Interp, Sym, Cell
from ..chibi import CG, INT_CATS
from ..lib_sem import run_paths, child_value, canon, INTSZ, UNSIGNED
from ..lib_types import Types
from ..x86 import Unknown, lo, ext, C
from .c01 import wrap, report
from ..lib_c16_qual import m_copy_object, COPY_MODELS

U = 'codegen.c'
SIZES = (('char', 1), ('short', 2), ('int', 4), ('long', 8), ('uchar', 1), ('ushort', 2), ('uint', 4), ('ulong', 8), ('ptr', 8), ('bool', 1),
         ('float', 4), ('double', 8))
FLOATING = ('float', 'double')      # children of these classes leave their value in %xmm0; cmpxchg/xchg work on general registers


def fbits(t):
    """bit-level reading of the terms that carry a floating value unchanged between %xmm registers, general registers and memory:
    bits(frombits(x)) = x, bits(load-as-float(a)) = load-as-integer(a), a floating store stores the bits of the value"""
    if not isinstance(t, tuple):
        return t
    t = tuple(fbits(x) if isinstance(x, tuple) else x for x in t)
    k = t[0]
    if k == 'lo' and isinstance(t[2], tuple) and t[2][0] == 'bits' and t[2][1] == t[1]:
        return t[2]
    if k == 'fval':
        t = ('bits', t[1], t[2]); k = 'bits'
    if k == 'bits' and isinstance(t[2], tuple):
        x = t[2]
        if x[0] == 'frombits' and x[1] == t[1]:
            return lo(t[1], x[2])
        if x[0] == 'fmem' and x[1] == t[1]:
            return ('mem', t[1], x[2])
    if k == 'frombits' and isinstance(t[2], tuple):
        x = t[2]
        if x[0] == 'bits' and x[1] == t[1]:
            return x[2]
        if x[0] == 'mem' and x[1] == t[1]:
            return ('fmem', t[1], x[2])
    return t


def bitsof(w, t):
    """the low w bits of a term, floating moves read at bit level"""
    return fbits(canon(lo(w, fbits(t))))


def value_bits(name, cat, w):
    """the w-bit pattern of the value a child of type class `cat` leaves (contract of the children)"""
    _, V = child_value(name, cat)
    return ('bits', w, V) if cat in FLOATING else canon(lo(w, V))


def resolve_cas(t, succeeded):
    """the accumulator after cmpxchg: unchanged on success, the observed value on failure"""
    if not isinstance(t, tuple):
        return t
    if t[0] == 'casax':
        return resolve_cas(t[2] if succeeded else t[3], succeeded)
    return tuple(resolve_cas(x, succeeded) if isinstance(x, tuple) else x for x in t)


FPNOTE = ' (a float/double operand is produced in %xmm0 and a float/double load goes to %xmm0: the bits must be moved to the general register the instruction uses)'


def operands_once(rep, rule, key, pack, children, what, where):
    """every operand of the indivisible primitive is evaluated exactly once by the code gen_expr emits for it: the emitted sequence of
    every returning path contains exactly one recursive gen_expr / gen_addr / gen_stmt of each operand node. A second evaluation repeats
    the operand's side effects and - for the object operand - lets the instruction work on another object than the one the first
    evaluation designated (the term machine cannot see it: both evaluations leave `the value of the operand`)."""
    from ..chibi import linearise
    from ..lib_sem import label_of
    seen_path = False
    verdict = {c: None for c in children}
    for ctx, tr, finals, cats, it in pack:
        nodes = linearise(tr)
        seen_path = True
        pos = {c: [] for c in children}
        for i, n in enumerate(nodes):
            if n[0] == 'pseudo':
                ch = it.settle(n[2]) if isinstance(n[2], View) else n[2]
                nm = label_of(ch)
                if nm in pos:
                    pos[nm].append(i)
        for c in children:
            k = len(pos[c])
            if k == 1:
                continue
            if k == 0:
                verdict[c] = verdict[c] or ('not-evaluated', 'the emitted code does not evaluate the operand %s at all: its side effects are lost' % c, tr.text())
                continue
            between = nodes[pos[c][0]:pos[c][-1]]
            if any(n[0] == 'label' or (n[0] == 'ins' and n[1].split()[0].startswith('j')) for n in between):
                verdict[c] = verdict[c] or ('?', 'the operand %s is evaluated at %d places of the emitted code with control flow in between' % (c, k), tr.text())
            else:
                verdict[c] = verdict[c] or ('evaluated-more-than-once', 'the emitted code evaluates the operand %s %d times in one straight-line sequence: its side effects are repeated and the instruction works on the value of the LAST evaluation, while the other uses belong to an earlier one (`atomic_exchange(&a[i++], v)`, `next_counter()`)' % (c, k), tr.text())
    for c in children:
        k2 = '%s:operand-%s-evaluated-once' % (key, c)
        v = verdict[c]
        if not seen_path:
            rep.undecided(rule, k2, 'no returning path of gen_expr', where=where)
        elif v is None:
            rep.ob(rule, k2, True, '', where=where)
        elif v[0] == '?':
            rep.undecided(rule, k2, '%s: %s' % (what, v[1]), where=where)
        else:
            rep.ob(rule, k2 + ':' + v[0], False, '%s: %s' % (what, v[1]), where=where, facts={'trace': v[2]})


def r163(cg, rep):
    rep.rule('R16.3', 'compare-and-swap: expected value loaded from *old with the object width, `lock cmpxchg` with the new value in a register of the object width on the object itself, result from ZF, and on failure (only) the observed value written back through the saved `old` pointer with the object width; for float/double objects the bit patterns of the operands are what is compared and stored', floor=10)
    rep.rule('R16.4', 'exchange: `xchg` with the object as memory operand and a register of the object width; the old value is left in the register convention of the object type (%xmm0 for float/double)', floor=10)
    rep.rule('R16.17', 'the code gen_expr emits for the compare-and-swap / exchange primitives evaluates each operand node (object address, expected-value address, new value) exactly once on every path, for every object type incl. struct/union objects: an operand evaluated again repeats its side effects and lets the instruction work on another object than the one sampled', floor=40)
    where = '%s:%d' % (U, cg.cu.fn('gen_expr').line)
    for cat, size in SIZES:
        w = size * 8

        def mk(ctx, cat=cat):
            n = cg.node('node', 'ND_CAS')
            n.fields['ty'] = cg.tcell('nty', only=('bool',))
            b = cg.tcell('obj', only=(cat,))
            n.fields['cas_addr'] = cg.node('cas_addr', ty=cg.ptr_to(b, 'pa'))
            n.fields['cas_old'] = cg.node('cas_old', ty=cg.ptr_to(b, 'po'))
            n.fields['cas_new'] = cg.node('cas_new', ty=b)
            return n
        pack = run_paths(cg, 'gen_expr', mk)
        key = '%s:gen_expr:ND_CAS/%s' % (U, cat)
        operands_once(rep, 'R16.17', key, pack, ('cas_addr', 'cas_old', 'cas_new'), 'compare-and-swap on %s' % cat, where)
        nstates = 0
        nshape = 0
        outcomes = set()
        for ctx, tr, finals, cats, it in pack:
            if isinstance(finals, Exception):
                rep.undecided('R16.3', key, 'emitted code not interpretable: %s' % finals, where=where); continue
            for s in finals:
                nstates += 1
                cx = [e for e in s.events if e[0] == 'cmpxchg']
                Vnew = value_bits('cas_new', cat, w)
                A = ('addr', ('r', 'cas_addr', 64), 0)
                O = ('addr', ('r', 'cas_old', 64), 0)
                msg = None
                if len(cx) != 1:
                    msg = '%d cmpxchg instructions on a path, exactly one expected' % len(cx)
                else:
                    _, locked, cw, addr, expected, new = cx[0]
                    if not locked:
                        msg = 'cmpxchg is emitted without the lock prefix: the read-modify-write is not indivisible on multiprocessors'
                    elif cw != w:
                        msg = 'cmpxchg operates on %d bits but the atomic object has %d: neighbouring bytes are compared/overwritten or part of the object is ignored' % (cw, w)
                    elif addr != A:
                        msg = 'cmpxchg operates on %r, not on the atomic object (value of the first operand)' % (addr,)
                    elif bitsof(w, expected) != ('mem', w, O):
                        msg = 'the comparand in the accumulator is %r, expected the %d-bit object *old%s' % (bitsof(w, expected), w, FPNOTE if cat in FLOATING else '')
                    elif bitsof(w, new) != Vnew:
                        msg = 'the value offered to cmpxchg is %r, expected the third operand (%r)%s' % (bitsof(w, new), Vnew, FPNOTE if cat in FLOATING else '')
                rep.ob('R16.3', key + ':cmpxchg', msg is None, 'compare-and-swap on %s: %s' % (cat, msg), where=where, facts={'trace': tr.text()})
                if msg is not None:
                    continue
                nshape += 1
                ok_paths = [c for c in s.cond if c[0][0] in ('cas_ok', 'cas_failed')]
                succeeded = None
                for c, truth in ok_paths:
                    succeeded = truth if c[0] == 'cas_ok' else (not truth)
                stores = [x for x in s.stores]
                res = canon(lo(32, s.reg['rax']))
                want = canon(ext('zx', 8, 32, ('cas_ok', 1)))
                rep.ob('R16.3', key + ':result', res == want, 'the value of the compare-and-swap expression is %r, expected the success flag %r' % (res, want), where=where)
                if succeeded is None:
                    # no branch on the outcome: a write-back on every path would clobber *old on success, none would lose the observed value
                    rep.ob('R16.3', key + ':write-back-conditional', False, 'the code does not branch on the outcome of cmpxchg: %d store(s) happen unconditionally' % len(stores), where=where, facts={'trace': tr.text()})
                    continue
                outcomes.add(succeeded)
                if succeeded:
                    rep.ob('R16.3', key + ':no-store-on-success', not stores, 'on success %d store(s) are performed (%r): the expected-value object must stay untouched' % (len(stores), stores[:1]), where=where, facts={'trace': tr.text()})
                else:
                    ok = len(stores) == 1 and stores[0][0] == O and stores[0][1] == w and bitsof(w, resolve_cas(stores[0][2], False)) == ('observed', w, A, 1)
                    rep.ob('R16.3', key + ':failure-writes-observed', ok,
                           'on failure the stores are %r; C11 7.17.7.4: exactly the observed %d-bit value must be written to *old' % ([(a, ww, bitsof(ww, resolve_cas(v, False))) for a, ww, v, k in stores], w), where=where, facts={'trace': tr.text()})
        if nshape and outcomes != {True, False}:
            rep.ob('R16.3', key + ':both-outcomes', False, 'only outcome(s) %s of the compare-and-swap are reachable in the emitted code' % sorted(outcomes), where=where)
        if nstates == 0:
            rep.undecided('R16.3', key, 'no path', where=where)
        # exchange
        def mkx(ctx, cat=cat):
            n = cg.node('node', 'ND_EXCH')
            b = cg.tcell('obj', only=(cat,))
            n.fields['ty'] = b
            n.fields['lhs'] = cg.node('lhs', ty=cg.ptr_to(b, 'pa'))
            n.fields['rhs'] = cg.node('rhs', ty=b)
            return n
        pack = run_paths(cg, 'gen_expr', mkx)
        keyx = '%s:gen_expr:ND_EXCH/%s' % (U, cat)
        operands_once(rep, 'R16.17', keyx, pack, ('lhs', 'rhs'), 'exchange on %s' % cat, where)

        def chk(s, cat=cat, w=w):
            xs = [e for e in s.events if e[0] == 'xchg']
            Vn = value_bits('rhs', cat, w)
            A = ('addr', ('r', 'lhs', 64), 0)
            if len(xs) != 1:
                return False, '%d xchg instructions with a memory operand, one expected (xchg with memory is the only implicitly locked form)' % len(xs)
            _, addr, xw, new = xs[0]
            if addr != A:
                return False, 'xchg operates on %r, not on the atomic object' % (addr,)
            if xw != w:
                return False, 'xchg moves %d bits, the object has %d' % (xw, w)
            if bitsof(w, new) != Vn:
                return False, 'xchg stores %r, expected the second operand (%r)%s' % (bitsof(w, new), Vn, FPNOTE if cat in FLOATING else ''), ('floating-operand-not-moved-to-a-general-register' if cat in FLOATING else None)
            # result in the register convention of the type
            old = ('mem', w, A)
            if cat in FLOATING:
                got = fbits(s.xmm.get(0, ('xinit', 0)))
                return got == ('fmem', w, A), 'the old value of the %s object is left as %r in %%xmm0; an expression of type %s is expected in %%xmm0 with the bits the exchange fetched (%r)' % (cat, got, cat, ('fmem', w, A)), 'floating-result-not-in-xmm0'
            if cat in INTSZ and INTSZ[cat] < 4:
                if cat in UNSIGNED:
                    want, ww = ext('zx', w, 64, old), 64
                else:
                    want, ww = ext('sx', w, 32, old), 32
            else:
                want, ww = old, w
            got = canon(lo(ww, s.reg['rax']))
            return got == canon(want), 'the old value is left as %r; the register convention for %s requires %r (a narrow result must be re-extended)' % (got, cat, canon(want)), 'narrow-result-not-extended'
        report(rep, 'R16.4', keyx, pack, chk, 'exchange on %s' % cat, where)


def tree_kinds(it, n, E, seen=None, depth=0):
    """all node kinds reachable from a concrete Node tree"""
    out = []
    seen = seen if seen is not None else set()
    if isinstance(n, View):
        n = it.settle(n)
    if not isinstance(n, Obj) or id(n) in seen or depth > 40:
        return out
    seen.add(id(n))
    out.append(n)
    for f in ('lhs', 'rhs', 'cond', 'then', 'els', 'init', 'inc', 'body', 'next', 'cas_addr', 'cas_old', 'cas_new', 'args'):
        v = n.fields.get(f)
        if v is not None and not (isinstance(v, int)):
            out += tree_kinds(it, v, E, seen, depth + 1)
    return out


def r161(P, rep):
    rep.rule('R16.1', 'every compound assignment (and ++/--) on an _Atomic lvalue - variable, dereference or member, of integer, pointer or floating type - is rewritten to the compare-exchange retry loop', floor=9)
    rep.rule('R16.2', 'shape of the retry loop: address of the lvalue taken once, operand evaluated once before the loop, new = old op val in the body, condition is !CAS(addr, &old, new), value of the expression is new', floor=5)
    pu = P.unit('parse.c')
    if 'to_assign' not in pu.functions:
        raise AnalysisBroken('parse.c: to_assign vanished')
    T = Types(P)
    E = pu.enums
    NK = {v: k for k, v in E.items() if k.startswith('ND_')}
    where = 'parse.c:%d' % pu.fn('to_assign').line

    def build(it, lkind, tname, atomic):
        ty = it.call_fn(*it.find_def('copy_type'), [T.make(it, tname)]) if atomic else T.make(it, tname)
        if atomic:
            ty.fields['is_atomic'] = 1
        lhs = Obj('Node', lazy=False, label='A')
        lhs.fields['kind'] = E[lkind]
        lhs.fields['ty'] = ty
        lhs.fields['tok'] = Obj('Token', lazy=True, label='A.tok')
        if lkind == 'ND_MEMBER':
            base = Obj('Node', lazy=False, label='A.base')
            base.fields['kind'] = E['ND_VAR']; base.fields['ty'] = T.make(it, 'long'); base.fields['tok'] = lhs.fields['tok']
            lhs.fields['lhs'] = base
            m = Obj('Member', lazy=False, label='A.member'); m.fields['ty'] = ty
            lhs.fields['member'] = m
        elif lkind == 'ND_DEREF':
            p = Obj('Node', lazy=False, label='A.ptr'); p.fields['kind'] = E['ND_VAR']; p.fields['tok'] = lhs.fields['tok']
            p.fields['ty'] = it.call_fn(*it.find_def('pointer_to'), [ty])
            lhs.fields['lhs'] = p
        rhs = Obj('Node', lazy=False, label='B')
        rhs.fields['kind'] = E['ND_VAR']; rhs.fields['ty'] = T.make(it, 'int'); rhs.fields['tok'] = lhs.fields['tok']
        b = Obj('Node', lazy=False, label='binary')
        b.fields['kind'] = E['ND_ADD']; b.fields['lhs'] = lhs; b.fields['rhs'] = rhs; b.fields['tok'] = lhs.fields['tok']
        return b, lhs, rhs

    for lkind in ('ND_VAR', 'ND_DEREF', 'ND_MEMBER'):
        for tname in ('int', 'long', 'char', 'ptr', 'uchar', 'float', 'double'):
            for atomic in (True, False):
                it = Interp(P, pu, {'opaque': ['new_unique_name', 'error_tok'], 'models': {'memcpy': m_copy_object, 'memmove': m_copy_object, 'new_lvar': lambda it_, ctx, n, a: Obj('Obj', lazy=False, label=ctx.fresh('tmp'), fields={'ty': a[1], 'name': a[0]})}})
                box = {}

                def mk(ctx):
                    it.ctx = ctx
                    b, l, r = build(it, lkind, tname, atomic)
                    box.update(b=b, l=l, r=r)
                    return [b]
                outs = [out[1] for ctx, out in it.explore('to_assign', mk) if out[0] == 'ret']
                key = 'parse.c:to_assign:%s/%s/%s' % (lkind, tname, 'atomic' if atomic else 'plain')
                if len(outs) != 1:
                    rep.undecided('R16.1', key, 'to_assign has %d returning paths' % len(outs), where=where); continue
                nodes = tree_kinds(it, outs[0], E)
                kinds = [NK.get(n.fields.get('kind')) for n in nodes]
                has_cas = 'ND_CAS' in kinds
                uses_A = sum(1 for n in nodes if n is box['l'])
                uses_B = sum(1 for n in nodes if n is box['r'])
                if atomic:
                    rep.ob('R16.1', key, has_cas, 'op= on an _Atomic %s lvalue (%s) is rewritten to a plain load/modify/store (%s): concurrent updates can be lost' % (tname, lkind, '; '.join(k for k in kinds if k)[:80]), where=where)
                    if has_cas:
                        # the loop and the types of its temporaries for every lvalue shape and object type (a temporary typed by a promoted or
                        # otherwise different type is refreshed only partially by a failed exchange)
                        loop_shape(it, rep, outs[0], box, E, NK, where, '' if (lkind, tname) == ('ND_VAR', 'int') else '/%s/%s' % (lkind, tname))
                # single evaluation (R04.6): the operand B exactly once; the lvalue (or its base) exactly once
                rep.ob('R16.2', key + ':operands-evaluated-once', uses_B == 1 and (uses_A == 1 or lkind == 'ND_MEMBER'),
                       'in the rewrite of `A op= B` the lvalue occurs %d time(s) and the operand %d time(s): side effects would be repeated or dropped' % (uses_A, uses_B), where=where)


def loop_shape(it, rep, root, box, E, NK, where, variant=''):
    key = 'parse.c:to_assign:cas-loop' + variant
    def kind(n):
        return NK.get(n.fields.get('kind')) if isinstance(n, Obj) else None
    body = []
    n = root.fields.get('body')
    while isinstance(n, Obj) and len(body) < 12:
        body.append(n); n = n.fields.get('next')
    ok = kind(root) == 'ND_STMT_EXPR' and [kind(x) for x in body] == ['ND_EXPR_STMT', 'ND_EXPR_STMT', 'ND_EXPR_STMT', 'ND_DO', 'ND_EXPR_STMT']
    rep.ob('R16.2', key + ':statement-sequence', ok, 'the rewrite is %s %r, expected ({ addr=&A; val=B; old=*addr; do ... while(); new; })' % (kind(root), [kind(x) for x in body]), where=where)
    if not ok:
        return
    a1, a2, a3, loop, last = [x.fields.get('lhs') if kind(x) == 'ND_EXPR_STMT' else x for x in body]
    def var(n):
        return n.fields.get('var') if kind(n) == 'ND_VAR' else None
    addr = var(a1.fields.get('lhs')); val = var(a2.fields.get('lhs')); old = var(a3.fields.get('lhs'))
    c1 = kind(a1) == 'ND_ASSIGN' and kind(a1.fields.get('rhs')) == 'ND_ADDR' and a1.fields['rhs'].fields.get('lhs') is box['l'] and addr is not None
    c2 = kind(a2) == 'ND_ASSIGN' and a2.fields.get('rhs') is box['r'] and val is not None
    c3 = kind(a3) == 'ND_ASSIGN' and kind(a3.fields.get('rhs')) == 'ND_DEREF' and var(a3.fields['rhs'].fields.get('lhs')) is addr and old is not None
    rep.ob('R16.2', key + ':prologue', c1 and c2 and c3, 'the loop prologue is not addr = &A; val = B; old = *addr (got %s %s %s)' % (c1, c2, c3), where=where)
    cond = loop.fields.get('cond')
    cas = cond.fields.get('lhs') if kind(cond) == 'ND_NOT' else None
    then = loop.fields.get('then')
    st = then.fields.get('body') if kind(then) == 'ND_BLOCK' else then
    asg = st.fields.get('lhs') if kind(st) == 'ND_EXPR_STMT' else st
    new = var(asg.fields.get('lhs')) if kind(asg) == 'ND_ASSIGN' else None
    op = asg.fields.get('rhs') if kind(asg) == 'ND_ASSIGN' else None
    c4 = new is not None and isinstance(op, Obj) and op.fields.get('kind') == box['b'].fields.get('kind') and var(op.fields.get('lhs')) is old and var(op.fields.get('rhs')) is val
    rep.ob('R16.2', key + ':body', bool(c4), 'the loop body is not new = old op val with the operator of the compound assignment', where=where)
    c5 = kind(cas) == 'ND_CAS' and var(cas.fields.get('cas_addr')) is addr and kind(cas.fields.get('cas_old')) == 'ND_ADDR' and var(cas.fields['cas_old'].fields.get('lhs')) is old and var(cas.fields.get('cas_new')) is new
    rep.ob('R16.2', key + ':condition', bool(c5), 'the loop condition is not !compare_exchange(addr, &old, new): a failed exchange would not retry with the refreshed expected value', where=where)
    c6 = var(last) is new and new is not None
    rep.ob('R16.2', key + ':value', bool(c6), 'the value of the atomic compound assignment is %s, not the value `new` that the successful exchange installed (a separate re-read is not linearizable)' % kind(last), where=where)
    def vty(v):
        return v.fields.get('ty') if isinstance(v, Obj) else None
    lty = box['l'].fields.get('ty'); rty = box['r'].fields.get('ty')
    tys_ok = vty(val) is rty and vty(old) is lty and vty(new) is lty
    what = []
    if vty(val) is not rty:
        what.append('`val` does not have the type of the right operand (it has %s): the operand is converted before the operation instead of the operation being done in the common type (C11 6.5.16.2p3: `_Atomic unsigned char c = 200; c /= 300` must give 0)' % ('the type of the left operand' if vty(val) is lty else 'another type'))
    if vty(old) is not lty or vty(new) is not lty:
        what.append('`old`/`new` do not have the type of the atomic object')
    rep.ob('R16.2', key + ':temporary-types', tys_ok, '; '.join(what), where=where)
    distinct = len({id(x) for x in (addr, val, old, new) if x is not None}) == 4
    rep.ob('R16.2', key + ':distinct-temporaries', distinct, 'addr/val/old/new are not four distinct temporaries', where=where)


def r165(P, rep):
    """include/stdatomic.h: every generic read-modify-write is expanded (plain token substitution) and evaluated by the mini evaluator
    (sa/lib_minic.py) on a shared object that other threads change between any two accesses of this thread: op= on the shared object is one
    indivisible update (that is what R16.1/R16.2 establish for the compiler), __builtin_compare_and_swap compares, and on failure writes the
    observed value back through its second operand. Required for every interference schedule: the object ends up as (value just before the
    update) op val, and atomic_fetch_* yields exactly that value before the update (C11 7.17.7.5)"""
    from ..lib_minic import parse_macros, expand, tokenize, Parser, Eval, Cell, NotInSubset
    rep.rule('R16.5', 'include/stdatomic.h maps every generic read-modify-write of C11 7.17.7 onto an indivisible update (compound assignment on *(obj), or a compare-exchange retry loop that re-reads through the failed exchange); atomic_fetch_* yield the value held immediately before their own update, under any interference between their steps', floor=14)
    path = P.header('include/stdatomic.h')
    text = open(path).read()
    where = 'include/stdatomic.h'
    try:
        macros = parse_macros(text)
    except NotInSubset as e:
        rep.undecided('R16.5', 'stdatomic.h:macros', 'header macros not parseable: %s' % e, where=where); return
    M = (1 << 64) - 1          # the object is modelled as a 64-bit unsigned atomic, the operand as an `unsigned int` value

    class U32(int):
        """an operand of type unsigned int: unary operators wrap at 32 bits, as they do before the value is converted to the object's type"""
        def __neg__(self):
            return U32((-int(self)) & 0xffffffff)

        def __invert__(self):
            return U32((~int(self)) & 0xffffffff)
    OPS = {'add': lambda a, b: (a + b) & M, 'sub': lambda a, b: (a - b) & M, 'or': lambda a, b: a | b, 'xor': lambda a, b: a ^ b, 'and': lambda a, b: a & b}
    HOST = {'+': 'add', '-': 'sub', '|': 'or', '^': 'xor', '&': 'and'}

    class Shared(Cell):
        """the atomic object; `inject` = values other threads store right before this thread's k-th access"""
        def __init__(self, v, inject):
            Cell.__init__(self, v, 'obj'); self.inject = dict(inject); self.n = 0; self.updates = []

        def _tick(self):
            if self.n in self.inject:
                self.v = self.inject[self.n]
            self.n += 1

        def get(self):
            self._tick(); return self.v

        def set(self, v):
            self._tick(); self.updates.append((self.v, v, 'plain-store')); self.v = v

        def rmw(self, op, operand):
            self._tick(); old = self.v; self.v = OPS[HOST[op]](old, operand & M); self.updates.append((old, self.v, 'rmw')); return self.v

        def cas(self, expected_cell, new):
            self._tick()
            if self.v == (expected_cell.get() & M):
                old = self.v; self.v = new & M; self.updates.append((old, self.v, 'cas')); return 1
            expected_cell.set(self.v); return 0

    def run(mname, nargs, init, val, inject):
        obj = Shared(init, inject)
        def b_cas(p_, exp, new):
            if not isinstance(p_, Shared) or not isinstance(exp, Cell):
                raise NotInSubset('compare-exchange operands')
            return p_.cas(exp, new)
        def b_xchg(p_, new):
            p_._tick(); old = p_.v; p_.v = new & M; p_.updates.append((old, p_.v, 'xchg')); return old
        src = '%s(P, V%s)' % (mname, ', ORDER' if nargs == 3 else '')
        toks = expand(tokenize(src), macros)
        ps = Parser(toks + [('p', ';')], typenames=())
        e = ps.expr()
        ev = Eval({}, builtins={'__builtin_compare_and_swap': b_cas, '__builtin_atomic_exchange': b_xchg})
        res = ev.ev(e, {'P': Cell(obj, 'P'), 'V': val, 'ORDER': 5})
        return res, obj

    SCHEDULES = [{}, {0: 7}, {1: 9}, {2: 11}, {1: 9, 2: 13}, {0: 3, 1: 9, 2: 13, 3: 21}, {1: 0xfffffffffffffff0, 3: 5}]
    for name in ('add', 'sub', 'or', 'xor', 'and'):
        for suffix, nargs in (('', 2), ('_explicit', 3)):
            mname = 'atomic_fetch_%s%s' % (name, suffix)
            if mname not in macros:
                rep.ob('R16.5', 'stdatomic.h:%s:defined' % mname, False, '%s is not defined' % mname, where=where); continue
            bad = None
            try:
                for init, val in ((5, U32(1)), (0xf0, U32(0x3c)), (0x100000000, U32(0xffffffff))):
                    for inj in SCHEDULES:
                        res, obj = run(mname, nargs, init, val, inj)
                        ups = [u for u in obj.updates]
                        if len(ups) != 1:
                            bad = bad or ('updates', 'performs %d updates of the object (%r), exactly one indivisible update expected' % (len(ups), ups)); continue
                        old, new, how = ups[0]
                        if how == 'plain-store':
                            bad = bad or ('not-indivisible', 'updates the object with a plain store computed from an earlier read: an update by another thread in between is lost'); continue
                        if new != OPS[name](old, val & M):
                            bad = bad or ('wrong-update', 'with the object holding %d right before the update and operand %d the object becomes %d, expected %d' % (old, val, new, OPS[name](old, val & M))); continue
                        if res is None or (res & M) != old:
                            tag = 'yields-new-value' if res is not None and (res & M) == new else 'yields-other-value'
                            bad = bad or (tag, 'yields %r; the object held %d immediately before the update (and %d after): C11 7.17.7.5p3 atomic_fetch_* return the value held before the operation%s'
                                          % (res, old, new, '' if not inj else ' (schedule: other threads store %r before this thread\'s accesses)' % (inj,)))
            except NotInSubset as e:
                rep.undecided('R16.5', 'stdatomic.h:%s' % mname, 'macro outside the evaluated C subset: %s' % e, where=where); continue
            key = 'stdatomic.h:%s:yields-old-value' % mname
            rep.ob('R16.5', key if not bad else key + ':' + bad[0], bad is None, '%s %s' % (mname, bad[1] if bad else ''), where=where)
    for mname, builtin, nargs in (('atomic_exchange', 'xchg', 2), ('atomic_exchange_explicit', 'xchg', 3), ('atomic_flag_test_and_set', 'xchg', 1)):
        if mname not in macros:
            rep.ob('R16.5', 'stdatomic.h:%s:defined' % mname, False, '%s is not defined' % mname, where=where); continue
        try:
            obj = Shared(5, {0: 8})
            def b_xchg(p_, new, obj=obj):
                p_._tick(); old = p_.v; p_.v = new & M; p_.updates.append((old, p_.v, 'xchg')); return old
            src = {1: '%s(P)', 2: '%s(P, V)', 3: '%s(P, V, ORDER)'}[nargs] % mname
            e = Parser(expand(tokenize(src), macros) + [('p', ';')]).expr()
            res = Eval({}, builtins={'__builtin_atomic_exchange': b_xchg}).ev(e, {'P': Cell(obj, 'P'), 'V': 77, 'ORDER': 5})
            want_new = 1 if nargs == 1 else 77
            ok = len(obj.updates) == 1 and obj.updates[0][2] == 'xchg' and obj.updates[0][1] == want_new and res == obj.updates[0][0]
            rep.ob('R16.5', 'stdatomic.h:%s:maps-to-__builtin_atomic_exchange' % mname, ok, '%s does not perform one exchange that stores its operand and yields the previous value (updates %r, result %r)' % (mname, obj.updates, res), where=where)
        except NotInSubset as e:
            rep.undecided('R16.5', 'stdatomic.h:%s' % mname, 'macro outside the evaluated C subset: %s' % e, where=where)
    for mname in ('atomic_compare_exchange_strong', 'atomic_compare_exchange_weak'):
        if mname not in macros:
            rep.ob('R16.5', 'stdatomic.h:%s:defined' % mname, False, '%s is not defined' % mname, where=where); continue
        try:
            outs = []
            for init, expv in ((5, 5), (5, 6)):
                obj = Shared(init, {})
                exp = Cell(expv, 'expected')
                def b_cas(p_, e_, new):
                    return p_.cas(e_, new)
                e = Parser(expand(tokenize('%s(P, E, N)' % mname), macros) + [('p', ';')]).expr()
                res = Eval({}, builtins={'__builtin_compare_and_swap': b_cas}).ev(e, {'P': Cell(obj, 'P'), 'E': Cell(exp, 'E'), 'N': 42})
                outs.append((res, obj.v, exp.v))
            ok = outs == [(1, 42, 5), (0, 5, 5)]
            rep.ob('R16.5', 'stdatomic.h:%s:maps-to-__builtin_compare_and_swap' % mname, ok, '%s: (result, object, expected) is %r for an equal and an unequal expected value; prescribed [(1, 42, 5), (0, 5, 5)]' % (mname, outs), where=where)
            # under interference: success = exactly one indivisible update from the expected value to the new one; failure = no update, and the
            # value handed back through `expected` is one the object held at an access of this operation and DIFFERS from the expected value
            bad = None
            for init, expv in ((5, 5), (5, 6)):
                for inj in ({}, {0: 6}, {0: 5}, {1: 6}, {1: 5}, {1: 9}, {0: 9, 1: 6}, {0: 6, 1: 5}, {0: 9, 1: 5, 2: 6}, {2: 6}, {2: 5}):
                    obj = Shared(init, inj)
                    seen = []
                    tick0 = obj._tick

                    def tick(obj=obj, seen=seen, tick0=tick0):
                        tick0(); seen.append(obj.v)
                    obj._tick = tick
                    exp = Cell(expv, 'expected')
                    e = Parser(expand(tokenize('%s(P, E, N)' % mname), macros) + [('p', ';')]).expr()
                    res = Eval({}, builtins={'__builtin_compare_and_swap': lambda p_, e_, new: p_.cas(e_, new)}).ev(e, {'P': Cell(obj, 'P'), 'E': Cell(exp, 'E'), 'N': 42})
                    sched = 'object %d, expected %d, other threads store %r before this operation\'s accesses' % (init, expv, inj)
                    if res:
                        if [(u[0], u[1]) for u in obj.updates] != [(expv, 42)] or obj.updates[0][2] != 'cas' or exp.v != expv:
                            bad = bad or ('success-without-one-indivisible-update', 'reports success with updates %r and expected = %d (%s)' % (obj.updates, exp.v, sched))
                    else:
                        if obj.updates:
                            bad = bad or ('failure-with-update', 'reports failure but updated the object: %r (%s)' % (obj.updates, sched))
                        elif exp.v == expv:
                            bad = bad or ('fails-with-expected-unchanged', 'reports failure and leaves %d in the expected-value object, the very value it was asked to compare with: a failure must hand back a value of the object that differs (%s)' % (exp.v, sched))
                        elif exp.v not in seen:
                            bad = bad or ('failure-stores-unobserved-value', 'reports failure and stores %d into the expected-value object, a value the object did not hold at any of its accesses %r (%s)' % (exp.v, seen, sched))
            key = 'stdatomic.h:%s:linearizable-under-interference' % mname
            rep.ob('R16.5', key if not bad else key + ':' + bad[0], bad is None, '%s %s' % (mname, bad[1] if bad else ''), where=where)
        except NotInSubset as e:
            rep.undecided('R16.5', 'stdatomic.h:%s' % mname, 'macro outside the evaluated C subset: %s' % e, where=where)



def r165_hygiene(P, rep):
    """the statement-expression macros of include/stdatomic.h declare temporaries in the scope in which the caller's operand expressions are
    then evaluated: a temporary whose name an operand may legitimately use (any identifier that is not reserved, C11 7.1.3) captures it -
    `int old = 5; atomic_fetch_add(&z, old)` would add the macro's own temporary. Decided per generic function over the parsed expansion:
    every identifier the expansion declares is reserved (`__x` or `_X`), unless every macro argument is evaluated before the first
    declaration."""
    from ..lib_minic import parse_macros, expand, tokenize, Parser, NotInSubset
    where = 'include/stdatomic.h'
    try:
        macros = parse_macros(open(P.header('include/stdatomic.h')).read())
    except NotInSubset:
        return                     # R16.5 reports it
    names = ['atomic_fetch_%s%s' % (o, x) for o in ('add', 'sub', 'or', 'xor', 'and') for x in ('', '_explicit')]
    names += ['atomic_exchange', 'atomic_exchange_explicit', 'atomic_compare_exchange_strong', 'atomic_compare_exchange_weak', 'atomic_flag_test_and_set']

    def decls(n, out):
        if isinstance(n, (tuple, list)):
            if n and n[0] == 'decl' and isinstance(n[1], str):
                out.append(n[1])
            for x in n:
                decls(x, out)
        return out
    for mname in names:
        if mname not in macros or macros[mname][0] is None:
            continue
        params = macros[mname][0]
        key = 'stdatomic.h:%s:temporaries-have-reserved-names' % mname
        try:
            ps = Parser(expand(tokenize('%s(%s)' % (mname, ', '.join('ARG%d' % i for i in range(len(params))))), macros) + [('p', ';')], typenames=())
            e = ps.expr()
        except NotInSubset as x:
            rep.undecided('R16.5', key, 'macro outside the parsed C subset: %s' % x, where=where); continue
        bad = sorted({d for d in decls(e, []) if not re.match(r'__|_[A-Z]', d)})
        rep.ob('R16.5', key + (':' + bad[0] if bad else ''), not bad,
               '%s declares the temporary `%s` in the scope where the caller\'s operands are evaluated: an operand that mentions a variable of that name (an ordinary identifier) reads the macro\'s temporary instead' % (mname, ', '.join(bad)), where=where)


def r165_typed(P, rep):
    """include/stdatomic.h on objects of every integer width and signedness: the expanded macros are evaluated with C's types (sa/lib_c16.py):
    each temporary has the width of its declared type (`typeof(expr)` follows promotion and the usual arithmetic conversions), and the
    compare-exchange builtin compares / refreshes exactly sizeof(object) bytes of the expected-value object (that is what R16.3 establishes for
    the emitted code). A temporary that is wider than the object keeps stale upper bytes over a failed exchange, a narrower one is overrun;
    a conversion of the new value through a narrower type loses bits. Required under every interference schedule, as in R16.5: one indivisible
    update old -> old op val, and the value yielded is the value the object held immediately before it."""
    from ..lib_minic import parse_macros, expand, tokenize, Parser, NotInSubset
    from ..lib_c16 import TypedEval, TCell, TShared, Diverges, CTYPES, PYOP, wrap, tname, atomic
    rep.rule('R16.8', 'include/stdatomic.h, evaluated with C types on atomic objects of every integer width and signedness: the temporaries of the generic read-modify-write macros have the width of the atomic object (the compare-exchange builtin reads and refreshes exactly sizeof(object) bytes of the expected-value object), no conversion on the way loses or invents bits, and atomic_fetch_* / atomic_exchange yield the value the object held immediately before their own update under any interference, including interference that changes the sign of the object', floor=100)
    where = 'include/stdatomic.h'
    try:
        macros = parse_macros(open(P.header('include/stdatomic.h')).read())
    except NotInSubset as e:
        rep.undecided('R16.8', 'stdatomic.h:macros', 'header macros not parseable: %s' % e, where=where); return

    def parse(src):
        ps = Parser(expand(tokenize(src), macros) + [('p', ';')], typenames=())
        e = ps.expr()
        if ps.peek() != ('p', ';'):
            raise NotInSubset('trailing tokens after the expansion of %s' % src)
        return e

    def corners(t):
        n = t[1] * 8
        if t[2]:
            return [0, 1, (1 << n) - 1, (1 << (n - 1)) - 1, 1 << (n - 1), 5]
        return [0, 1, -1, (1 << (n - 1)) - 1, -(1 << (n - 1)), 5]

    def schedules(t):
        cs = corners(t)
        out = [{}]
        for k in (0, 1, 2):
            out += [{k: a} for a in cs]
        out += [{1: a, 2: b} for a in cs[:5] for b in cs[:5] if a != b]
        return out

    # The generic functions are applied to objects designated through pointers whose pointee type carries _Atomic AND through pointers
    # to the unqualified type (gcc accepts both, test/atomic.c does it, and a `long` member of a shared struct updated with
    # atomic_fetch_add is everyday code): the compiler makes `*(obj) op= v` indivisible only in the first case, so a macro may rely on
    # op= only if it makes the lvalue atomic-qualified itself. Every macro is evaluated with both pointee types.
    POINTEES = (('', True), ('/through-unqualified-pointer', False))
    QNOTE = {True: '', False: ' [the object is designated through a pointer to the unqualified type: op=, ++ and -- on *(obj) are a plain load, the operation and a plain store there - only the builtins are indivisible]'}

    def run(e, t, init, vt, val, inj, extra=None, qualified=True):
        obj = TShared(t, init, inj)
        env = {'P': TCell(('ptr', atomic(t) if qualified else t), obj, 'P'), 'V': TCell(vt, val, 'V'), 'ORDER': TCell(CTYPES['int'], 5, 'ORDER')}
        env.update(extra or {})
        ev = TypedEval()
        return ev.ev(e, env), obj, ev.ty(e, ev.tenv(env))

    VALS = ((CTYPES['int'], 1), (CTYPES['uint'], 0xfffffff5))
    for name in ('add', 'sub', 'or', 'xor', 'and'):
        op = {'add': '+', 'sub': '-', 'or': '|', 'xor': '^', 'and': '&'}[name]
        for suffix, nargs in (('', 2), ('_explicit', 3)):
            mname = 'atomic_fetch_%s%s' % (name, suffix)
            if mname not in macros:
                continue                      # R16.5 reports the missing definition
            try:
                e = parse('%s(P, V%s)' % (mname, ', ORDER' if nargs == 3 else ''))
            except NotInSubset as x:
                rep.undecided('R16.8', 'stdatomic.h:%s' % mname, 'macro outside the evaluated C subset: %s' % x, where=where); continue
            for cat, t, (qsuffix, qualified) in [(c_, t_, q_) for c_, t_ in CTYPES.items() for q_ in POINTEES]:
                key = 'stdatomic.h:%s:object/%s%s' % (mname, cat, qsuffix)
                bad = None
                try:
                    cs = corners(t)
                    for init in (cs[3], cs[2], 5):
                        for vt, val in VALS:
                            for inj in schedules(t):
                                if bad:
                                    break
                                sched = 'a %s object holding %d, operand (%s)%d%s' % (tname(t), wrap(t, init), tname(vt), val, '' if not inj else '; other threads store %r right before this operation\'s accesses number %r' % ([wrap(t, x) for x in inj.values()], list(inj)))
                                try:
                                    res, obj, rt = run(e, t, init, vt, val, inj, qualified=qualified)
                                except Diverges:
                                    bad = ('retry-loop-never-terminates', 'repeats a state of its retry loop with no interference left: it never terminates (%s)' % sched); continue
                                ups = obj.updates
                                if obj.fault:
                                    bad = (obj.fault[0], '%s (%s)' % (obj.fault[1], sched)); continue
                                if len(ups) != 1:
                                    bad = ('updates', 'performs %d updates of the object (%r), exactly one indivisible update expected (%s)' % (len(ups), ups, sched)); continue
                                old, new, how = ups[0]
                                want = wrap(t, PYOP[op](old, val))
                                if how == 'plain-store':
                                    bad = ('not-indivisible', 'updates the object with a plain store computed from an earlier read: an update another thread makes in between is lost (%s)%s' % (sched, QNOTE[qualified])); continue
                                if new != want:
                                    bad = ('wrong-update', 'the object held %d right before the update and becomes %d, expected %d: a conversion on the way to the compare-exchange loses or invents bits (%s)' % (old, new, want, sched)); continue
                                if res != old:
                                    bad = ('yields-new-value' if res == new else 'yields-value-the-object-never-held' if res not in obj.seen else 'yields-other-value',
                                           'yields (%s)%d; the object held %d immediately before the update (values at this operation\'s accesses: %r): C11 7.17.7.5p3. A temporary that is refreshed by a failed compare-exchange must have exactly the type of the atomic object - the builtin rewrites sizeof(object) bytes of it, the remaining bytes keep the extension of the stale sample (%s)'
                                           % (tname(rt), res, old, obj.seen, sched))
                except NotInSubset as x:
                    rep.undecided('R16.8', key, 'macro outside the evaluated C subset: %s' % x, where=where); continue
                rep.ob('R16.8', key if not bad else key + ':' + bad[0], bad is None, '%s %s' % (mname, bad[1] if bad else ''), where=where)
    for mname, nargs in (('atomic_exchange', 2), ('atomic_exchange_explicit', 3)):
        if mname not in macros:
            continue
        try:
            e = parse('%s(P, V%s)' % (mname, ', ORDER' if nargs == 3 else ''))
        except NotInSubset as x:
            rep.undecided('R16.8', 'stdatomic.h:%s' % mname, 'macro outside the evaluated C subset: %s' % x, where=where); continue
        for cat, t, (qsuffix, qualified) in [(c_, t_, q_) for c_, t_ in CTYPES.items() for q_ in POINTEES]:
            key = 'stdatomic.h:%s:object/%s%s' % (mname, cat, qsuffix)
            bad = None
            try:
                cs = corners(t)
                for init in (cs[3], cs[2]):
                    for vt, val in ((CTYPES['int'], -2), (CTYPES['int'], 200), (CTYPES['uint'], 0xfffffff5)):
                        for inj in ({}, {0: cs[4]}, {0: cs[2]}, {0: 0}, {1: cs[4]}):
                            res, obj, rt = run(e, t, init, vt, val, inj, qualified=qualified)
                            sched = 'a %s object holding %d, operand (%s)%d, other threads store %r' % (tname(t), wrap(t, init), tname(vt), val, inj)
                            ups = obj.updates
                            if len(ups) != 1 or ups[0][2] != 'xchg':
                                bad = bad or ('updates', 'does not perform exactly one exchange: %r (%s)%s' % (ups, sched, QNOTE[qualified]))
                            elif ups[0][1] != wrap(t, val):
                                bad = bad or ('wrong-update', 'stores %d, expected the operand converted to the object type, %d (%s)' % (ups[0][1], wrap(t, val), sched))
                            elif res != ups[0][0]:
                                bad = bad or ('yields-other-value', 'yields (%s)%d, the object held %d right before the exchange (%s)' % (tname(rt), res, ups[0][0], sched))
            except (NotInSubset, Diverges) as x:
                rep.undecided('R16.8', key, 'macro outside the evaluated C subset: %s' % x, where=where); continue
            rep.ob('R16.8', key if not bad else key + ':' + bad[0], bad is None, '%s %s' % (mname, bad[1] if bad else ''), where=where)
    for mname in ('atomic_compare_exchange_strong', 'atomic_compare_exchange_weak'):
        if mname not in macros:
            continue
        try:
            e = parse('%s(P, E, N)' % mname)
        except NotInSubset as x:
            rep.undecided('R16.8', 'stdatomic.h:%s' % mname, 'macro outside the evaluated C subset: %s' % x, where=where); continue
        for cat, t, (qsuffix, qualified) in [(c_, t_, q_) for c_, t_ in CTYPES.items() for q_ in POINTEES]:
            key = 'stdatomic.h:%s:object/%s%s' % (mname, cat, qsuffix)
            bad = None
            try:
                cs = corners(t)
                for init, expv in ((cs[3], cs[3]), (cs[3], cs[4]), (cs[2], cs[2]), (cs[2], 0), (5, 5)):
                    for inj in ({}, {0: cs[4]}, {0: cs[3]}, {0: cs[2]}, {0: 0}, {1: cs[4]}, {0: cs[2], 1: cs[3]}):
                        exp = TCell(t, expv, 'expected')
                        res, obj, rt = run(e, t, init, CTYPES['int'], 0, inj, {'E': TCell(('ptr', t), exp, 'E'), 'N': TCell(CTYPES['int'], 42, 'N')}, qualified=qualified)
                        sched = 'a %s object holding %d, expected %d, other threads store %r' % (tname(t), wrap(t, init), wrap(t, expv), inj)
                        if obj.fault:
                            bad = bad or (obj.fault[0], '%s (%s)' % (obj.fault[1], sched))
                        elif res:
                            if [(u[0], u[1], u[2]) for u in obj.updates] != [(wrap(t, expv), 42, 'cas')] or exp.get() != wrap(t, expv):
                                bad = bad or ('success-without-one-indivisible-update', 'reports success with updates %r and expected = %d (%s)' % (obj.updates, exp.get(), sched))
                        elif obj.updates:
                            bad = bad or ('failure-with-update', 'reports failure but updated the object: %r (%s)' % (obj.updates, sched))
                        elif exp.get() == wrap(t, expv) or exp.get() not in obj.seen:
                            bad = bad or ('failure-does-not-hand-back-an-observed-value', 'reports failure and leaves %d in the expected-value object; the object held %r at its accesses (%s)' % (exp.get(), obj.seen, sched))
            except (NotInSubset, Diverges) as x:
                rep.undecided('R16.8', key, 'macro outside the evaluated C subset: %s' % x, where=where); continue
            rep.ob('R16.8', key if not bad else key + ':' + bad[0], bad is None, '%s %s' % (mname, bad[1] if bad else ''), where=where)



def r169(P, rep):
    """include/stdatomic.h: the atomic_* type names of C11 7.17.6. `_Atomic` on the type is the ONLY thing that routes op=, ++ and -- on an
    object to the compare-exchange loop (R16.1 decides the rewrite for lvalues whose type carries is_atomic, R16.6 that both spellings of
    the qualifier set it): a typedef without it declares objects whose compound assignments are plain load/modify/store. The base type must
    be the direct type C11 pairs the name with (size and signedness on x86-64 System V / glibc), else the indivisible instruction works
    on a different width than the program's other views of the object (uintptr_t, size_t ... values are truncated)."""
    from ..lib_minic import NotInSubset
    from ..lib_c16 import C11_ATOMIC_TYPEDEFS, header_decls, typedef_type
    rep.rule('R16.9', 'include/stdatomic.h defines every atomic_* type name of C11 7.17.6 as the _Atomic-qualified version of the direct type it is paired with (size, signedness; _Bool for atomic_bool), and no macro of the header redefines _Atomic, a type keyword or one of these names: the qualifier is what makes op=, ++ and -- on such objects indivisible', floor=37)
    where = 'include/stdatomic.h'
    try:
        decls, directives = header_decls(open(P.header('include/stdatomic.h')).read())
    except NotInSubset as e:
        rep.undecided('R16.9', 'stdatomic.h:typedefs', 'header not tokenizable: %s' % e, where=where); return
    cond = [(i, d) for i, d in enumerate(directives) if d[0] in ('if', 'ifdef', 'ifndef', 'elif', 'else', 'endif', 'include', 'include_next')]
    guard = (len(directives) >= 3 and directives[0][0] == 'ifndef' and directives[1][0] == 'define' and directives[1][1].split('(')[0].strip() == directives[0][1]
             and directives[-1][0] == 'endif')
    if not guard or [i for i, d in cond] != [0, len(directives) - 1]:
        rep.undecided('R16.9', 'stdatomic.h:typedefs', 'the header has conditional sections or includes besides its include guard (%s): which typedefs are active is not evaluated'
                      % ', '.join('#%s %s' % d for i, d in cond[:4]), where=where); return
    KEYWORDS = ('_Atomic', 'typedef', 'char', 'short', 'int', 'long', 'signed', 'unsigned', '_Bool', 'const', 'volatile')
    shadow = sorted({d[1].split('(')[0].split()[0] for d in directives if d[0] in ('define',) and d[1] and (d[1].split('(')[0].split() or [''])[0] in KEYWORDS + tuple(C11_ATOMIC_TYPEDEFS) + ('atomic_flag',)})
    rep.ob('R16.9', 'stdatomic.h:typedefs:no-macro-shadows-a-type-word' + (':' + shadow[0] if shadow else ''), not shadow,
           'the header #defines %s: the typedefs (or every later use of the name) no longer mean what their text says' % ', '.join(shadow), where=where)
    known = {}
    failed = {}
    defs = {}
    for d in decls:
        if d[0] != ('id', 'typedef'):
            continue
        name = d[-1][1] if d[-1][0] == 'id' else None
        if name is None or ('p', ',') in d:
            for t in d:
                if t[0] == 'id' and (t[1] in C11_ATOMIC_TYPEDEFS or t[1] == 'atomic_flag'):
                    failed[t[1]] = 'declarator form not handled'
            continue
        try:
            known[name] = typedef_type(d[1:-1], known)
            defs.setdefault(name, []).append(known[name])
        except NotInSubset as e:
            failed[name] = str(e)
            known.pop(name, None)
    for name, want in sorted(C11_ATOMIC_TYPEDEFS.items()):
        key = 'stdatomic.h:typedef/%s' % name
        if name in failed:
            rep.undecided('R16.9', key, 'typedef of %s not interpretable: %s' % (name, failed[name]), where=where); continue
        if name not in defs:
            rep.ob('R16.9', key + ':not-defined', False, '%s (C11 7.17.6) is not defined' % name, where=where); continue
        msg = tag = None
        for at, base in defs[name]:
            if not at:
                tag, msg = 'not-atomic', ('%s is defined without the _Atomic qualifier: `A op= B`, ++ and -- on an object of this type are compiled as a plain load, the operation and a plain store, '
                                          'so concurrent updates are lost (the generic functions still work, they use the builtins)' % name)
            elif base != want:
                tag, msg = 'wrong-base-type', '%s is the atomic version of a %s of %d byte(s) (%s); C11 7.17.6 pairs it with a %s of %d byte(s) (%s)' % (
                    name, base[0], base[1], 'unsigned' if base[2] else 'signed', want[0], want[1], 'unsigned' if want[2] else 'signed')
            if msg:
                break
        rep.ob('R16.9', key + (':' + tag if tag else ''), msg is None, msg or '', where=where)
    if 'atomic_flag' in failed:
        rep.undecided('R16.9', 'stdatomic.h:typedef/atomic_flag', 'typedef of atomic_flag not interpretable: %s' % failed['atomic_flag'], where=where)
    else:
        ok = 'atomic_flag' in defs and all(b[0] in ('int', 'bool') for a, b in defs['atomic_flag'])
        rep.ob('R16.9', 'stdatomic.h:typedef/atomic_flag' + ('' if ok else ':not-defined'), ok, 'atomic_flag (C11 7.17.8) is not defined as an integer/_Bool type the exchange builtin can operate on', where=where)



AGG_KINDS = (('struct', 'TY_STRUCT'), ('union', 'TY_UNION'))


def agg_admitted(T, kind, tyk, size):
    """does add_type let the builtin `kind` through on an _Atomic struct/union object of `size` bytes (True / False), None = not interpretable"""
    E = T.E
    fields = ('cas_addr', 'cas_old', 'cas_new') if kind == 'ND_CAS' else ('lhs', 'rhs')
    it = T.interp(opaque=['error_tok'], models=dict(COPY_MODELS))

    def mk(ctx):
        it.ctx = ctx
        st = Obj('Type', lazy=True, label='agg')
        st.fields.update({'kind': E[tyk], 'size': size, 'align': 1, 'is_unsigned': 0, 'base': 0, 'is_atomic': 1})
        n = Obj('Node', lazy=False, label='node'); n.fields['kind'] = E[kind]; n.fields['tok'] = Obj('Token', lazy=True, label='tok')
        for f in fields:
            c = Obj('Node', lazy=False, label=f); c.fields['kind'] = E['ND_VAR']; c.fields['tok'] = n.fields['tok']
            c.fields['ty'] = st if f in ('cas_new', 'rhs') else it.call_fn(*it.find_def('pointer_to'), [st])
            n.fields[f] = c
        return [n]
    try:
        res = it.explore('add_type', mk)
    except Exception:
        return None
    if not res:
        return None
    return any(o[0] == 'ret' for ctx, o in res)


def r1610(P, cg, rep):
    """struct / union objects. A struct or union expression is evaluated to the ADDRESS of the object (load() does nothing for them), while
    cmpxchg / xchg need the bytes of the object in a general register. For every aggregate size: either add_type rejects the builtin (no code
    is generated), or the emitted code satisfies the clauses of R16.3 / R16.4 with the operands read from memory: the comparand is the
    sizeof(object) bytes at *old, the value offered is the sizeof(object) bytes of the third operand, the failure path writes the observed
    bytes to *old; an exchange stores the bytes of its operand and yields an object that holds the bytes it fetched. Sizes that no single
    cmpxchg covers must be rejected."""
    rep.rule('R16.10', 'compare-and-swap / exchange on a struct or union object: rejected at compile time, or the instruction operates on the bytes of the objects (comparand = the bytes at *old, new value = the bytes of the operand, observed bytes written back on failure) - never on the addresses the aggregate operands are evaluated to; aggregate sizes other than 1, 2, 4, 8 bytes are rejected', floor=6)
    T = Types(P)
    where = '%s:%d' % (U, cg.cu.fn('gen_expr').line)
    twhere = 'type.c:%d' % T.tu.fn('add_type').line
    for kind in ('ND_CAS', 'ND_EXCH'):
        for aname, tyk in AGG_KINDS:
            for size in (3, 16):
                adm = agg_admitted(T, kind, tyk, size)
                key = 'type.c:add_type:%s/%s-of-unsupported-size' % (kind, aname)
                if adm is None:
                    rep.undecided('R16.10', key, 'add_type not interpretable on a %d-byte %s' % (size, aname), where=twhere)
                else:
                    rep.ob('R16.10', key + (':admitted' if adm else ''), not adm, '%s on a %d-byte %s is admitted: no lock cmpxchg / xchg covers exactly %d bytes, the instruction would operate on a different width than the object' % (kind, size, aname, size), where=twhere)
        bad = None
        undec = None
        nchecked = 0
        nrejected = 0
        for aname, tyk in AGG_KINDS:
            for size in (1, 2, 4, 8):
                adm = agg_admitted(T, kind, tyk, size)
                if adm is None:
                    undec = undec or 'add_type not interpretable on a %d-byte %s' % (size, aname); continue
                if not adm:
                    nrejected += 1; continue
                w = size * 8
                what = 'a %d-byte %s' % (size, aname)

                def mk(ctx, aname=aname, size=size, kind=kind):
                    n = cg.node('node', kind)
                    b = cg.tcell('obj', only=(aname,), agg_sizes=(size,))
                    if kind == 'ND_CAS':
                        n.fields['ty'] = cg.tcell('nty', only=('bool',))
                        n.fields['cas_addr'] = cg.node('cas_addr', ty=cg.ptr_to(b, 'pa'))
                        n.fields['cas_old'] = cg.node('cas_old', ty=cg.ptr_to(b, 'po'))
                        n.fields['cas_new'] = cg.node('cas_new', ty=b)
                    else:
                        n.fields['ty'] = b
                        n.fields['lhs'] = cg.node('lhs', ty=cg.ptr_to(b, 'pa'))
                        n.fields['rhs'] = cg.node('rhs', ty=b)
                    return n
                pack = run_paths(cg, 'gen_expr', mk)
                operands_once(rep, 'R16.17', '%s:gen_expr:%s/%s-of-%d-bytes' % (U, kind, aname, size), pack, ('cas_addr', 'cas_old', 'cas_new') if kind == 'ND_CAS' else ('lhs', 'rhs'), '%s on %s' % (kind, what), where)
                nstates = 0
                for ctx, tr, finals, cats, it in pack:
                    if isinstance(finals, Exception):
                        undec = undec or 'emitted code for %s not interpretable: %s' % (what, finals); continue
                    for st in finals:
                        nstates += 1
                        nchecked += 1
                        try:
                            r = agg_cas_state(st, w) if kind == 'ND_CAS' else agg_exch_state(st, w)
                        except Unknown as e:
                            undec = undec or 'emitted code for %s not interpretable: %s' % (what, e); continue
                        if r is not None and bad is None:
                            bad = (r[0], '%s on %s: %s' % (kind, what, r[1]), tr.text())
                if nstates == 0:
                    undec = undec or 'no returning path of gen_expr for %s on %s although add_type admits it' % (kind, what)
        key = '%s:gen_expr:%s/aggregate' % (U, kind)
        if bad:
            rep.ob('R16.10', key + ':' + bad[0], False, bad[1], where=where, facts={'trace': bad[2]})
        elif undec:
            rep.undecided('R16.10', key, undec, where=where)
        else:
            rep.ob('R16.10', key, True, '', where=where, facts={'states checked': nchecked, 'size/kind combinations rejected by add_type': nrejected})


def agg_cas_state(s, w):
    """None if the final state of a compare-and-swap on an aggregate satisfies R16.3 with memory operands, else (tag, message)"""
    A = ('addr', ('r', 'cas_addr', 64), 0)
    O = ('addr', ('r', 'cas_old', 64), 0)
    N = ('addr', ('r', 'cas_new', 64), 0)
    cx = [e for e in s.events if e[0] == 'cmpxchg']
    if len(cx) != 1:
        return 'cmpxchg-count', '%d cmpxchg instructions on a path, exactly one expected' % len(cx)
    _, locked, cw, addr, expected, new = cx[0]
    if not locked:
        return 'no-lock-prefix', 'cmpxchg is emitted without the lock prefix'
    if cw != w:
        return 'width', 'cmpxchg operates on %d bits but the object has %d' % (cw, w)
    if addr != A:
        return 'wrong-object', 'cmpxchg operates on %r, not on the object the first operand points to' % (addr,)
    if bitsof(w, expected) != ('mem', w, O):
        return 'comparand-is-not-the-bytes-at-old', ('the comparand in the accumulator is %r, expected the %d bits stored at *old: the second operand is a pointer to a struct/union and a load of such a type yields the address again, so the ADDRESS of the expected-value object is compared with the content of the atomic object - the exchange never succeeds and a retry loop around it never ends' % (bitsof(w, expected), w))
    if bitsof(w, new) != ('mem', w, N):
        return 'new-value-is-not-the-bytes-of-the-operand', 'the value offered to cmpxchg is %r, expected the %d bits of the third operand (it is evaluated to its address %r): an address would be stored into the object' % (bitsof(w, new), w, N)
    succeeded = None
    for c, truth in s.cond:
        if c[0] in ('cas_ok', 'cas_failed'):
            succeeded = truth if c[0] == 'cas_ok' else (not truth)
    res = canon(lo(32, s.reg['rax']))
    if res != canon(ext('zx', 8, 32, ('cas_ok', 1))):
        return 'result', 'the value of the expression is %r, expected the success flag' % (res,)
    stores = list(s.stores)
    if succeeded is None:
        return 'write-back-unconditional', 'the code does not branch on the outcome of cmpxchg'
    if succeeded and stores:
        return 'store-on-success', 'on success %d store(s) are performed: the expected-value object must stay untouched' % len(stores)
    if not succeeded and not (len(stores) == 1 and stores[0][0] == O and stores[0][1] == w and bitsof(w, resolve_cas(stores[0][2], False)) == ('observed', w, A, 1)):
        return 'failure-write-back', 'on failure the stores are %r; exactly the observed %d bits must be written to *old' % ([(a, ww) for a, ww, v, k in stores], w)
    return None


def agg_exch_state(s, w):
    A = ('addr', ('r', 'lhs', 64), 0)
    N = ('addr', ('r', 'rhs', 64), 0)
    xs = [e for e in s.events if e[0] == 'xchg']
    if len(xs) != 1:
        return 'xchg-count', '%d xchg instructions with a memory operand, one expected' % len(xs)
    _, addr, xw, new = xs[0]
    if addr != A:
        return 'wrong-object', 'xchg operates on %r, not on the object the first operand points to' % (addr,)
    if xw != w:
        return 'width', 'xchg moves %d bits, the object has %d' % (xw, w)
    # the expression has struct/union type: its value is the address of an object holding the fetched bytes
    res = canon(s.reg['rax'])
    if bitsof(w, res) == ('mem', w, A):
        return 'result-is-not-an-object-holding-the-old-bytes', ('the expression has struct/union type, so its consumers take %%rax as the ADDRESS of the value; %%rax holds the fetched bytes themselves (%r): they are dereferenced as an address' % (res,))
    if bitsof(w, new) != ('mem', w, N):
        return 'new-value-is-not-the-bytes-of-the-operand', ('xchg stores %r, expected the %d bits of the second operand (a struct/union operand is evaluated to its address %r): the address is stored into the object' % (bitsof(w, new), w, N))
    held = [st for st in s.stores if st[3] != 'xchg' and st[0] in (res, ('addr', res, 0))]
    if any(st[1] == w and bitsof(w, st[2]) == ('mem', w, A) for st in held):
        return None
    raise Unknown('result of an exchange on an aggregate: %%rax is %r, stores %r - not recognised as the address of an object holding the fetched bytes' % (res, [(x[0], x[1]) for x in s.stores]))
    return None


def r1612(cg, rep):
    """stores. `atomic_store(p, v)` of include/stdatomic.h and a plain assignment to an _Atomic object are the same ND_ASSIGN. Every
    read-modify-write of this property (the cmpxchg of R16.3, the xchg of R16.4, the retry loops built from them) is linearizable only against
    stores that put the whole new value into the object with ONE instruction: a store emitted as several narrower moves lets a concurrent
    compare-exchange or exchange observe - and hand back through the expected-value object, or install over - a mixture of two values that
    no thread ever stored. On x86-64 a naturally aligned mov of 1, 2, 4 or 8 bytes is indivisible. Decided per type class of the object
    (is_atomic set), for every size one instruction covers: exactly one store instruction into the object, of the object's width, carrying the
    value of the right operand (for struct/union operands, which are evaluated to their address: the sizeof(object) bytes there)."""
    rep.rule('R16.12', 'a store to an _Atomic object of 1, 2, 4 or 8 bytes (assignment / atomic_store; scalar, struct or union) is emitted as exactly one store instruction of the object width carrying the whole value - never as several narrower moves, which a concurrent compare-exchange, exchange or load observes half-done', floor=14)
    where = '%s:%d' % (U, cg.cu.fn('gen_expr').line)
    A = ('addr', ('r', 'lhs&', 64), 0)
    N = ('addr', ('r', 'rhs', 64), 0)

    def explore(cat, size, lkind):
        def mk(ctx):
            n = cg.node('node', 'ND_ASSIGN')
            b = cg.tcell('obj', only=(cat,), **({'agg_sizes': (size,)} if cat in ('struct', 'union') else {}))
            for c in b.cell.cands:
                if isinstance(c, Obj):
                    c.fields['is_atomic'] = 1
            n.fields['ty'] = b
            n.fields['lhs'] = cg.node('lhs', lkind, ty=b)
            n.fields['rhs'] = cg.node('rhs', ty=b)
            return n
        return run_paths(cg, 'gen_expr', mk)

    def judge(pack, w, want):
        """(tag, message, trace) of the first bad state | None; raises Unknown when not interpretable"""
        nstates = 0
        for ctx, tr, finals, cats, it in pack:
            if isinstance(finals, Exception):
                raise Unknown(str(finals))
            for st in finals:
                nstates += 1
                into = [x for x in st.stores if isinstance(x[0], tuple) and x[0][0] == 'addr' and x[0][1] == A[1]]
                if len(into) != 1:
                    widths = sorted({x[1] for x in into})
                    return ('store-in-several-instructions' if into else 'no-store'), ('%d store instructions (of %s bits) are emitted into the %d-bit object: another thread\'s compare-exchange / exchange / load between two of them sees a value that was never stored'
                                                                                     % (len(into), '/'.join(map(str, widths)) or '-', w)), tr.text()
                a, sw, v, k = into[0]
                if a != A or sw != w:
                    return 'store-width', 'the store writes %d bits at %r; the object has %d bits at %r' % (sw, a, w, A), tr.text()
                if bitsof(w, v) != want:
                    return 'stored-value', 'the single store writes %r, expected the value of the right operand %r' % (bitsof(w, v), want), tr.text()
        if nstates == 0:
            raise Unknown('no returning path of gen_expr')
        return None
    LK = ('ND_VAR', 'ND_DEREF')        # `x = v` and `*p = v` (what atomic_store expands to)

    def first_bad(cat, size, want):
        for lkind in LK:
            bad = judge(explore(cat, size, lkind), size * 8, want)
            if bad:
                return bad[0], '%s [lvalue kind %s]' % (bad[1], lkind), bad[2]
        return None
    for cat, size in SIZES:
        w = size * 8
        key = '%s:gen_expr:ND_ASSIGN/atomic-%s' % (U, cat)
        try:
            bad = first_bad(cat, size, value_bits('rhs', cat, w))
        except Unknown as e:
            rep.undecided('R16.12', key, 'emitted code not interpretable: %s' % e, where=where); continue
        rep.ob('R16.12', key + (':' + bad[0] if bad else ''), bad is None, 'assignment to an _Atomic %s: %s' % (cat, bad[1] if bad else ''), where=where, facts={'trace': bad[2]} if bad else {})
    for aname, tyk in AGG_KINDS:
        key = '%s:gen_expr:ND_ASSIGN/atomic-%s' % (U, aname)
        bads = []
        undec = None
        for size in (1, 2, 4, 8):
            try:
                bad = first_bad(aname, size, ('mem', size * 8, N))
            except Unknown as e:
                undec = undec or 'emitted code for a %d-byte %s not interpretable: %s' % (size, aname, e); continue
            if bad:
                bads.append((size, bad))
        if bads:
            tag = bads[0][1][0]
            rep.ob('R16.12', key + ':' + tag, False, 'assignment / atomic_store to an _Atomic %s of %s bytes; for %d bytes: %s' % (aname, ', '.join(str(sz) for sz, b_ in bads if b_[0] == tag), bads[-1][0], bads[-1][1][1]), where=where, facts={'trace': bads[-1][1][2]})
        elif undec:
            rep.undecided('R16.12', key, undec, where=where)
        else:
            rep.ob('R16.12', key, True, '', where=where)


def r166(P, rep):
    rep.rule('R16.6', '_Atomic is recorded on a private copy of the type, never on the shared type objects; CAS/exchange operands are converted to the type of the atomic object', floor=25)
    pu = P.unit('parse.c')
    fn = pu.fn('declspec')
    if fn is None:
        raise AnalysisBroken('parse.c: declspec vanished')
    n = 0
    for a in fn.walk():
        if a.kind == 'BinaryOperator' and a.opcode == '=' and a.inner[0].strip().kind == 'MemberExpr' and a.inner[0].strip().name == 'is_atomic':
            n += 1
            base = a.inner[0].strip().inner[0].src()
            blk = a.enclosing('CompoundStmt')
            ok = False
            for st in blk.inner:
                if st is a or any(x is a for x in st.walk()):
                    break
                if st.kind == 'BinaryOperator' and st.opcode == '=' and st.inner[0].src() == base and st.inner[1].strip().kind == 'CallExpr' and st.inner[1].strip().callee() == 'copy_type':
                    ok = True
                if st.kind == 'DeclStmt':       # `Type *q = copy_type(ty); q->is_atomic = ...`
                    for v in st.inner:
                        if v.kind == 'VarDecl' and v.name == base and v.inner and v.inner[-1].strip().kind == 'CallExpr' and v.inner[-1].strip().callee() == 'copy_type':
                            ok = True
            rep.ob('R16.6', 'parse.c:declspec:is_atomic-set-on-a-copy', ok, '`%s->is_atomic` is set without `%s = copy_type(%s)` before it in the same block: the shared ty_int/... object would become atomic for every later declaration' % (base, base, base), where='parse.c:%d' % a.line)
    if n == 0:
        rep.undecided('R16.6', 'parse.c:declspec', 'no assignment to is_atomic found')
    # operand conversion in add_type
    T = Types(P)
    E = T.E
    for kind, fields, obj_field, val_field in (('ND_CAS', {'cas_addr': 'plong', 'cas_old': 'plong', 'cas_new': 'int'}, 'cas_addr', 'cas_new'),
                                               ('ND_EXCH', {'lhs': 'plong', 'rhs': 'int'}, 'lhs', 'rhs')):
        it = T.interp(opaque=['error_tok'], models=dict(COPY_MODELS))
        box = {}

        def mk(ctx, kind=kind, fields=fields):
            it.ctx = ctx
            n = Obj('Node', lazy=False, label='node'); n.fields['kind'] = E[kind]; n.fields['tok'] = Obj('Token', lazy=True, label='tok')
            for f, tn in fields.items():
                c = Obj('Node', lazy=False, label=f); c.fields['kind'] = E['ND_VAR']; c.fields['tok'] = n.fields['tok']
                c.fields['ty'] = it.call_fn(*it.find_def('pointer_to'), [T.make(it, 'long')]) if tn == 'plong' else T.make(it, tn)
                n.fields[f] = c
            box['n'] = n
            return [n]
        outs = [o for ctx, o in it.explore('add_type', mk) if o[0] == 'ret']
        if len(outs) != 1:
            rep.undecided('R16.6', 'type.c:add_type:%s' % kind, 'no single returning path'); continue
        v = box['n'].fields.get(val_field)
        vt = T.classify(it, v.fields.get('ty')) if isinstance(v, Obj) else None
        conv = isinstance(v, Obj) and v.fields.get('kind') == E['ND_CAST'] and vt == 'long'
        rep.ob('R16.6', 'type.c:add_type:%s:value-converted-to-object-type%s' % (kind, '' if conv else ':unconverted'), conv,
               'the value operand of %s (an int) reaches the instruction with type %s: it is not converted to the type of the atomic object (long), so the upper half of the register is whatever the int computation left there' % (kind, vt), where='type.c:%d' % T.tu.fn('add_type').line)


def run(P, rep, tier):
    cg = wrap(CG(P))
    rep.explanation = ('Decides that every read-modify-write on an atomic lvalue is lowered to the compare-exchange retry loop (interpretation of to_assign on concrete trees for 3 lvalue shapes x 7 types), '
                       'that the loop has the one shape that is correct, and that the CAS/XCHG primitives are emitted in the one form that is indivisible on x86-64 (term machine over the emitted templates, 12 object types), '
                       'plus the header mapping: the macros of include/stdatomic.h are evaluated under interference schedules, untyped on a 64-bit object (R16.5) and with C types on objects of every integer width and signedness, where the compare-exchange builtin refreshes exactly sizeof(object) bytes of the expected-value object (R16.8). '
                       'float/double atomic objects are covered by R16.1 (rewrite) and R16.3/R16.4 (bit patterns moved between %xmm0 and the general register the instruction uses). '
                       'R16.8 evaluates every macro twice: with the object designated through a pointer to the _Atomic-qualified type (op= on *(obj) is then the indivisible rewrite of R16.1) and through a pointer to the unqualified type (op= is a plain load/modify/store there; only the builtins are indivisible). '
                       'R16.9: every atomic_* typedef of C11 7.17.6 carries _Atomic on the paired direct type. R16.10: struct/union objects are either rejected by add_type or the instruction works on the bytes of the operands, not on the addresses aggregates are evaluated to. R16.12: a store to an atomic object of 1/2/4/8 bytes (scalar, struct, union) is one store instruction of the object width. R16.11: the qualifier survives type derivation - the type constructors, add_type on every lvalue shape, typeof / typedef names / pointer declarators (declspec and declarator interpreted on token sequences with an atomic type in scope), and no assignment clears is_atomic. R16.13/R16.15: the trees unary()/postfix()/to_assign() build for ++, -- and op= on an atomic object of every scalar type are run by a reference evaluator of the node language in which another thread overwrites the object before any access of this thread (finite set of schedules x boundary values): exactly one successful compare-exchange writes the object, it installs conv_T(h op k) for the value h it replaced, postfix forms yield h itself, the others the installed value, and the loop ends with the interference. R16.14: the bytes a bit-field store rewrites (layout of struct_decl on a catalogue of member sequences x store width of gen_expr) contain no byte of another memory location (C11 3.14) - a plain read-modify-write of a unit that also holds an _Atomic member undoes the indivisible updates of that member. R16.17: each operand node of ND_CAS / ND_EXCH is evaluated exactly once in the emitted code of every path. R16.16: the macros of include/stdatomic.h evaluate every operand exactly once per invocation (calls as arguments, counted by the mini evaluator over the interference schedules, so that retry loops run 0..4 times). Linearizability under arbitrary interleavings is a property of schedules and is decided only for the finite schedule set of R16.13/R16.15.')
    rep.assumptions += ['x86-64: `lock cmpxchg` and `xchg` with a memory operand are indivisible (Intel SDM vol. 3 ch. 8)', 'children satisfy the register convention (induction)']
    r163(cg, rep)
    r1610(P, cg, rep)
    r1612(cg, rep)
    r161(P, rep)
    r165(P, rep)
    r165_hygiene(P, rep)
    r165_typed(P, rep)
    r166(P, rep)
    r166_forms(P, rep)
    r169(P, rep)
    from ..lib_c16_qual import r1611
    r1611(P, rep)
    from ..lib_types import r_atomic_builtin_operands
    rep.rule('R16.7', 'add_type converts the value operand of the exchange / compare-and-swap builtins to the type of the atomic object for every arithmetic operand type and gives the exchange the object\'s type: the value the indivisible instruction stores is the converted operand (a floating operand left unconverted is never moved into the register the instruction uses)', floor=200)
    r_atomic_builtin_operands(P, rep, 'R16.7')
    r1613(P, rep, tier)
    r1614(P, cg, rep)
    r1616(P, rep)


def r1616(P, rep):
    from ..lib_c16_once import r_operands_once
    rep.rule('R16.16', 'every generic function of include/stdatomic.h evaluates each of its operands exactly once per invocation (C11 7.1.4p1), whatever the number of retries of its compare-exchange loop: the expansion is run with counting calls as arguments on a shared object under interference schedules; operands of typeof / sizeof do not count; memory_order operands and the operand of atomic_is_lock_free at most once. An object operand evaluated again for the exchange (or per retry) makes the accesses of one operation go to different objects', floor=40)
    r_operands_once(P, rep, 'R16.16')


def r1614(P, cg, rep):
    from ..lib_c16_bf import r_bitfield_store_unit
    rep.rule('R16.14', 'a store to a bit-field rewrites only bytes of its own memory location (C11 3.14: a maximal run of adjacent non-zero-width bit-fields): the bytes [offset, offset + width of the store instruction gen_expr emits for the declared type) of the plain load/merge/store contain no byte of another member - in particular of an _Atomic member, whose indivisible updates the store would undo; decided on the offsets struct_decl assigns to a catalogue of member sequences (bit-field before / after / between narrower and wider members, packed, zero-width separators)', floor=12)
    r_bitfield_store_unit(P, cg, rep, 'R16.14')


def r1613(P, rep, tier='quick'):
    from ..lib_c16_incdec import r_incdec_atomic
    rep.rule('R16.13', 'the trees unary() / postfix() build for ++ and -- on an _Atomic object (variable, dereference, member; _Bool, every integer type, enum, pointer, float, double), run by a reference evaluator in which another thread overwrites the object between any two accesses of this thread: the object is written only by exactly one successful compare-exchange, which replaces the value h it finds by conv_T(h +/- 1); the postfix expression yields h itself (never a value recomputed from the new one: the conversion to _Bool and floating rounding cannot be undone), the prefix expression the installed value; the retry loop ends when the interference does', floor=120)
    r_incdec_atomic(P, rep, 'R16.13', tier)
    from ..lib_c16_incdec import r_compound_atomic
    rep.rule('R16.15', 'the tree to_assign() builds for `A op= B` (all ten operators) on an _Atomic object of every scalar type, run by the same reference evaluator under interference: the object is written only by exactly one successful compare-exchange, which replaces the value h it finds by conv_T((C)h op (C)b), C the common type (pointer: h +/- b elements), and the expression yields exactly that installed value; the retry loop ends when the interference does', floor=90)
    r_compound_atomic(P, rep, 'R16.15', tier)


def r_atomic_operand_type(P, rep, rule):
    """for C01/C02: in the atomic rewrite of `A op= B` the operand B is kept at its own type, so the operation happens in the common type"""
    from ..report import Report
    sub = Report('C16')
    r161(P, sub)
    n = 0
    for o in sub.obs:
        if o['key'].endswith(':temporary-types'):
            n += 1
            if o['verdict'] == 'undecided':
                rep.undecided(rule, 'parse.c:to_assign:atomic-operand-keeps-its-type', o['what'], where=o['where'])
            else:
                rep.ob(rule, 'parse.c:to_assign:atomic-operand-keeps-its-type', o['verdict'] == 'holds', o['what'], where=o['where'])
    if n == 0:
        rep.undecided(rule, 'parse.c:to_assign:atomic-operand-keeps-its-type', 'the compare-exchange rewrite of to_assign was not recognised (see C16 R16.2)')


def r166_forms(P, rep):
    """both spellings of the atomic type: `_Atomic T` (qualifier, any position) and `_Atomic(T)` (specifier) must yield a type that
    carries is_atomic - it is the only thing that routes op=, ++ and -- to the compare-exchange loop (R16.1) - on a private copy, leaving the
    shared type object untouched. declspec is interpreted on concrete token sequences (machinery of C08 R08.1)."""
    from ..interp import _Ref, _ValPlace
    from . import c08
    u = P.unit('parse.c')
    if 'declspec' not in u.functions:
        raise AnalysisBroken('parse.c: declspec vanished')
    where = 'parse.c:%d' % u.fn('declspec').line
    tw = c08.TokenWorld(P, u)
    tyglob = c08.type_globals(P)
    cfg = {'models': dict(tw.models(), **COPY_MODELS), 'globals': {g: (lambda ctx, g=g: Obj('Type', lazy=False, label=g, fields=dict(tyglob[g]))) for g in tyglob}}
    it = c08._LocalEnumInterp(P, u, cfg)
    it.local_enums = c08._local_enums(u.fn('declspec'))
    bases = {'char': ('char',), 'short': ('short',), 'int': ('int',), 'long': ('long',), 'unsigned': ('unsigned',), 'unsigned long': ('unsigned', 'long'), '_Bool': ('_Bool',)}
    for bname, words in bases.items():
        forms = {'qualifier-first': ('_Atomic',) + words, 'qualifier-last': words + ('_Atomic',), 'specifier': ('_Atomic', '(') + words + (')',)}
        plain = None
        for fname, seq in [('plain', words)] + list(forms.items()):
            key = 'parse.c:declspec:atomic-%s/%s' % (fname, bname.replace(' ', '-'))
            rest = _ValPlace(0)
            try:
                paths = it.explore('declspec', lambda ctx: [_Ref(rest), tw.tokens(seq), Obj('VarAttr', lazy=False)], max_paths=50)
            except Exception as e:
                rep.undecided('R16.6', key, 'declspec not interpretable on `%s`: %s' % (' '.join(seq), e), where=where); continue
            if len(paths) != 1 or paths[0][1][0] != 'ret' or not isinstance(paths[0][1][1], Obj):
                rep.undecided('R16.6', key, 'declspec on `%s`: %d paths / no type returned' % (' '.join(seq), len(paths)), where=where); continue
            ctx, out = paths[0]
            t = out[1]
            shared = [g for g, o in ctx.globals.items() if o is t]
            if fname == 'plain':
                plain = (t.fields.get('kind'), t.fields.get('size'), t.fields.get('is_unsigned', 0))
                rep.ob('R16.6', key, not t.fields.get('is_atomic'), '`%s` without _Atomic yields an atomic type' % ' '.join(seq), where=where)
                continue
            msgs = []
            if not t.fields.get('is_atomic'):
                msgs.append('the type of `%s` does not carry is_atomic: op=, ++ and -- on such an object are compiled as plain load/modify/store and lose concurrent updates' % ' '.join(seq))
            if shared:
                msgs.append('is_atomic is set on the shared type object %s: every later object of that type becomes atomic' % shared[0])
            polluted = [g for g, o in ctx.globals.items() if isinstance(o, Obj) and o.tname == 'Type' and o.fields.get('is_atomic') and o is not t]
            if polluted:
                msgs.append('shared type object(s) %s are marked atomic as a side effect' % polluted)
            if plain is not None and (t.fields.get('kind'), t.fields.get('size'), t.fields.get('is_unsigned', 0)) != plain:
                msgs.append('the atomic type differs from `%s` in kind/size/signedness' % ' '.join(words))
            rep.ob('R16.6', key, not msgs, '; '.join(msgs), where=where)
