"""C17 Name tables behave as dictionaries under any history (DESIGN.md §3 C17)."""
from ..interp import Interp, Obj, Sym, View, Term, is_opaque, vkey
from ..build import AnalysisBroken
from .. import lib_c17 as L

U = 'hashmap.c'
TOMB = -1


def _key_state(it, ctx, ent):
    """what this path knows about the original key of entry object ent:
    'null' | 'tomb' | 'live' (neither) | 'unknown'"""
    k = ent.meta.get('orig_key')
    if k is None:
        # a freshly calloc'ed (non-lazy) entry has a NULL key
        return 'null' if not ent.lazy else 'unknown'
    kk = k.key()
    b = ctx.bounds.get(kk)
    if b and b[0] == b[1] == 0:
        return 'null'
    if b and b[0] == b[1] == TOMB:
        return 'tomb'
    ne = ctx.neq.get(kk, ())
    if 0 in ne and TOMB in ne:
        return 'live'
    if 0 in ne:
        return 'nonnull'
    return 'unknown'


def _lazy_field(it, ctx, o, f, t):
    # remember the symbol standing for the original key of every entry
    if o.tname == 'HashEntry' and f == 'key':
        s = Sym((o.label or 'ent') + '.key', t)
        o.meta['orig_key'] = s
        return s
    return NotImplemented


def _entries(ctx):
    """entries examined on this path, in order of first examination (match call or key read)"""
    seen = []
    for e in ctx.events:
        if e[0] == 'call' and e[1] == 'match' and isinstance(e[2][0], Obj) and e[2][0] not in seen:
            seen.append(e[2][0])
    return seen


def _all_entries(ctx):
    """every HashEntry object the path has touched"""
    seen = []
    def add(o):
        if isinstance(o, Obj) and o not in seen:
            seen.append(o)
            for k, v in o.meta.items():
                if isinstance(k, tuple) and k and k[0] == 'elem':
                    add(v)
    for e in ctx.events:
        if e[0] == 'slot':
            add(e[1])
    return seen


def _match_result(it, ctx, ent):
    """result of the (last) match() call on ent along this path: 0, 1 or None"""
    r = None
    for e in ctx.events:
        if e[0] == 'call' and e[1] == 'match' and e[2][0] is ent:
            v = it.settle(e[4])
            r = v if isinstance(v, int) else None
    return r


def run(P, rep, tier):
    u = P.unit(U)
    for f in ('get_entry', 'get_or_insert_entry', 'rehash', 'match', 'hashmap_put2', 'hashmap_get2', 'hashmap_delete2'):
        if f not in u.functions:
            raise AnalysisBroken('anchor function %s vanished from %s' % (f, U))
    rep.explanation = ('Typestate/dominance facts over hashmap.c obtained by path-sensitive abstract interpretation of each '
                       'table function on an abstract table (lazy HashMap/HashEntry objects, up to three generic probe iterations; every bucket subscript is judged against the capacity at the access), '
                       'plus who-may-call facts for the macro table over all units, plus parse_args interpreted on command lines whose -D/-U word is known only up to its spelling class '
                       '(all other characters symbolic). Decides the premises of the textbook '
                       'open-addressing argument (claim only after absence, lookups pass tombstones, delete writes the sentinel, '
                       'used accounting, watermarks, last write wins); does not run any history. Round 6 adds the layers around the tables: the operations the macro table sees are '
                       'the #define/#undef lines of the source (R17.12: flags of the token after an empty expansion, replacement results are not directives, dispatcher arms, '
                       'read_macro_definition - C09 rules re-issued plus the arms explored on `# define M` / `# undef M`), an #include answered from a memo table suppresses no directive '
                       '(R17.13: C10 R10.3 and the guard recogniser re-issued), and the parser\'s identifier/tag tables are per-scope dictionaries (R17.14: def-use facts over parse.c - '
                       'which scope a table expression denotes, which locals hold the answer of a chain walk, stores through them - plus C03 R03.5 re-issued). Round 7: the key a writer of a memo table passes is the string its reader looks up '
                       '(R17.15: def-use origins of every key of a static table not keyed by token spelling; a record field carries the reader\'s key only if every store to it in the program stores that key - File.name does, File.display_name is rewritten by #line), '
                       'and every string that reaches the key of an insertion into the macro table is an identifier literal or the spelling of a token tested to be TK_IDENT (R17.16). '
                       'Round 9: a key function of a memo table derives the identity of the file open() reads - symlink-following query on its own parameter, record read only after success, (st_dev, st_ino) complete, full width, separated (R17.19); '
                       'a declaration is a write to the current scope\'s dictionary on EVERY path of the declaring function - structured must-analysis from each declarator() to the return / next declarator / scope change, excused only by '
                       '"lookup hit and the current scope has no enclosing scope" (R17.20); the macro name of #define/#undef/#ifdef/#ifndef is a token of the directive\'s own line (R17.21: dispatcher explored on a directive name followed by a newline). Round 10: a function that seeds the tables of a scope record from another record copies every table member (derived from the record: all members of the table type), like into like, under the same conditions, before anything is entered into the destination scope (R17.22).')
    rep.assumptions += ['calloc succeeds', 'probe loops are analysed for 0..3 generic iterations; the facts checked are per-iteration facts',
                        'command-line words other than the -D/-U option word are arbitrary strings; the word after a detached -D/-U exists (the pre-scan of parse_args rejects the line otherwise)',
                        'fnv_hash is a pure function of the key bytes',
                        'R17.15: the token at a directive belongs to the File of the text being read (Token.file is not followed); a parameter that receives the looked-up key at one call site names "the path a file is opened under" at all of them']
    r171(P, u, rep)
    r172(P, u, rep)
    r173(P, u, rep)
    r175(P, u, rep)
    r176(P, u, rep)
    r177(P, rep)
    r179(P, rep)
    r1711(P, rep)
    r1712(P, rep)
    r1713(P, rep)
    r1714(P, rep)
    r1715(P, rep)
    r1716(P, rep)
    r1717(P, rep)
    r1718(P, rep)
    r1719(P, rep)
    r1720(P, rep)
    r1721(P, rep)
    r1722(P, rep)

# ------------------------------------------------------------------ R17.17: a name is found under exactly its spelling ---
_BYTE_CMP = ('strncmp', 'memcmp')
_LIBC_PURE = ('strlen', 'strncmp', 'memcmp', 'strcmp', 'strncasecmp')


def _once_defs(fd):
    """decl id -> the single defining expression of a local that is defined exactly once (initialiser or one assignment), for looking through
    `int n = tok->len;` style temporaries"""
    defs = {}
    for n in fd.walk():
        if n.kind == 'VarDecl':
            init = [x for x in n.inner if x.kind not in ('FullComment',) and not x.kind.endswith('Attr')]
            defs.setdefault(n.id, [])
            if init:
                defs[n.id].append(init[-1])
        elif n.kind == 'BinaryOperator' and n.opcode == '=':
            l = n.inner[0].strip()
            if l.kind == 'DeclRefExpr' and l.ref_kind in ('VarDecl', 'ParmVarDecl'):
                defs.setdefault(l.ref_id, []).append(n.inner[1])
        elif n.kind == 'CompoundAssignOperator' or (n.kind == 'UnaryOperator' and n.opcode in ('++', '--', '&')):
            l = n.inner[0].strip()
            if l.kind == 'DeclRefExpr' and l.ref_kind in ('VarDecl', 'ParmVarDecl'):
                defs.setdefault(l.ref_id, []).append(None)
    return {k: v[0] for k, v in defs.items() if len(v) == 1 and v[0] is not None}


def _thru(e, once, depth=0):
    """the expression with once-defined plain locals replaced by their definition"""
    n = e.strip_all()
    while depth < 4 and n.kind == 'DeclRefExpr' and n.ref_kind == 'VarDecl' and n.ref_id in once:
        n = once[n.ref_id].strip_all()
        depth += 1
    return n


def _base_src(n):
    return n.inner[0].strip_all().src() if n.kind == 'MemberExpr' and n.inner else None


def _made_from_param(fd, e, pnames, depth=0):
    """the value of `e` is computed from a parameter of fd and nothing else that varies: e is the parameter, or a local all of whose definitions
    mention (through further such locals) a parameter, literals and calls only"""
    n = e.strip_all()
    if n.kind != 'DeclRefExpr':
        return False
    if n.ref_kind == 'ParmVarDecl':
        return n.ref_name in pnames
    if n.ref_kind != 'VarDecl' or depth > 6:
        return False
    defs = []
    for x in fd.walk():
        if x.kind == 'VarDecl' and x.id == n.ref_id:
            defs += [y for y in x.inner if y.kind not in ('FullComment',) and not y.kind.endswith('Attr')][-1:]
        elif x.kind == 'BinaryOperator' and x.opcode == '=' and x.inner[0].strip().kind == 'DeclRefExpr' and x.inner[0].strip().ref_id == n.ref_id:
            defs.append(x.inner[1])
    if not defs:
        return False
    for d in defs:
        refs = [r for r in d.walk() if r.kind == 'DeclRefExpr' and r.ref_kind in ('VarDecl', 'ParmVarDecl')]
        if not refs or not all(_made_from_param(fd, r, pnames, depth + 1) for r in refs):
            return False
    return True


def _has_length_sibling(u, m):
    """m is a field of a record that also keeps a length (`loc`/`len`, `key`/`keylen`)"""
    from ..lib_c17_memo import _rec_name
    rec = _rec_name(m.inner[0].type if m.inner else '')
    return any(f != m.name and 'len' in f for (f, t, bf) in u.records.get(rec, ()))


def _nm(n, dflt):
    return (n.name if n.kind == 'MemberExpr' else n.ref_name if n.kind == 'DeclRefExpr' else None) or dflt


def _cond_context(call):
    """the conditions that decide, together with the comparison, whether the entry is taken: the whole condition expression the call stands in, the
    conditions of the enclosing if statements, and the conditions of the if statements that precede it in the enclosing blocks of the same function and jump
    away (continue/break/return/goto)"""
    out = []
    top = call
    while top.parent is not None and top.parent.kind in ('ParenExpr', 'ImplicitCastExpr', 'UnaryOperator', 'BinaryOperator', 'ConditionalOperator', 'CStyleCastExpr'):
        top = top.parent
    out.append(top)
    prev = call
    for a in call.ancestors():
        if a.kind == 'FunctionDecl':
            break
        if a.kind == 'IfStmt' and a.inner and prev is not a.inner[0]:
            out.append(a.inner[0])
        if a.kind == 'CompoundStmt':
            for sib in a.inner:
                if sib is prev:
                    break
                if sib.kind == 'IfStmt' and len(sib.inner) >= 2 and any(x.kind in ('ContinueStmt', 'BreakStmt', 'ReturnStmt', 'GotoStmt') for x in sib.inner[1].walk()):
                    out.append(sib.inner[0])
        prev = a
    return out


def _length_evidence(conds, stored, nlen, once):
    """does one of the conditions compare the length of the stored name with the compared length `nlen`?  forms: nlen ==/!= strlen(stored);
    nlen ==/!= <sibling field of stored> (a record that keeps (pointer, length)); stored[nlen] tested against 0.  Returns 'yes', 'no', or 'helper' (a
    call of a program function over these operands stands in the condition: the test may be in there)"""
    ssrc, nsrc = stored.src(), nlen.src()
    sbase = _base_src(stored)
    helper = False
    for c in conds:
        for b in c.walk():
            if b.kind == 'BinaryOperator' and b.opcode in ('==', '!='):
                l, r = _thru(b.inner[0], once), _thru(b.inner[1], once)
                for x, y in ((l, r), (r, l)):
                    if x.src() != nsrc:
                        continue
                    if y.kind == 'CallExpr' and y.callee() == 'strlen' and y.args() and _thru(y.args()[0], once).src() == ssrc:
                        return 'yes'
                    if y.kind == 'MemberExpr' and sbase is not None and _base_src(y) == sbase and y.name != stored.name:
                        return 'yes'
            if b.kind == 'ArraySubscriptExpr' and len(b.inner) == 2:
                if _thru(b.inner[0], once).src() == ssrc and _thru(b.inner[1], once).src() == nsrc:
                    return 'yes'
            if b.kind == 'CallExpr' and b.callee() not in _LIBC_PURE and b.callee() is not None:
                txt = ' '.join(_thru(a, once).src() for a in b.args())
                if ssrc in txt or nsrc in txt or (sbase and sbase in txt):
                    helper = True
    return 'helper' if helper else 'no'


def r1717(P, rep):
    """a name table answers for exactly the name asked: wherever the bytes of a key given as (pointer, length) - a token's spelling `tok->loc, tok->len`, a
    `(char *s, int len)` parameter pair - are compared with a stored name over the KEY's length, the comparison only shows that the stored name BEGINS with
    the key; the entry may be taken only if the same decision also establishes that the stored name has that length.  (i) C09's concrete evaluation of
    find_arg on parameter lists with prefix-related names, re-issued: the argument list of a macro invocation is a name table of this property; (ii) the
    structural fact at every such comparison in the program; (iii) a length-taking table operation is given the length that belongs to its key bytes"""
    from ..report import Report, reissue
    rep.rule('R17.17', 'a name is found only under exactly its spelling: the lookup of a macro parameter in the argument list of an invocation answers the parameter of that very name for lists with '
                       'prefix-related names (C09 R09.3 find_arg re-issued); every strncmp/memcmp of a (pointer, length) key against a stored name over the key\'s length is decided together with a test '
                       'that the stored name has that length (strlen, the stored length field, or the terminator at that offset); every hashmap_get2/put2/delete2 gets the length that belongs to its key bytes', floor=12)
    u = P.unit('preprocess.c')
    sub = Report('C09')
    sub.rule('R09.3', '', 1)

    def go():
        from . import c09
        c09.r_arg_lookup(P, u, sub)
        return True
    _borrow(rep, 'R17.17', 'preprocess.c:find_arg', go)
    n = reissue(rep, 'R17.17', sub, 'a body identifier would be replaced by the argument of another parameter (the argument list is not an exact-match name table): ',
                keep=lambda o: ':find_arg:' in o['key'])
    if not n:
        rep.undecided('R17.17', 'preprocess.c:find_arg:lookup', 'the parameter lookup of a macro invocation (find_arg) could not be evaluated')
    ncmp = npair = 0
    for un in P.unit_names:
        uu = P.unit(un)
        for fname, fd in uu.functions.items():
            if un == 'hashmap.c' and fname == 'hashmap_test':
                continue
            once = None
            for c in fd.calls(_BYTE_CMP + ('hashmap_get2', 'hashmap_put2', 'hashmap_delete2')):
                a = c.args()
                if len(a) < 3:
                    continue
                if once is None:
                    once = _once_defs(fd)
                where = '%s:%d' % (un, c.line)
                if c.callee() not in _BYTE_CMP:
                    # (iii) the key bytes and the length come from the same (pointer, length) record
                    k, ln = _thru(a[1], once), _thru(a[2], once)
                    if k.kind != 'MemberExpr':
                        continue
                    npair += 1
                    ok = ln.kind == 'MemberExpr' and _base_src(ln) == _base_src(k) and ln.name != k.name
                    rep.ob('R17.17', '%s:%s:%s-length-belongs-to-key/%s' % (un, fname, c.callee(), k.name), ok,
                           '%s is given the bytes `%s` with the length `%s`, which is not the length stored beside those bytes: the name is looked up/entered under a longer or shorter spelling than the one written' % (c.callee(), k.src(), ln.src()),
                           where=where)
                    continue
                A, B, N = _thru(a[0], once), _thru(a[1], once), _thru(a[2], once)
                key = stored = None
                if N.kind == 'MemberExpr':
                    nb = _base_src(N)
                    for x, y in ((A, B), (B, A)):
                        if x.kind == 'MemberExpr' and _base_src(x) == nb and x.name != N.name:
                            key, stored = x, y
                            break
                elif N.kind == 'DeclRefExpr' and N.ref_kind == 'ParmVarDecl':
                    pa = [x for x in (A, B) if x.kind == 'DeclRefExpr' and x.ref_kind == 'ParmVarDecl']
                    if len(pa) == 1:
                        key = pa[0]
                        stored = B if key is A else A
                elif N.kind == 'CallExpr' and N.callee() == 'strlen' and N.args():
                    # the length of one operand, while the other is the pointer of a (pointer, length) record (token text): the record's own length must be compared with it
                    xs = _thru(N.args()[0], once).src()
                    for x, y in ((A, B), (B, A)):
                        if y.src() == xs and x.kind == 'MemberExpr' and _has_length_sibling(uu, x):
                            key, stored = y, x
                            break
                if key is None:
                    continue        # a fixed-length or prefix comparison (literal length, strlen of an operand): not a lookup by (pointer, length)
                ncmp += 1
                ev = _length_evidence(_cond_context(c), stored, N, once)
                kname = '%s-vs-%s' % (_nm(key, 'key'), _nm(stored, 'name'))
                if ev == 'helper':
                    rep.undecided('R17.17', '%s:%s:length-test/%s' % (un, fname, kname), 'the %s of `%s` with `%s` over `%s` bytes stands beside a helper call; the analysis cannot tell whether the helper compares the lengths' % (c.callee(), key.src(), stored.src(), N.src()), where=where)
                    continue
                rep.ob('R17.17', '%s:%s:%s' % (un, fname, ('exact-length-tested/%s' if ev == 'yes' else 'prefix-match/%s') % kname), ev == 'yes',
                       '%s(%s, %s, %s) compares only the first `%s` bytes - the length of ONE of the two names - and no condition that decides the match tests that the other one, `%s`, has that length: '
                       'a key matches every stored name that merely begins with it (`v` finds `value`, `t` finds `type`), so the first such entry in the list/table answers instead of the entry of that name'
                       % (c.callee(), a[0].src(), a[1].src(), a[2].src(), N.src(), stored.src()), where=where)
    if ncmp < 4:
        rep.undecided('R17.17', 'name-comparisons', 'only %d comparison(s) of a (pointer, length) key with a stored name found in the program (match, equal, find_arg, hideset_contains, struct members): the name lookups are not recognised any more' % ncmp)
    if npair < 4:
        rep.undecided('R17.17', 'key-length-pairs', 'only %d length-taking table operation(s) on token text found' % npair)


# ------------------------------------------------------------------ R17.18: the binding is entered after its initialiser was evaluated ---
def r1718(P, rep):
    """last-write-wins is a statement about the ORDER of table operations: the lookups made while an enumerator's `= constant-expression` is evaluated
    belong before the insertion of that enumerator (C11 6.2.1p7), so they must be answered by the previous binding of the name.  Over every path of
    enum_specifier (C03's event abstraction of the declaration parsers): the insertion of the identifier spelled by the enumerator's own token follows the
    parser call that starts right behind that token"""
    rep.rule('R17.18', 'a table write does not overtake the reads that precede it in the program text: on every path of enum_specifier the enumerator is entered into the scope table only after the '
                       'call that evaluates its own `= constant-expression` has returned, so a lookup of the same name inside that expression is still answered by the previous (enclosing) binding, '
                       'not by the half-built new one', floor=1)
    pu = P.unit('parse.c')
    fn = 'enum_specifier'
    if fn not in pu.functions:
        raise AnalysisBroken('anchor %s vanished from parse.c' % fn)
    where = 'parse.c:%d' % pu.fn(fn).line

    def go():
        from . import c03
        return c03.decl_events(P, pu, fn, lambda tm, ctx, rest: [rest, tm.token('tok')])
    r = _borrow(rep, 'R17.18', 'parse.c:%s' % fn, go)
    if r is None:
        return
    it, paths = r
    n_own = n_ins = 0
    for ctx, o, evs in paths:
        if o[0] != 'ret':
            continue
        inserted = [e for e in evs if e[0] == 'insert']
        n_ins += len(inserted)
        if any(e[2] is None for e in inserted):
            rep.undecided('R17.18', 'parse.c:%s:enumerator-name' % fn, 'a name entered into the scope table is not spelled from an identifier token: the enumerator it binds cannot be identified', where=where)
        idents = [e[2] for e in inserted if e[2]]
        for i, e in enumerate(evs):
            if e[0] != 'parse' or e[1] == 'declarator' or not e[2]:
                continue
            owners = [t for t in idents if e[2] == t or e[2].startswith(t + '.next')]
            if not owners:
                continue
            own = max(owners, key=len)
            pos = [j for j, x in enumerate(evs) if x[0] == 'insert' and x[2] == own]
            n_own += 1
            ok = bool(pos) and min(pos) > i
            rep.ob('R17.18', 'parse.c:%s:%s' % (fn, 'binding-entered-after-its-%s' % e[1] if ok else 'binding-entered-before-its-%s' % e[1]), ok,
                   'the enumerator is entered into the scope table before %s() evaluates its own `= constant-expression`: a lookup of the same name inside the expression finds the new, half-built entry '
                   '(value 0) instead of the binding that was the most recent one when the expression was written - `enum { BASE = BASE + 2 }` under an outer BASE = 40 yields 2 instead of 42' % e[1],
                   where='parse.c:%d' % e[3], facts={'order': [(x[0], x[1], x[2]) for x in evs]})
    if n_ins == 0 or n_own == 0:
        rep.undecided('R17.18', 'parse.c:%s:enumerators' % fn, 'no returning path enters an enumerator with a constant expression into the scope table', where=where)


def _ident_guard(fd, call, base_src):
    """the path to `call` has tested `<base>->kind` against TK_IDENT: an earlier `if (<base>->kind != TK_IDENT) <noreturn diagnostic>` with no
    assignment to <base> in between, or the call sits in the then-branch of `if (<base>->kind == TK_IDENT)`"""
    order = list(fd.walk())
    pos = {id(n): i for i, n in enumerate(order)}
    here = pos.get(id(call))
    if here is None:
        return False

    def tests(cond, op):
        for b in cond.walk():
            if b.kind == 'BinaryOperator' and b.opcode == op:
                l, r = b.inner[0].strip_all(), b.inner[1].strip_all()
                for x, y in ((l, r), (r, l)):
                    if x.kind == 'MemberExpr' and x.name == 'kind' and x.inner[0].strip_all().src() == base_src and y.kind == 'DeclRefExpr' and y.ref_name == 'TK_IDENT':
                        # the test must decide the branch by itself: not below a `&&` / `||`
                        p = b.parent
                        while p is not None and p is not cond.parent and p.kind in ('ParenExpr', 'ImplicitCastExpr'):
                            p = p.parent
                        if p is cond.parent or b is cond.strip():
                            return True
        return False
    for a in call.ancestors():
        if a.kind == 'IfStmt' and len(a.inner) >= 2 and tests(a.inner[0], '==') and any(x is call for x in a.inner[1].walk()):
            return True
    for n in order[:here]:
        if n.kind != 'IfStmt' or len(n.inner) < 2 or not tests(n.inner[0], '!='):
            continue
        if not n.inner[1].calls(('error', 'error_tok', 'error_at', 'exit', 'abort')):
            continue
        # the guard is on the way to the call: the call is not inside the guard, and they share the enclosing compound statement chain
        if any(x is call for x in n.walk()):
            continue
        if not any(a is n.parent for a in call.ancestors()):
            continue
        end = max(pos[id(x)] for x in n.walk())
        clobbered = False
        for m in order[end + 1:here]:
            if m.kind == 'BinaryOperator' and m.opcode == '=' and m.inner[0].strip().src() == base_src:
                clobbered = True
        if not clobbered:
            return True
    return False


def r1716(P, rep):
    """`a name is defined exactly when its most recent operation was a definition`: the key under which a definition enters the macro table must be the
    NAME - an identifier.  find_macro looks identifiers up, so an entry made under any other string (the text `F(x)` before the `=` of -D'F(x)=x+1') is a
    definition after which the name it was meant for is still undefined.  Every value that can reach the name parameter of the table writer is traced back
    through parameters/locals to where the string is made: an identifier literal, or the spelling of a token the path has tested to be TK_IDENT"""
    import re
    from ..lib_c17_memo import MemoKeys
    rep.rule('R17.16', 'every string that can reach the key of an insertion into the macro table is a macro name: traced back through parameters and once-defined locals over all call sites it is an identifier literal or the spelling (loc, len) of a token whose kind the path has tested to be TK_IDENT; text cut out of a command-line word is not lexed and is not a name; the key of every deletion from the macro table is a name in the same sense (`-U word` is lexed like the name of #undef)', floor=3)
    M = MemoKeys(P)
    pu = P.unit('preprocess.c')
    if 'add_macro' not in pu.functions:
        raise AnalysisBroken('add_macro vanished')
    CHAR_TESTS = ('is_ident1', 'is_ident2', 'isalpha', 'isalnum', 'strspn', 'strcspn', 'strpbrk')
    leaves = []            # (kind, unit, fn, node, detail)

    def resolve(f, e, seen):
        un, fd = M.fn[f]
        n = e.strip_all()
        if n.kind == 'DeclRefExpr' and n.ref_kind == 'ParmVarDecl':
            ids = [i for i, _ in M._params[f]]
            if n.ref_id not in ids or M._defs[f].get(n.ref_id):
                leaves.append(('other', un, f, n, 'a parameter that is assigned in the function')); return
            j = ids.index(n.ref_id)
            if (f, j) in seen:
                return
            sites = M.calls.get(f, ())
            if not sites:
                leaves.append(('other', un, f, n, 'a parameter of a function without a visible call')); return
            for (cu, cf, c) in sites:
                if len(c.args()) > j:
                    resolve(cf, c.args()[j], seen | {(f, j)})
            return
        if n.kind == 'DeclRefExpr' and n.ref_kind == 'VarDecl' and n.ref_id in M._locals.get(f, ()):
            d = M._defs[f].get(n.ref_id, [])
            if len(d) == 1 and d[0] is not None:
                resolve(f, d[0], seen); return
            leaves.append(('other', un, f, n, 'a local with several definitions')); return
        if n.kind == 'StringLiteral':
            leaves.append(('lit', un, f, n, n.str_value())); return
        if n.kind == 'CallExpr' and n.callee() == 'strdup' and n.args():
            resolve(f, n.args()[0], seen); return
        if n.kind == 'CallExpr' and n.callee() == 'strndup' and len(n.args()) == 2:
            a, b = n.args()[0].strip_all(), n.args()[1].strip_all()
            if a.kind == 'MemberExpr' and a.name == 'loc' and b.kind == 'MemberExpr' and b.name == 'len' and a.inner[0].strip_all().src() == b.inner[0].strip_all().src():
                base = a.inner[0].strip_all().src()
                leaves.append(('token' if _ident_guard(fd, n, base) else 'unchecked-token', un, f, n, base)); return
            leaves.append(('cut', un, f, n, 'a piece of a string cut out with strndup()')); return
        if n.kind == 'MemberExpr' and n.name == 'loc':
            # the bytes of a token, handed over with the token's length (hashmap_*2): the token's spelling
            base = n.inner[0].strip_all().src()
            leaves.append(('token' if _ident_guard(fd, n, base) else 'unchecked-token', un, f, n, base)); return
        leaves.append(('other', un, f, n, 'a string that is not made by the lexer (`%s`, e.g. a command-line word)' % n.src()))

    nsite = 0
    for c in pu.fn('add_macro').calls(('hashmap_put', 'hashmap_put2')):
        if c.args() and c.args()[0].src().lstrip('&') == 'macros' and len(c.args()) > 1:
            nsite += 1
            resolve('add_macro', c.args()[1], frozenset())
    if not nsite or not leaves:
        rep.undecided('R17.16', 'preprocess.c:add_macro:key', 'the insertion into the macro table (or the origin of its key) was not found')
        return
    _r1716_report(rep, M, leaves, 'macro-name', CHAR_TESTS)
    # the same for the key of a deletion: `#undef M` / `-U M` remove the definition of the NAME M only if the string that reaches hashmap_delete is that
    # name as the lexer spells it (the table holds names as lexed: universal character names decoded, no white space)
    put_leaves, leaves[:] = list(leaves), []
    ndel = 0
    for cal in ('hashmap_delete', 'hashmap_delete2'):
        for (cu, cf, c) in M.calls.get(cal, ()):
            if c.args() and c.args()[0].src().lstrip('&') == 'macros' and len(c.args()) > 1:
                ndel += 1
                resolve(cf, c.args()[1], frozenset())
    if not ndel or not leaves:
        rep.undecided('R17.16', 'preprocess.c:undef_macro:key', 'the deletion from the macro table (or the origin of its key) was not found')
        return
    _r1716_report(rep, M, leaves, 'undef-name', CHAR_TESTS)


def _r1716_report(rep, M, leaves, what, CHAR_TESTS):
    import re
    ins = what == 'macro-name'
    ident = re.compile(r'^[A-Za-z_][A-Za-z0-9_]*$')
    by = {}
    for lf in leaves:
        by.setdefault((lf[1], lf[2]), []).append(lf)
    for (un, f), ls in sorted(by.items()):
        fd = M.fn[f][1]
        where = lambda n: '%s:%d' % (un, n.line)
        lits = [l for l in ls if l[0] == 'lit']
        if lits:
            bad = [l for l in lits if not ident.match(l[4] or '')]
            rep.ob('R17.16', '%s:%s:%s-literals-are-identifiers' % (un, f, what), not bad,
                   'a macro is %s under the literal %r, which is not an identifier: no identifier lookup can find it' % ('entered' if ins else 'deleted', [l[4] for l in bad][:3],), where=where((bad or lits)[0][3]), facts={'literals': len(lits)})
        toks = [l for l in ls if l[0] == 'token']
        if toks:
            rep.ob('R17.16', '%s:%s:%s-is-the-spelling-of-an-identifier-token' % (un, f, what), True, '', where=where(toks[0][3]))
        for l in ls:
            if l[0] == 'unchecked-token':
                rep.ob('R17.16', '%s:%s:%s-token-kind-not-tested' % (un, f, what), False,
                       ('the spelling of token `%s` becomes a macro name on a path that has not tested its kind to be TK_IDENT: `#define 1 2` / `#define ( x` would enter a non-name into the table' if ins else
                        'the spelling of token `%s` is deleted from the macro table on a path that has not tested its kind to be TK_IDENT: `#undef 1` / `#undef (` would be accepted silently') % l[4], where=where(l[3]))
        raw = [l for l in ls if l[0] in ('cut', 'other')]
        if raw:
            lexed = bool(fd.calls(CHAR_TESTS))
            kinds = sorted({'text-cut-out-of-a-string' if l[0] == 'cut' else 'unlexed-string' for l in raw})
            for k in kinds:
                l = [x for x in raw if (x[0] == 'cut') == (k == 'text-cut-out-of-a-string')][0]
                if lexed:
                    rep.undecided('R17.16', '%s:%s:%s/%s' % (un, f, what, k), '%s reaches the key of the macro table; the function tests characters, but the analysis cannot tell that only identifiers pass' % l[4], where=where(l[3]))
                elif ins:
                    rep.ob('R17.16', '%s:%s:macro-name-is-%s' % (un, f, k), False,
                           '%s reaches the key of the macro table (through %s) without being lexed: the table gets a definition under a string that is not an identifier - '
                           '`-DF(x)=x+1` enters an object-like macro literally named `F(x)`, which no lookup can find, while F, the name the definition is for, stays undefined '
                           '(gcc defines the function-like macro F); `-D"A B"` likewise' % (l[4], f), where=where(l[3]))
                else:
                    rep.ob('R17.16', '%s:%s:undef-name-is-%s' % (un, f, k), False,
                           '%s reaches the key of a deletion from the macro table (through %s) without being lexed, while every name in the table was entered as the lexer spells it '
                           '(universal character names decoded, white space dropped): the deletion looks for a string that is not the name, finds nothing, and the name stays defined although its most recent '
                           'operation was an #undef - `-DFOO -U"FOO "` and `-D\\u00c4B -U\\u00c4B` leave the macro defined (gcc lexes the -U word like the name of #undef)' % (l[4], f), where=where(l[3]))


def _peel_key_function(M, f, k):
    """(g, e) when the key expression k of function f is g(e) - directly or through a once-defined local - for a KEY FUNCTION g of the program, else (None, k).
    g is a key function when its result is determined by its one parameter and the file system: it has one parameter which it does not assign, mentions no
    object outside its own locals (no global, no field of anything but a local record), calls only library functions, and every `return` hands back the
    parameter or the result of a library call (a string made from the parameter's file)"""
    n = k.strip_all()
    if n.kind == 'DeclRefExpr' and n.ref_kind == 'VarDecl' and n.ref_id in M._locals.get(f, ()):
        d = M._defs[f].get(n.ref_id, [])
        if len(d) == 1 and d[0] is not None:
            n = d[0].strip_all()
    if not (n.kind == 'CallExpr' and n.callee() in M.fn and n.callee() not in M.dup and len(n.args()) == 1):
        return (None, k)
    g = n.callee()
    fd = M.fn[g][1]
    ps = M._params[g]
    if len(ps) != 1 or M._defs[g].get(ps[0][0]):
        return (None, k)
    loc = M._locals[g]
    for x in fd.walk():
        if x.kind == 'DeclRefExpr' and x.ref_kind in ('VarDecl', 'ParmVarDecl') and x.ref_id not in loc:
            return (None, k)
        if x.kind == 'CallExpr' and (x.callee() is None or (x.callee() in M.fn and x.callee() != 'format')):
            return (None, k)
        if x.kind == 'MemberExpr':
            b = x.inner[0].strip_all()
            if not (b.kind == 'DeclRefExpr' and b.ref_kind == 'VarDecl' and b.ref_id in loc) or x.d.get('isArrow'):
                return (None, k)
    rets = [r for r in fd.find('ReturnStmt') if r.inner]
    if not rets:
        return (None, k)
    for r in rets:
        e = r.inner[0].strip_all()
        if e.kind == 'DeclRefExpr' and e.ref_kind == 'ParmVarDecl' and e.ref_id == ps[0][0]:
            continue
        if e.kind == 'CallExpr' and e.callee() == 'format':
            continue
        return (None, k)
    return (g, n.args()[0])


def r1715(P, rep):
    """a memo table (static HashMap that is not keyed by token spelling: the `#pragma once` table, the guard memo, the include-path cache) is a dictionary
    only for the string its reader looks up.  The reader asks under one of its own parameters; an entry made by another function answers that question only
    if the key it was entered under is that very string: the parameter handed down a call chain, or a record field that is given it when the object is made
    and is written nowhere else (File.name, set by new_file from tokenize_file(path)).  A field that some other statement rewrites (File.display_name, set
    by #line) is a different string after that statement: the entry is then never found under the path (the file is read again and its #define/#undef run
    a second time) and an unrelated path that happens to equal it is answered with an entry nobody made for it"""
    from ..lib_c17_memo import MemoKeys, describe, slug, recognised
    rep.rule('R17.15', 'the key written by every writer of a memo table is the key its reader looks up: each get/put/delete on a static table that is not keyed by token spelling passes a value that carries the string the reader function looks up under its own parameter - that parameter, a parameter it is handed to down a call chain, or a record field all of whose stores in the program store that string (set at creation, never rewritten)', floor=4)
    M = MemoKeys(P)
    P._c17_memo_keys = M
    tabs = M.table_accesses()
    ntab = 0
    for tid in sorted(tabs, key=lambda t: (t[0], t[1] or '')):
        acc = tabs[tid]
        ops = {a[0] for a in acc}
        if 'get' not in ops or not (ops & {'put', 'delete'}):
            continue
        # keyed by spelling (token text, keyword lists, macro names): the content of the key is the identity; R17.7 / R17.14 speak about those
        spelled = False
        for (op, un, f, c, k) in acc:
            kk = k.strip_all()
            if kk.kind == 'MemberExpr' and kk.name == 'loc':
                spelled = True
            if kk.kind == 'ArraySubscriptExpr':
                spelled = True
        if spelled:
            continue
        tname = tid[0]
        # a key may be the path passed through a key function of the program (file_key(path): the file's identity instead of its spelling): two keys are
        # then the same string when the SAME function is applied to the same path, so the wrapper is peeled off every access and compared by name
        peeled = {id(a[3]): _peel_key_function(M, a[2], a[4]) for a in acc}
        wrappers = {g for g, _ in peeled.values()}
        readers = [(a, M.origin(a[2], peeled[id(a[3])][1])) for a in acc if a[0] == 'get']
        anchors = [(a, o) for a, o in readers if o[0] in ('param', 'local1')]
        u0 = readers[0][0][1]
        if not anchors:
            rep.undecided('R17.15', '%s:%s:%s:reader-key' % (u0, readers[0][0][2], tname), 'no reader of table `%s` looks it up under a parameter or a once-defined local of its own (%s): the string the table is about cannot be named' % (tname, describe(readers[0][1])),
                          where='%s:%d' % (u0, readers[0][0][3].line))
            continue
        ntab += 1
        (aa, anchor) = anchors[0]
        F = M.flow(anchor)
        rep.ob('R17.15', '%s:%s:%s:looked-up-under-own-parameter' % (aa[1], aa[2], tname), True, '', where='%s:%d' % (aa[1], aa[3].line), facts={'key': describe(anchor)})
        g0 = peeled[id(aa[3])][0]
        for (op, un, f, c, k) in acc:
            if c is aa[3]:
                continue
            g1, k = peeled[id(c)]
            o = M.origin(f, k)
            where = '%s:%d' % (un, c.line)
            if g1 != g0:
                if F.member(o) or recognised(o):
                    rep.ob('R17.15', '%s:%s:%s:%s-key-is-made-like-the-lookup-key' % (un, f, tname, op), False,
                           '%s on table `%s` uses %s %s as key, while %s looks the table up under %s %s: the two are different strings for the same file, so the entry is never found '
                           '(the memoised work is redone - a header is read again and its #define/#undef directives run twice)'
                           % (c.callee(), tname, describe(o), 'passed through %s()' % g1 if g1 else 'as it is', aa[2], describe(anchor), 'passed through %s()' % g0 if g0 else 'as it is'), where=where)
                else:
                    rep.undecided('R17.15', '%s:%s:%s:%s-key/%s' % (un, f, tname, op, slug(o)), 'the key of %s on table `%s` is not made like the key %s looks up and its origin is not recognised' % (c.callee(), tname, aa[2]), where=where)
                continue
            if F.member(o):
                rep.ob('R17.15', '%s:%s:%s:%s-key-is-the-lookup-key' % (un, f, tname, op), True, '', where=where, facts={'key': describe(o)})
                continue
            what = ('%s on table `%s` uses %s as key, while %s looks the table up under %s' % (c.callee(), tname, describe(o), aa[2], describe(anchor)))
            if o[0] == 'field':
                fs = F.foreign_stores(o)
                known = [x for x in fs if recognised(x[2])]
                if o[1] in M.init_listed or not M.stores.get(o[1:3]):
                    rep.undecided('R17.15', '%s:%s:%s:%s-key/%s' % (un, f, tname, op, slug(o)), what + '; the stores that give that field its value are not assignments the analysis follows (initialiser list / none found)', where=where)
                    continue
                if fs and not known:
                    rep.undecided('R17.15', '%s:%s:%s:%s-key/%s' % (un, f, tname, op, slug(o)), what + '; the field is also written with a value the analysis cannot name (in %s)' % ', '.join(sorted({x[1] for x in fs})), where=where)
                    continue
                also = '; that field is also written by %s' % ', '.join('%s (%s:%d, with %s)' % (x[1], x[0], x[3].line, describe(x[2])) for x in known[:3]) if known else '; no store of the looked-up string into that field was found'
                rep.ob('R17.15', '%s:%s:%s:%s-key-is-%s' % (un, f, tname, op, slug(o)), False,
                       what + also + ': once the two differ the entry is not found under the looked-up key (the memoised work is redone - a header is read again and its #define/#undef directives run twice, overriding later definitions) '
                       'and a lookup whose key happens to equal the other string is answered by an entry nobody made for it', where=where, facts={'key': describe(o), 'lookup key': describe(anchor)})
            elif recognised(o):
                rep.ob('R17.15', '%s:%s:%s:%s-key-is-%s' % (un, f, tname, op, slug(o)), False,
                       what + ': nothing makes the two the same string, so the table does not answer for the key that was entered', where=where, facts={'key': describe(o), 'lookup key': describe(anchor)})
            else:
                rep.undecided('R17.15', '%s:%s:%s:%s-key/%s' % (un, f, tname, op, slug(o)), what + '; the analysis cannot tell whether the two are the same string', where=where)
    if ntab < 2:
        rep.undecided('R17.15', 'preprocess.c:memo-tables', 'only %d memo table(s) (static HashMap with a reader and a writer, not keyed by token spelling) found: the include memo tables are not recognised any more' % ntab)


def r1719(P, rep):
    """a memo table keyed through a key function g(path) (file_key) is a dictionary of FILES only if g's result is an injective function of the file that
    open(path) reads: the file-system query follows symbolic links like open() does (never lstat), is made on g's own parameter, its record is read only
    where the query succeeded, and the key holds the complete identity (st_dev, st_ino) at full width with the numbers kept apart"""
    from ..lib_c17_memo import MemoKeys
    from ..lib_c17_ident import key_function_facts
    rep.rule('R17.19', 'a function that turns a path into the key of a memo table derives the identity of the file open() will read: its file-system query follows symbolic links (stat/fstat, never lstat/readlink/AT_SYMLINK_NOFOLLOW), asks about the function\'s own parameter, the record is read only where the query succeeded and from the record that query filled, and the key contains both st_dev and st_ino at full width, separated by literal text - so one file has one key under all its names and two files never share one', floor=4)
    M = getattr(P, '_c17_memo_keys', None) or MemoKeys(P)
    tabs = M.table_accesses()
    gs = {}
    for tid, acc in tabs.items():
        for a in acc:
            g, _ = _peel_key_function(M, a[2], a[4])
            if g is not None:
                gs.setdefault(g, a)
    if not gs:
        rep.undecided('R17.19', 'preprocess.c:key-functions', 'no table access passes its key through a key function any more: the include memo tables are keyed in a way this rule does not recognise')
        return
    for g in sorted(gs):
        un = M.fn[g][0]
        seen = set()
        for (construct, ok, msg, node) in key_function_facts(M, g):
            key = '%s:%s:%s' % (un, g, construct)
            where = '%s:%d' % (un, node.line)
            if ok is None:
                if key not in seen:
                    rep.undecided('R17.19', key, msg, where=where)
            elif ok and key in seen:
                continue
            else:
                rep.ob('R17.19', key, ok, msg, where=where)
            seen.add(key)


def r1711(P, rep):
    """"it then has that definition's replacement list": the stored replacement list of a Macro is immutable after add_macro, and find_macro answers
    from the table alone.  C09's rules on the sharing of replacement-list tokens (subst links only copies; add_hideset returns fresh copies) and on the
    lookup (an identifier is answered by the table), re-used"""
    from ..report import Report, reissue
    from ..lib_c09 import NotConcrete
    from . import c09
    rep.rule('R17.11', 'the replacement list stored by a definition is never written afterwards (subst and add_hideset hand out copies of its tokens) and find_macro answers every identifier from the macro table alone, so a name has exactly the replacement list of its most recent definition and none after #undef (same obligations as C09 R09.7 add_hideset, R09.10 find_macro, R09.12 replacement-list tokens)', floor=6)
    sub = Report('C09')
    for r in ('R09.1', 'R09.2', 'R09.3', 'R09.4', 'R09.7', 'R09.10', 'R09.12', 'R09.13', 'R09.14', 'R09.15'):
        sub.rule(r, '', 1)
    u = P.unit('preprocess.c')

    def part(name, f):
        try:
            return f()
        except NotConcrete as e:
            rep.undecided('R17.11', 'preprocess.c:%s:not-concrete' % name, 'the interpreter cannot follow a helper to a concrete result (%s)' % e)
        except AnalysisBroken as e:
            rep.undecided('R17.11', 'preprocess.c:%s:analysis' % name, 'analysis could not proceed: %s' % e)
        return None
    rs = part('subst', lambda: c09.r_subst(P, u, sub))
    if rs is not None:
        part('arg-sharing', lambda: c09.r_arg_sharing(P, u, sub, rs[0], rs[1]))
    part('hideset', lambda: c09.r_hideset_prims(P, u, sub))
    part('lookup', lambda: c09.r_lookup(P, u, sub))
    reissue(rep, 'R17.11', sub, 'a macro name would not have the replacement list of its most recent definition: ',
            keep=lambda o: ('replacement-list-token' in o['key'] or ':add_hideset:' in o['key'] or ':find_macro:' in o['key']))


def _borrow(rep, rule, key, f):
    """run a rule function of another property's module into a sub-report; a function that vanished or changed shape leaves the rule undecided"""
    from ..interp import Unsupported, Infeasible
    try:
        return f()
    except (AnalysisBroken, Unsupported, Infeasible) as e:
        rep.undecided(rule, key + ':analysis', 'analysis could not proceed: %s' % e)
    except (ImportError, AttributeError, TypeError, KeyError, IndexError, ValueError, RecursionError) as e:
        rep.undecided(rule, key + ':borrowed-rule', 'the rule function re-used here could not be run: %r' % (e,))
    except Exception as e:
        if type(e).__name__ == 'NotConcrete':
            rep.undecided(rule, key + ':not-concrete', 'the interpreter cannot follow a helper to a concrete result (%s)' % e)
        else:
            raise
    return None


def r1712(P, rep):
    """the history the table sees is the history the program wrote: every `#define` / `#undef` line of the source is executed, whatever precedes it, and
    nothing that macro replacement produced is.  What decides whether a line is a directive is at_bol (and origin) of its `#`; the only code that writes
    these flags on existing tokens is expand_macro.  C09's rules on that function, re-used: an invocation that expands to nothing leaves the token after it
    alone (R09.15, judged on the FINISHED replacement, whatever the stored list looks like), a token of a replacement is never taken for the `#` of a
    directive (R09.16), and an expansion does not write the stored definition (R09.19)"""
    from ..report import Report, reissue
    rep.rule('R17.12', 'the operations applied to the macro table are exactly the #define/#undef lines of the source, in order: an invocation whose finished replacement is empty leaves at_bol/has_space of the token after it alone (so a directive on the next line is still recognised and executed), a token produced by replacement is never taken as the `#` of a directive, and expanding a macro never writes its stored definition (same obligations as C09 R09.15, R09.16, R09.19, the continuation/replacement-source part of R09.2 and R09.6); the dispatcher arms for `#define M` / `#undef M` apply exactly one operation to the name written and resume at the next line', floor=14)
    u = P.unit('preprocess.c')
    sub = Report('C09')

    def go():
        from . import c09
        r = c09.r_expand(P, u, sub)
        if r is not None:
            c09.r_directive_source(P, u, sub, r[0], r[1])
        c09.r_definition(P, u, sub)
        return True
    _borrow(rep, 'R17.12', 'preprocess.c:expand_macro', go)
    reissue(rep, 'R17.12', sub, 'a #define/#undef of the source would not be the operation the macro table sees: ',
            keep=lambda o: o['rule'] in ('R09.15', 'R09.16', 'R09.19', 'R09.6') or
            (o['rule'] == 'R09.2' and o['key'].endswith(('-continuation', '-replacement-source'))))
    _borrow(rep, 'R17.12', 'preprocess.c:preprocess2', lambda: _directive_arms(P, u, rep))


def _directive_arms(P, u, rep):
    """the dispatcher on `# define M` / `# undef M` at the beginning of a line: the arm applies exactly one operation, to the name written after the directive
    name, and resumes at the next line (so the directive after it is seen)"""
    from . import c10
    from ..lib_c10 import Toks, register_nested_enums, explore_directive, calls, outcome, idx_of, spelled_from
    register_nested_enums(u)
    T = Toks(u)
    fn = 'preprocess2'
    where = 'preprocess.c:%d' % u.fn(fn).line
    want = {'define': 'read_macro_definition', 'undef': 'undef_macro'}
    for d in ('define', 'undef'):
        it, res = explore_directive(P, u, T, d)
        if not res:
            rep.undecided('R17.12', 'preprocess.c:%s:%s-arm' % (fn, d), 'no path of the dispatcher on `#%s M` could be followed' % d, where=where)
            continue
        bad = {}
        for ctx, out in res:
            o = outcome(out)
            ops = calls(ctx, tuple(want.values()) + ('add_macro', 'hashmap_put', 'hashmap_put2', 'hashmap_delete', 'hashmap_delete2'))
            mine = [e for e in ops if e[1] == want[d]]
            if o[0] == 'error':
                bad.setdefault('rejected', (ctx, '`#%s M` with an identifier M ends in the diagnostic of %s()' % (d, o[1])))
                continue
            if len(mine) != 1 or len(ops) != 1:
                bad.setdefault('not-one-operation', (ctx, '`#%s M` applies %s instead of exactly one %s()' % (d, [e[1] for e in ops] or 'no operation', want[d])))
                continue
            a = mine[0][2]
            if d == 'define':
                named = len(a) >= 2 and idx_of(ctx, a[1]) == 2
            else:
                src = spelled_from(a[0]) if a else None
                named = src is not None and idx_of(ctx, src) == 2
            if not named:
                bad.setdefault('other-name', (ctx, '`#%s M` hands %s() something else than the name M written after the directive name' % (d, want[d])))
                continue
            if o[0] == 'ret':
                bad.setdefault('line-not-consumed', (ctx, 'after `#%s M` the dispatcher runs to the end of the list without leaving the directive line' % d))
                continue
            ok, desc = c10._line_start_ok(ctx, o[1])
            if not ok:
                bad.setdefault('resumes-elsewhere', (ctx, 'after `#%s M` the dispatcher resumes at %s: text is dropped or processed twice, a directive on the next line is not seen' % (d, desc)))
        rep.ob('R17.12', 'preprocess.c:%s:%s-arm-applies-one-operation-to-the-written-name' % (fn, d), not bad,
               '%d kind(s) of wrong handling of `#%s M`: %s' % (len(bad), d, ', '.join(sorted(bad))), where=where, facts={'paths': len(res)})
        for why, (ctx, msg) in sorted(bad.items()):
            rep.ob('R17.12', 'preprocess.c:%s:%s-arm:%s' % (fn, d, why), False, msg + '; the macro table then does not reflect the directives of the source',
                   where='preprocess.c:%d' % c10._arm_line(ctx, u.fn(fn).line), facts={'path': ctx.trail[-12:]})


def r1713(P, rep):
    """the include memo tables (guard memo, `#pragma once` table) answer "this file need not be read again".  That answer suppresses every #define/#undef the
    file would execute, so it is admissible only when a second reading executes none: the whole file is one `#ifndef G` group without #elif/#else of its own,
    nothing follows its #endif, and G is defined at the moment of the #include (looked up then, not remembered).  C10's rules on include_file and on the guard
    recogniser, re-used"""
    from ..report import Report, reissue
    rep.rule('R17.13', 'an #include is answered from a memo table without reading the file only if reading it again could execute no #define/#undef: the guard recogniser accepts a file only as `#ifndef G` / `#define G` ... `#endif` <end of file> with every nested conditional skipped as a whole and no #elif/#else/#endif of the guard itself passed over, include_file takes the shortcut only for a `#pragma once` file or when the recorded guard macro is in the macro table right now, and memoises only what the recogniser answered under the path it looks up (same obligations as C10 R10.3 and the detect_include_guard part of R10.2)', floor=20)
    u = P.unit('preprocess.c')
    sub = Report('C10')

    def go():
        from . import c10
        from ..lib_c10 import Toks, register_nested_enums, string_lits_compared
        c10._declare_rules(sub)
        register_nested_enums(u)
        T = Toks(u)
        c10.r103(P, u, T, sub)
        lits = set()
        for f in ('skip_cond_incl', 'skip_cond_incl2', 'detect_include_guard', 'preprocess2'):
            if f in u.functions:
                lits |= string_lits_compared(u.fn(f))
        universe = list(c10.COND) + sorted(x for x in lits if x not in c10.COND and x != '#') + ['no_such_directive']
        c10._r102_guard(P, u, T, sub, universe)
        return True
    _borrow(rep, 'R17.13', 'preprocess.c:include_file', go)

    def keep(o):
        k = o['key']
        if o['rule'] == 'R10.3':
            return True
        if o['rule'] == 'R10.2' and ':detect_include_guard:' in k:
            c = k.split(':detect_include_guard:', 1)[1]
            return c.startswith(('scan/', 'depth-0-', 'opener-', 'not-a-conditional-directive/'))
        return False
    reissue(rep, 'R17.13', sub, 'a file whose second inclusion executes #define/#undef directives would be skipped (the names keep stale definitions): ', keep=keep)


def r1714(P, rep):
    """the identifier and tag tables of the parser are one dictionary per scope.  Last-write-wins and "gone after the scope is left" hold per scope only if
    (a) every insertion goes into the table of the current scope, (b) a binding is replaced in place only through what the current scope's own table
    answered - a binding found by walking the scope chain may belong to an enclosing scope and is read-only -, (c) lookups go innermost-first and
    enter/leave push and pop exactly one scope (C03 R03.5, re-used)"""
    from ..report import Report, reissue
    rep.rule('R17.14', 'scope tables (identifiers, tags) are per-scope dictionaries: every insertion addresses the table of the current scope; a binding that a walk over the scope chain answered (find_var/find_tag or an inline walk) is never written through - completing or replacing a binding in place is done only through the lookup in the current scope\'s own table, so a block-scope declaration never changes what an enclosing scope binds; lookup is innermost-first, first hit wins, enter/leave push/pop one scope (C03 R03.5 re-issued)', floor=20)
    pu = P.unit('parse.c')
    U2 = 'parse.c'
    S = L.ScopeTables(pu)

    def resolve(f, k, idx_path=()):
        """scope class of a parameter-relative table at the call sites of f"""
        if not isinstance(k, tuple):
            return {k}
        if len(idx_path) > 3:
            return {'unknown'}
        out = set()
        for g, gd in pu.functions.items():
            for c in gd.calls(f):
                a = c.args()
                if k[1] >= len(a):
                    out.add('unknown'); continue
                out |= resolve(g, S.scope_of(g, a[k[1]]), idx_path + (f,))
        return out or {'unknown'}
    nput = nget = 0
    for f in pu.functions:
        where = lambda n: '%s:%d' % (U2, n.line)
        for c, field, k in S.table_calls(f, 'put'):
            nput += 1
            ks = resolve(f, k)
            if 'outer' in ks:
                rep.ob('R17.14', '%s:%s:inserts-into-an-enclosing-scope/%s' % (U2, f, field), False,
                       '%s enters a name into the `%s` table of a scope reached through the scope chain instead of the current scope: a declaration in a block would then bind (or rebind) the name in an enclosing scope and outlive the block' % (c.callee(), field), where=where(c))
            elif ks == {'inner'}:
                rep.ob('R17.14', '%s:%s:inserts-into-the-current-scope/%s' % (U2, f, field), True, '', where=where(c))
            else:
                rep.undecided('R17.14', '%s:%s:insert-scope/%s' % (U2, f, field), 'cannot tell which scope\'s table this insertion addresses', where=where(c))
        for c, field, k in S.table_calls(f, 'delete'):
            rep.ob('R17.14', '%s:%s:scope-table-delete/%s' % (U2, f, field), False, 'a binding is deleted from a scope table: bindings end with their scope, not before', where=where(c))
        nget += len(S.table_calls(f, 'get'))
        b = S.bindings(f)
        if not b:
            continue
        written = set()
        for vid, how, n, (k, field, src) in S.binding_stores(f):
            written.add((vid, src))
            ks = resolve(f, k)
            if 'outer' in ks:
                rep.ob('R17.14', '%s:%s:%s-binding-answered-by-%s-written/%s' % (U2, f, field, src, how), False,
                       'the `%s` binding that %s answered (found by walking the scope chain, so possibly the binding of an ENCLOSING scope) is written in place (%s): a declaration in the current scope then writes through into the enclosing scope\'s table entry - `struct T;` at file scope, `struct T { char c[3]; };` inside a block completes the file-scope T with the block\'s layout, and the binding does not disappear when the block is left' % (field, src, how),
                       where=where(n))
            elif ks == {'inner'}:
                rep.ob('R17.14', '%s:%s:%s-binding-of-the-current-scope-replaced-in-place/%s' % (U2, f, field, how), True, '', where=where(n))
            else:
                rep.undecided('R17.14', '%s:%s:%s-binding-answered-by-%s' % (U2, f, field, src), 'a binding is written in place and the analysis cannot tell which scope\'s table answered it', where=where(n))
        for vid, (k, field, src) in b.items():
            if (vid, src) not in written and 'outer' in resolve(f, k):
                rep.ob('R17.14', '%s:%s:%s-binding-answered-by-%s-only-read' % (U2, f, field, src), True, '', where=where(S._decl[f][vid]))
    if nput < 2 or nget < 2:
        rep.undecided('R17.14', '%s:scope-tables' % U2, 'only %d insertion(s) into / %d lookup(s) in a table of a Scope record found: the scope tables are not recognised any more' % (nput, nget))
    sub = Report('C03')

    def go():
        from . import c03
        c03.r035(P, sub)
        return True
    _borrow(rep, 'R17.14', 'parse.c:scope-chain', go)
    reissue(rep, 'R17.14', sub, 'a name would not be bound per scope with the innermost binding winning: ', keep=lambda o: o['rule'] == 'R03.5')


def _mk_map(ctx):
    m = Obj('HashMap', lazy=True, label='map')
    ctx.c17_maps = [m]
    return [m, Sym('key', 'char *'), Sym('keylen', 'int')]


def r171(P, u, rep):
    rep.rule('R17.1', 'a slot is claimed for a new key only after the probe has proven the key absent (reached a NULL slot or examined every slot), and every slot passed on the way was tested with match()', floor=3)
    rep.rule('R17.4', '`used` is incremented exactly when a never-used (NULL) slot is claimed, and by nothing else on the insert path', floor=2)
    rep.rule('R17.8', 'every slot that is read or written is addressed by an index the path confines to 0..capacity-1 of the same table (reduced modulo the capacity, or guarded by the loop test)', floor=3)
    # three generic probe iterations: a tombstone remembered in the second one can be reused at the NULL slot of the third
    it = L.SlotInterp(P, u, {'opaque': ['fnv_hash', 'rehash', 'match'], 'loop_limit': 3, 'track_stores': True, 'lazy_field': _lazy_field})
    paths = it.explore('get_or_insert_entry', _mk_map)
    fn = 'get_or_insert_entry'
    L.slot_obligations(rep, 'R17.8', U, fn, paths, '%s:%d' % (U, u.fn(fn).line))
    nclaim = 0
    for ctx, out in paths:
        if out[0] != 'ret':
            continue
        claims = [e for e in ctx.events if e[0] == 'fstore' and e[2] == 'key' and isinstance(e[4], Sym) and e[4].name == 'key' and e[1].tname == 'HashEntry']
        used_inc = [e for e in ctx.events if e[0] == 'fstore' and e[2] == 'used' and e[1].tname == 'HashMap']
        examined = _entries(ctx)
        ret = out[1]
        if not claims:
            # returning an existing entry: must be one whose match() was true
            ok = isinstance(ret, Obj) and _match_result(it, ctx, ret) == 1
            rep.ob('R17.1', '%s:%s:return-existing-requires-match' % (U, fn), ok,
                   'a path returns an entry without claiming it and without match() being true for it', where='%s:%d' % (U, u.fn(fn).line),
                   facts={'path': ctx.trail})
            rep.ob('R17.4', '%s:%s:no-used-change-on-hit' % (U, fn), not used_inc,
                   '`used` changes on a path that only finds an existing key', where='%s:%d' % (U, u.fn(fn).line), facts={'path': ctx.trail})
            continue
        nclaim += 1
        for c in claims:
            ent = c[1]
            own = _key_state(it, ctx, ent)
            idx = ctx.events.index(c)
            exhausted = any(e[0] == 'loop_done' and e[2] >= 1 for e in ctx.events[:idx])
            absent = exhausted or any(_key_state(it, ctx, x) == 'null' for x in examined)
            construct = 'claim-on-tombstone' if own == 'tomb' else ('claim-on-%s' % own)
            rep.ob('R17.1', '%s:%s:%s' % (U, fn, construct if not absent else 'claim-after-absence'), absent,
                   'the new key is stored into a slot (%s) while the probe has not reached a NULL slot: a later slot of the same probe sequence may still hold this key, so the table can end up with a duplicate key (delete then leaves a live copy; rehash assertion can abort)' % own,
                   where='%s:%d' % (U, u.fn(fn).line), facts={'path': ctx.trail, 'claimed_slot_state': own})
            # the slot that receives the key is one the probe has looked at and found free
            rep.ob('R17.1', '%s:%s:%s' % (U, fn, 'claimed-slot-is-free' if own in ('null', 'tomb') else 'claimed-slot-%s' % own), own in ('null', 'tomb'),
                   'the new key is stored into a slot whose key is not known to be NULL or the tombstone on this path (%s): it is not one of the slots the probe examined and found free, '
                   'so a live entry can be overwritten or the key lands where no lookup will look' % own,
                   where='%s:%d' % (U, u.fn(fn).line), facts={'path': ctx.trail, 'claimed': repr(ent), 'examined': [repr(x) for x in examined]})
            kl = [e for e in ctx.events if e[0] == 'fstore' and e[2] == 'keylen' and e[1] is ent]
            rep.ob('R17.1', '%s:%s:claim-records-keylen' % (U, fn), len(kl) >= 1 and isinstance(kl[-1][4], Sym) and kl[-1][4].name == 'keylen',
                   'a slot is claimed for the new key without recording the key\'s length in it (stored: %r): match() compares lengths first, so the key is not found again, or a longer/shorter key is taken for it' % ([e[4] for e in kl],),
                   where='%s:%d' % (U, u.fn(fn).line), facts={'path': ctx.trail})
            untested = [x for x in examined if _match_result(it, ctx, x) != 0 and x is not ent] + \
                       ([ent] if _match_result(it, ctx, ent) != 0 else [])
            rep.ob('R17.1', '%s:%s:passed-slots-tested' % (U, fn), not untested,
                   'a slot is passed or claimed without match() having been false for it', where='%s:%d' % (U, u.fn(fn).line), facts={'path': ctx.trail})
            # used accounting
            inc_ok = True
            incs = [e for e in used_inc]
            if own == 'null':
                inc_ok = len(incs) == 1 and _is_plus_one(incs[0])
                what = 'a NULL slot is claimed but `used` is not incremented exactly once'
            else:
                inc_ok = len(incs) == 0
                what = 'a slot that was not NULL (%s) is claimed and `used` changes: tombstones already count as used' % own
            rep.ob('R17.4', '%s:%s:used-on-claim-%s' % (U, fn, own), inc_ok, what, where='%s:%d' % (U, u.fn(fn).line), facts={'path': ctx.trail})
    if nclaim == 0:
        rep.undecided('R17.1', '%s:%s:no-claim-path' % (U, fn), 'no path of get_or_insert_entry stores the key parameter into a slot')
    # load test dominates the probe
    rep.rule('R17.5', 'watermarks satisfy 0 < LOW <= HIGH < 100, the load test precedes every probe of an insertion, growth doubles', floor=4)
    for ctx, out in paths:
        ev = [e for e in ctx.events if e[0] == 'call']
        names = [e[1] for e in ev]
        if 'fnv_hash' not in names:
            continue
        over = any(k[0] == 'term' and k[1] == '>=' and v for k, v in ctx.facts.items())
        if over:
            ok = 'rehash' in names and names.index('rehash') < names.index('fnv_hash')
            rep.ob('R17.5', '%s:%s:rehash-before-probe' % (U, fn), ok,
                   'load factor is at/above the high watermark but rehash() does not precede the probe', where='%s:%d' % (U, u.fn(fn).line), facts={'path': ctx.trail})


def _is_plus_one(e):
    old, new = e[3], e[4]
    from ..interp import Lin
    d = Lin.of(new)
    o = Lin.of(old)
    if d is None or o is None:
        return False
    x = d.add(o, -1) if hasattr(d, 'add') else None
    return x == 1


def r172(P, u, rep):
    rep.rule('R17.2', 'lookup ends with "absent" only at a NULL slot (never at a tombstone); match() reads through a key only after excluding NULL and the tombstone; both probe functions walk the same sequence', floor=4)
    it = L.SlotInterp(P, u, {'opaque': ['fnv_hash', 'match'], 'loop_limit': 2, 'track_stores': True, 'lazy_field': _lazy_field})
    fn = 'get_entry'
    paths = it.explore(fn, _mk_map)
    L.slot_obligations(rep, 'R17.8', U, fn, paths, '%s:%d' % (U, u.fn(fn).line))
    for ctx, out in paths:
        if out[0] != 'ret':
            continue
        ret = out[1]
        examined = _entries(ctx)
        if isinstance(ret, Obj):
            rep.ob('R17.2', '%s:%s:hit-requires-match' % (U, fn), _match_result(it, ctx, ret) == 1,
                   'get_entry returns an entry for which match() was not true', where='%s:%d' % (U, u.fn(fn).line), facts={'path': ctx.trail})
            continue
        if not examined:
            # no table yet
            rep.ob('R17.2', '%s:%s:absent-without-table' % (U, fn), True, '', where='%s:%d' % (U, u.fn(fn).line))
            continue
        last = examined[-1]
        st = _key_state(it, ctx, last)
        exhausted = any(e[0] == 'loop_done' for e in ctx.events)
        rep.ob('R17.2', '%s:%s:absent-only-at-null(%s)' % (U, fn, 'ok' if st == 'null' or exhausted else st), st == 'null' or exhausted,
               'lookup answers "absent" at a slot whose key is not known to be NULL (%s): a tombstone or live slot would hide keys stored further along the probe sequence' % st,
               where='%s:%d' % (U, u.fn(fn).line), facts={'path': ctx.trail})
        stores = [e for e in ctx.events if e[0] == 'fstore']
        rep.ob('R17.2', '%s:%s:lookup-is-read-only' % (U, fn), not stores, 'get_entry writes to the table', where='%s:%d' % (U, u.fn(fn).line))
    # match()
    it2 = Interp(P, u, {'opaque': ['memcmp'], 'lazy_field': _lazy_field})
    def mk(ctx):
        return [Obj('HashEntry', lazy=True, label='ent'), Sym('key', 'char *'), Sym('keylen', 'int')]
    mp = it2.explore('match', mk)
    seen_true = False
    for ctx, out in mp:
        if out[0] != 'ret':
            continue
        ent = None
        reads = [e for e in ctx.events if e[0] == 'call' and e[1] == 'memcmp']
        v = it2.settle(out[1])
        truthy = not (isinstance(v, int) and v == 0)
        # the entry object is the first argument: recover from the lazy cache
        # (fields were materialised on ctx-specific object) -> read from memcmp args or skip
        if reads or truthy:
            # key symbol
            ks = None
            for k in list(ctx.neq) + list(ctx.bounds):
                if k == ('sym', 'ent.key'):
                    ks = k
            ne = ctx.neq.get(('sym', 'ent.key'), ())
            ok = 0 in ne and TOMB in ne
            rep.ob('R17.2', '%s:match:key-read-guarded' % U, ok,
                   'match() compares bytes through ent->key (or answers true) on a path where the key may still be NULL or the tombstone', where='%s:%d' % (U, u.fn('match').line), facts={'path': ctx.trail})
            seen_true = seen_true or truthy
            if truthy:
                _match_true_path(it2, ctx, rep, u, v)
    if not seen_true:
        rep.undecided('R17.2', '%s:match:no-true-path' % U, 'match() has no path that can answer true')
    # same probe sequence in both functions
    seqs = {}
    for f in ('get_entry', 'get_or_insert_entry'):
        itf = L.SlotInterp(P, u, {'opaque': ['fnv_hash', 'match', 'rehash'], 'loop_limit': 3, 'lazy_field': _lazy_field})
        labels = set()
        for ctx, out in itf.explore(f, _mk_map):
            if out[0] != 'ret':
                continue
            labs = L.probe_sequence(ctx)
            if len(labs) >= 2:
                labels.add(labs[:3])
                labels.add(labs[:2])
        seqs[f] = labels
    rep.ob('R17.2', '%s:get_entry+get_or_insert_entry:same-probe-sequence' % U, bool(seqs['get_entry']) and seqs['get_entry'] == seqs['get_or_insert_entry'],
           'lookup and insertion do not visit the same slots in the same order: %r vs %r' % (sorted(seqs['get_entry']), sorted(seqs['get_or_insert_entry'])),
           where='%s:%d' % (U, u.fn('get_entry').line))
    lab = sorted(seqs['get_entry'], key=len)[-1] if seqs['get_entry'] else None
    if lab:
        rep.ob('R17.2', '%s:get_entry:probe-advances' % U, len(set(lab)) == len(lab), 'two consecutive probe iterations visit the same slot', where='%s:%d' % (U, u.fn('get_entry').line))


def _lookup_args(rep, rule, fn, ctx, u):
    for e in ctx.events:
        if e[0] == 'call' and e[1] == 'get_entry':
            a = e[2]
            ok = len(a) == 3 and isinstance(a[0], Obj) and a[0].label == 'map' and getattr(a[1], 'name', None) == 'key' and getattr(a[2], 'name', None) == 'keylen'
            rep.ob(rule, '%s:%s:looks-up-same-key' % (U, fn), ok, '%s looks the entry up with other arguments than its own (map, key, keylen): %r' % (fn, a), where='%s:%d' % (U, u.fn(fn).line))


def _zero_when_true(ret, res):
    """the returned value `ret` is non-zero only if `res` is 0"""
    if isinstance(ret, Term) and is_opaque(res):
        if ret.op.startswith('cast') and ret.args:
            return _zero_when_true(ret.args[0], res)
        if ret.op == '!=' and len(ret.args) == 2 and 0 in (vkey(ret.args[0]), vkey(ret.args[1])):
            return _zero_when_true(ret.args[0] if vkey(ret.args[1]) == 0 else ret.args[1], res)
        if ret.op == '!' and vkey(ret.args[0]) == vkey(res):
            return True
        if ret.op == '==' and len(ret.args) == 2 and {vkey(ret.args[0]), vkey(ret.args[1])} == {vkey(res), 0}:
            return True
    return False


def _match_true_path(it, ctx, rep, u, ret=None):
    """a path on which match() answers true has compared the lengths and exactly keylen bytes of the two keys"""
    where = '%s:%d' % (U, u.fn('match').line)
    names = {('sym', 'ent.keylen'), ('sym', 'keylen')}
    lens = False
    for k, v in ctx.facts.items():
        if isinstance(k, tuple) and len(k) == 4 and k[0] == 'term' and k[1] in ('==', '!=') and {k[2], k[3]} == names:
            lens = lens or (v is (k[1] == '=='))
    rep.ob('R17.2', '%s:match:lengths-compared' % U, lens,
           'match() answers true on a path that has not established ent->keylen == keylen: a key that is a prefix of (or longer than) the stored key is taken for it',
           where=where, facts={'path': ctx.trail})
    cmps = [e for e in ctx.events if e[0] == 'call' and e[1] in ('memcmp', 'strncmp')]
    if not cmps:
        rep.undecided('R17.2', '%s:match:bytes-compared' % U, 'match() answers true without a memcmp/strncmp call: byte comparison not recognised')
        return
    ok = False
    for e in cmps:
        a = e[2]
        b = ctx.bounds.get(vkey(e[4])) if is_opaque(e[4]) else None
        zero = (b is not None and b[0] == b[1] == 0) or ctx.facts.get(vkey(e[4])) is False or _zero_when_true(ret, e[4])
        if len(a) == 3 and {vkey(a[0]), vkey(a[1])} == {('sym', 'ent.key'), ('sym', 'key')} and vkey(a[2]) in names and zero and e[1] == 'memcmp':
            ok = True
    rep.ob('R17.2', '%s:match:bytes-compared' % U, ok,
           'match() answers true without memcmp(ent->key, key, keylen) having been 0 (calls seen: %r)' % ([(e[1], e[2]) for e in cmps],), where=where, facts={'path': ctx.trail})


def r173(P, u, rep):
    rep.rule('R17.3', 'delete marks the slot with the tombstone sentinel (never NULL) and leaves `used` alone', floor=2)
    it = Interp(P, u, {'opaque': ['get_entry'], 'track_stores': True, 'lazy_field': _lazy_field})
    fn = 'hashmap_delete2'
    hit = False
    for ctx, out in it.explore(fn, _mk_map):
        if out[0] != 'ret':
            continue
        stores = [e for e in ctx.events if e[0] == 'fstore']
        found = any(e[0] == 'call' and e[1] == 'get_entry' and isinstance(it.settle(e[4]), Obj) for e in ctx.events)
        _lookup_args(rep, 'R17.3', fn, ctx, u)
        if found:
            hit = True
            ks = [e for e in stores if e[2] == 'key']
            ok = len(ks) == 1 and ks[0][4] == TOMB
            rep.ob('R17.3', '%s:%s:writes-sentinel' % (U, fn), ok,
                   'deleting a present key does not store the tombstone sentinel into its slot (stored: %r): NULL would cut the probe chains that pass through it' % ([e[4] for e in ks],),
                   where='%s:%d' % (U, u.fn(fn).line))
            other = [e for e in stores if e[2] != 'key']
            rep.ob('R17.3', '%s:%s:only-key-changes' % (U, fn), not other,
                   'delete changes %s: tombstones must keep counting towards the load factor' % sorted(set(e[2] for e in other)), where='%s:%d' % (U, u.fn(fn).line))
        else:
            rep.ob('R17.3', '%s:%s:absent-is-noop' % (U, fn), not stores, 'deleting an absent key writes to the table', where='%s:%d' % (U, u.fn(fn).line))
    if not hit:
        rep.undecided('R17.3', '%s:%s:no-hit-path' % (U, fn), 'no path where the entry is found')
    # NULL keys only from calloc: no store of 0 into a key field anywhere in the unit
    for f, fd in u.functions.items():
        if f == 'hashmap_test':
            continue
        for n in fd.walk():
            if n.kind == 'BinaryOperator' and n.opcode == '=' and n.inner[0].strip().kind == 'MemberExpr' and n.inner[0].strip().name == 'key':
                v = n.inner[1].int_value()
                rep.ob('R17.3', '%s:%s:no-null-key-store' % (U, f), v != 0, 'a key field is reset to NULL', where='%s:%d' % (U, n.line))


def r175(P, u, rep):
    fn = u.fn('get_or_insert_entry')
    high = low = None
    for n in fn.walk():
        if n.kind == 'BinaryOperator' and n.opcode == '>=' and 'used' in n.inner[0].src() and 'capacity' in n.inner[0].src():
            high = n.inner[1].int_value()
            mul = [m for m in n.inner[0].walk() if m.kind == 'BinaryOperator' and m.opcode == '*']
            scale = mul[0].inner[1].int_value() if mul else None
    rh = u.fn('rehash')
    grow = None
    for n in rh.walk():
        if n.kind == 'WhileStmt':
            c = n.inner[0].strip()
            if c.kind == 'BinaryOperator' and c.opcode == '>=':
                low = c.inner[1].int_value()
                mul = [m for m in c.inner[0].walk() if m.kind == 'BinaryOperator' and m.opcode == '*']
                lscale = mul[0].inner[1].int_value() if mul else None
                for m in n.inner[1].walk():
                    if m.kind == 'BinaryOperator' and m.opcode == '=' and m.inner[1].strip().kind == 'BinaryOperator' and m.inner[1].strip().opcode == '*':
                        grow = m.inner[1].strip().inner[1].int_value()
                    if m.kind == 'CompoundAssignOperator' and m.opcode == '*=':
                        grow = m.inner[1].int_value()
                    if m.kind == 'CompoundAssignOperator' and m.opcode == '<<=':
                        g = m.inner[1].int_value(); grow = (1 << g) if g is not None else None
    if high is None or low is None:
        rep.undecided('R17.5', '%s:watermarks' % U, 'could not recover the load tests (high=%r low=%r)' % (high, low))
        return
    rep.ob('R17.5', '%s:get_or_insert_entry:high-watermark' % U, scale == 100 and 0 < high < 100,
           'high watermark %r/%r is not a proper fraction: the table could fill up completely and the probe loops reach unreachable()' % (high, scale), where='%s:%d' % (U, fn.line))
    rep.ob('R17.5', '%s:rehash:low-watermark' % U, lscale == 100 and 0 < low <= high,
           'low watermark %r/%r is not in (0, high=%r]: a rehash would leave the table at or above the high watermark' % (low, lscale, high), where='%s:%d' % (U, rh.line))
    rep.ob('R17.5', '%s:rehash:growth' % U, grow is not None and grow >= 2, 'capacity growth step is %r (loop would not terminate or not make room)' % grow, where='%s:%d' % (U, rh.line))
    # initial capacity
    init = None
    for n in fn.walk():
        if n.kind == 'BinaryOperator' and n.opcode == '=' and n.inner[0].strip().kind == 'MemberExpr' and n.inner[0].strip().name == 'capacity':
            init = n.inner[1].int_value()
    rep.ob('R17.5', '%s:get_or_insert_entry:initial-capacity' % U, init is not None and init >= 2 and (init * high) // 100 >= 1,
           'initial capacity %r' % init, where='%s:%d' % (U, fn.line))
    # rehash copies exactly the live entries
    it = L.SlotInterp(P, u, {'opaque': ['hashmap_put2', 'strlen'], 'loop_limit': 1, 'track_stores': True, 'lazy_field': _lazy_field,
                             'noreturn': ['error', 'exit', 'abort']})
    it.models['__assert_fail'] = lambda it_, ctx, n, args: None
    def mk(ctx):
        return _mk_map(ctx)[:1]
    nput = 0
    rpaths = it.explore('rehash', mk)
    unresolved = any(isinstance(a, Term) and a.op == 'load' for ctx, out in rpaths for e in ctx.events if e[0] == 'call' and e[1] == 'hashmap_put2' for a in e[2])
    L.slot_obligations(rep, 'R17.8', U, 'rehash', rpaths, '%s:%d' % (U, rh.line))
    for ctx, out in rpaths:
        if out[0] != 'ret':
            continue
        puts = [e for e in ctx.events if e[0] == 'call' and e[1] == 'hashmap_put2']
        if any(isinstance(a, Term) and a.op == 'load' for e in puts for a in e[2]):
            nput += 1
            rep.undecided('R17.5', '%s:rehash:copy-source' % U, 'the entry handed to hashmap_put2 is read through a pointer the interpreter does not resolve to a slot')
            continue
        for e in puts:
            nput += 1
            k = e[2][1]
            kk = vkey(k)
            ne = ctx.neq.get(kk, ())
            rep.ob('R17.5', '%s:rehash:copies-live-only' % U, 0 in ne and TOMB in ne,
                   'rehash re-inserts a slot whose key may be NULL or the tombstone', where='%s:%d' % (U, rh.line), facts={'path': ctx.trail})
            # the copy carries the entry's own (key, keylen, val)
            src = [o for o in _all_entries(ctx) if o.meta.get('orig_key') is k]
            a = e[2]
            same = len(src) == 1 and len(a) == 4 and 'keylen' in src[0].fields and 'val' in src[0].fields and \
                vkey(a[2]) == vkey(src[0].fields['keylen']) and vkey(a[3]) == vkey(src[0].fields['val'])
            what = 'length' if len(src) == 1 and len(a) == 4 and vkey(a[2]) != vkey(src[0].fields.get('keylen')) else 'value'
            rep.ob('R17.5', '%s:rehash:%s' % (U, 'copies-entry-unchanged' if same else 'copy-changes-%s' % what), same,
                   'rehash re-inserts a live entry with another key %s than the one stored in the slot (passed %r): keys that are not NUL-terminated strings (tag names point into the source text) '
                   'are then stored under a different key and every entry made before the table grew becomes absent' % (what, a[1:]),
                   where='%s:%d' % (U, rh.line), facts={'path': ctx.trail})
            rep.ob('R17.5', '%s:rehash:copies-into-new-table' % U, isinstance(e[2][0], Obj) and e[2][0].label != 'map' and not e[2][0].lazy,
                   'rehash re-inserts into the old table', where='%s:%d' % (U, rh.line))
        # a live second-loop entry must be copied
        live = [k for k, s in ctx.neq.items() if 0 in s and TOMB in s]
        if live and not puts and not unresolved:
            rep.ob('R17.5', '%s:rehash:live-entry-dropped' % U, False, 'a live entry is not copied by rehash', where='%s:%d' % (U, rh.line), facts={'path': ctx.trail})
    if nput == 0:
        rep.undecided('R17.5', '%s:rehash:no-copy-path' % U, 'rehash never calls hashmap_put2')


def r176(P, u, rep):
    rep.rule('R17.6', 'put stores the value on every path after obtaining the entry; get returns the entry\'s value; the str variants pass strlen(key)', floor=4)
    it = Interp(P, u, {'opaque': ['get_or_insert_entry', 'get_entry', 'strlen'], 'track_stores': True, 'lazy_field': _lazy_field})
    def mk(ctx):
        return [Obj('HashMap', lazy=True, label='map'), Sym('key', 'char *'), Sym('keylen', 'int'), Sym('val', 'void *')]
    n = 0
    for ctx, out in it.explore('hashmap_put2', mk):
        if out[0] != 'ret':
            continue
        n += 1
        ent = None
        for e in ctx.events:
            if e[0] == 'call' and e[1] == 'get_or_insert_entry':
                ent = it.settle(e[4]) if not isinstance(e[4], Obj) else e[4]
                a = e[2]
                rep.ob('R17.6', '%s:hashmap_put2:entry-for-same-key' % U, isinstance(a[0], Obj) and a[0].label == 'map' and getattr(a[1], 'name', None) == 'key' and getattr(a[2], 'name', None) == 'keylen',
                       'the entry is looked up with other arguments than (map, key, keylen)', where='%s:%d' % (U, u.fn('hashmap_put2').line))
        st = [e for e in ctx.events if e[0] == 'fstore' and e[2] == 'val']
        ok = ent is not None and len(st) >= 1 and st[-1][1] is ent and getattr(st[-1][4], 'name', None) == 'val'
        rep.ob('R17.6', '%s:hashmap_put2:stores-val' % U, ok, 'a path of hashmap_put2 returns without storing the new value into the entry (last write would not win)', where='%s:%d' % (U, u.fn('hashmap_put2').line), facts={'path': ctx.trail})
    for ctx, out in it.explore('hashmap_get2', _mk_map):
        if out[0] != 'ret':
            continue
        ent = None
        for e in ctx.events:
            if e[0] == 'call' and e[1] == 'get_entry':
                ent = it.settle(e[4])
        _lookup_args(rep, 'R17.6', 'hashmap_get2', ctx, u)
        v = out[1]
        if isinstance(ent, Obj):
            ok = ent.fields.get('val') is v and v is not None
            rep.ob('R17.6', '%s:hashmap_get2:returns-entry-val' % U, ok, 'lookup of a present key does not return the entry\'s value', where='%s:%d' % (U, u.fn('hashmap_get2').line))
        else:
            rep.ob('R17.6', '%s:hashmap_get2:absent-is-null' % U, isinstance(v, int) and v == 0, 'lookup of an absent key does not return NULL', where='%s:%d' % (U, u.fn('hashmap_get2').line))
    for wrap, target in (('hashmap_get', 'hashmap_get2'), ('hashmap_put', 'hashmap_put2'), ('hashmap_delete', 'hashmap_delete2')):
        it3 = Interp(P, u, {'opaque': [target, 'strlen']})
        def mk3(ctx):
            return [Obj('HashMap', lazy=True, label='map'), Sym('key', 'char *'), Sym('val', 'void *')]
        for ctx, out in it3.explore(wrap, mk3):
            calls = [e for e in ctx.events if e[0] == 'call' and e[1] == target]
            ok = len(calls) == 1 and isinstance(calls[0][2][0], Obj) and getattr(calls[0][2][1], 'name', None) == 'key' and \
                'strlen#' in repr(calls[0][2][2]) and any(e[0] == 'call' and e[1] == 'strlen' and getattr(e[2][0], 'name', None) == 'key' for e in ctx.events)
            if target == 'hashmap_put2':
                ok = ok and getattr(calls[0][2][3], 'name', None) == 'val'
            rep.ob('R17.6', '%s:%s:forwards(map,key,strlen(key))' % (U, wrap), ok, '%s does not forward (map, key, strlen(key)%s) to %s' % (wrap, ', val' if target == 'hashmap_put2' else '', target), where='%s:%d' % (U, u.fn(wrap).line))


def r177(P, rep):
    rep.rule('R17.7', 'the macro table is written only by add_macro/undef_macro, read only by find_macro; redefinition installs a fresh Macro; -D/-U are applied in argv order by the one option loop; no other table is ever deleted from', floor=6)
    writers = {}
    deleters = {}
    readers = {}
    for un in P.unit_names:
        u = P.unit(un)
        for fname, fd in u.functions.items():
            if un == 'hashmap.c':
                continue
            for c in fd.calls():
                cal = c.callee()
                if cal in ('hashmap_put', 'hashmap_put2', 'hashmap_delete', 'hashmap_delete2', 'hashmap_get', 'hashmap_get2'):
                    a0 = c.args()[0].src() if c.args() else '?'
                    if cal.startswith('hashmap_delete'):
                        deleters.setdefault(a0, set()).add((un, fname, c.line))
                    if a0 == '&macros':
                        if cal.startswith('hashmap_get'):
                            readers.setdefault(a0, set()).add((un, fname, c.line))
                        else:
                            writers.setdefault(a0, set()).add((un, fname, c.line, cal))
    # keys that are token text (pointer into the source buffer + length) are not NUL-terminated: only the length-taking variants may see them
    nstr = 0
    for un in P.unit_names:
        uu = P.unit(un)
        for fname, fd in uu.functions.items():
            if un == 'hashmap.c' and fname == 'hashmap_test':
                continue
            for c in fd.calls(('hashmap_put', 'hashmap_get', 'hashmap_delete')):
                a = c.args()
                if len(a) < 2:
                    continue
                nstr += 1
                k = a[1].strip_all()
                unterminated = None
                if k.kind == 'MemberExpr' and k.name == 'loc':
                    unterminated = 'token text (`->loc`)'
                elif un == 'hashmap.c' and k.kind == 'MemberExpr' and k.name == 'key':
                    unterminated = 'a stored key, whose length is in `keylen`'
                rep.ob('R17.7', '%s:%s:%s' % (un, fname, 'strlen-variant-on-terminated-key' if not unterminated else 'strlen-variant-on-%s' % k.name), not unterminated,
                       '%s is given %s as key: its length is re-derived with strlen(), but such a key is not a NUL-terminated string of that length, so the entry is stored/looked up under a different key' % (c.callee(), unterminated),
                       where='%s:%d' % (un, c.line))
    if nstr == 0:
        rep.undecided('R17.7', 'hashmap-clients:no-strlen-variant-call', 'no call of hashmap_put/get/delete found')
    w = writers.get('&macros', set())
    if not w:
        rep.undecided('R17.7', 'preprocess.c:macros:no-writer', 'no writer of the macro table found')
        return
    for (un, fname, line, cal) in sorted(w):
        want = 'add_macro' if cal.startswith('hashmap_put') else 'undef_macro'
        rep.ob('R17.7', '%s:%s:macro-table-writer' % (un, fname), fname == want, 'the macro table is modified (%s) outside %s' % (cal, want), where='%s:%d' % (un, line))
    for (un, fname, line) in sorted(readers.get('&macros', set())):
        rep.ob('R17.7', '%s:%s:macro-table-reader' % (un, fname), fname in ('find_macro', 'include_file'), 'the macro table is read outside find_macro', where='%s:%d' % (un, line))
    for a0, s in deleters.items():
        for (un, fname, line) in sorted(s):
            rep.ob('R17.7', '%s:%s:delete-only-macros' % (un, fname), a0 == '&macros' and fname == 'undef_macro', 'a name table other than the macro table (%s) is deleted from' % a0, where='%s:%d' % (un, line))
    # the `#pragma once` memo: a key is in that table only because the directive was seen in that file
    try:
        from . import c10
        from ..lib_c10 import Toks as _TM, register_nested_enums as _rne
    except ImportError:
        c10 = None
    pu = P.unit('preprocess.c')
    once = set()
    if c10 is not None:
        try:
            once = {str(t).lstrip('&') for t in c10._pragma_once_tables(P, pu, _TM(pu))}
        except Exception as e:
            rep.undecided('R17.7', 'preprocess.c:pragma-once-table', 'the table written by `#pragma once` could not be identified: %s' % e)
    if once:
        nput = 0
        for fname, fd in pu.functions.items():
            for c in fd.calls():
                if c.callee() in ('hashmap_put', 'hashmap_put2') and c.args() and c.args()[0].src().lstrip('&') in once:
                    nput += 1
                    def in_arm(n, fn_name, depth=0):
                        for a in n.ancestors():
                            if a.kind == 'IfStmt':
                                lits = {x.str_value() for x in a.inner[0].walk() if x.kind == 'StringLiteral'}
                                if 'once' in lits:
                                    return True
                        # an extracted helper: every call of it sits in the directive arm
                        sites = [s for g, gd in pu.functions.items() for s in gd.calls(fn_name)]
                        return depth < 3 and bool(sites) and all(in_arm(s, s.enclosing('FunctionDecl').name if s.enclosing('FunctionDecl') else None, depth + 1) for s in sites)
                    guarded = in_arm(c, fname)
                    rep.ob('R17.7', 'preprocess.c:%s:pragma-once-table-writer' % fname, guarded,
                           'the `#pragma once` table (%s) gets a key outside the `#pragma once` directive arm: a lookup then finds a key no directive put there (e.g. a file skipped once because its guard macro was defined stays skipped after #undef)' % c.args()[0].src(),
                           where='preprocess.c:%d' % c.line)
        if nput == 0:
            rep.undecided('R17.7', 'preprocess.c:pragma-once-table', 'no writer of the `#pragma once` table found')
    # order of the first writers: predefined macros, then the command line (so that -U deletes and -D overwrites a predefined name)
    try:
        from ..report import Report, reissue
        from . import c10 as _c10
        sub = Report('C10')
        _c10.r109_macro_table_order(P, sub)
        reissue(rep, 'R17.7', sub, 'a deletion (-U) or a later definition (-D) would not be the last operation on its name: ')
    except ImportError:
        pass
    # add_macro installs a fresh, fully initialised Macro
    pu = P.unit('preprocess.c')
    if 'add_macro' not in pu.functions or 'undef_macro' not in pu.functions or 'find_macro' not in pu.functions:
        raise AnalysisBroken('add_macro/undef_macro/find_macro vanished')
    it = Interp(P, pu, {'opaque': ['hashmap_put2', 'hashmap_put', 'hashmap_get', 'hashmap_get2', 'strlen'], 'track_stores': True})
    def mk(ctx):
        return [Sym('name', 'char *'), View(__import__('sa.interp', fromlist=['Cell']).Cell([0, 1], 'is_objlike')), Obj('Token', lazy=True, label='body')]
    n = 0
    for ctx, out in it.explore('add_macro', mk):
        if out[0] != 'ret':
            continue
        puts = [e for e in ctx.events if e[0] == 'call' and e[1] in ('hashmap_put', 'hashmap_put2')]
        ok = len(puts) == 1
        fresh = False
        if ok:
            m = puts[0][2][-1]
            fresh = isinstance(m, Obj) and not m.lazy and m.label is None
            if fresh:
                nm = m.fields.get('name'); bd = m.fields.get('body')
                fresh = getattr(nm, 'name', None) == 'name' and isinstance(bd, Obj) and bd.label == 'body' and 'is_objlike' in m.fields and not m.fields.get('handler')
            keyarg = puts[0][2][1]
            ok = getattr(keyarg, 'name', None) == 'name'
        n += 1
        rep.ob('R17.7', 'preprocess.c:add_macro:installs-fresh-macro', ok and fresh,
               'add_macro does not install a freshly allocated Macro carrying exactly (name, is_objlike, body) under `name` (a reused object keeps stale fields such as the builtin handler)', where='preprocess.c:%d' % pu.fn('add_macro').line, facts={'path': ctx.trail})
    # undef_macro deletes by the same name
    ufd = pu.fn('undef_macro')
    pnames = {p.name for p in ufd.inner if p.kind == 'ParmVarDecl'}
    for c in ufd.calls(('hashmap_delete', 'hashmap_delete2')):
        k = c.args()[1].strip_all()
        ok = k.kind == 'DeclRefExpr' and k.ref_kind == 'ParmVarDecl' and k.ref_name in pnames
        if not ok and k.kind == 'MemberExpr' and k.name == 'loc':
            # the spelling of the token the argument was lexed into: every local on the way from the parameter to the token is made from the parameter
            ok = _made_from_param(ufd, k.inner[0], pnames)
        rep.ob('R17.7', 'preprocess.c:undef_macro:deletes-name', ok, 'undef_macro deletes another key than its argument (or the token its argument is lexed into)', where='preprocess.c:%d' % c.line)
    # -D / -U in one loop in argv order
    mu = P.unit('main.c')
    pa = mu.fn('parse_args')
    if pa is None:
        raise AnalysisBroken('parse_args vanished')
    loops = {}
    # a call of a main.c helper through which a writer is reached counts as a call of that writer
    callees = {f: {c.callee() for c in fd.calls()} for f, fd in mu.functions.items() if f != 'parse_args'}
    def reaches(f, targets, seen=None):
        seen = seen or set()
        if f in targets:
            return True
        if f in seen or f not in callees:
            return False
        seen.add(f)
        return any(reaches(g, targets, seen) for g in callees[f])
    for c in pa.calls():
        cal = c.callee()
        if cal is None:
            continue
        loop = c.enclosing('ForStmt')
        if cal in ('define', 'define_macro') or (cal not in ('undef_macro',) and reaches(cal, {'define', 'define_macro'})):
            loops.setdefault('define', []).append((loop.id if loop else None, c.line))
        if cal == 'undef_macro' or (cal not in ('define', 'define_macro') and reaches(cal, {'undef_macro'})):
            loops.setdefault('undef_macro', []).append((loop.id if loop else None, c.line))
    dl = set(l for l, _ in loops.get('define', []) + loops.get('define_macro', []))
    ul = set(l for l, _ in loops.get('undef_macro', []))
    ok = bool(dl) and bool(ul) and dl == ul and None not in dl and len(dl) == 1
    rep.ob('R17.7', 'main.c:parse_args:D-U-one-loop', ok,
           '-D and -U are not both applied inside the single option loop (define sites %r, undef sites %r): a later -D would not override an earlier -U or vice versa' % (loops.get('define'), loops.get('undef_macro')),
           where='main.c:%d' % pa.line)


WRITERS = ('define', 'undef_macro', 'define_macro')


def _uncast(v):
    while isinstance(v, Term) and v.op.startswith('cast') and v.args:
        v = v.args[0]
    return v


def _mentions(k, name):
    if isinstance(k, tuple):
        return any(_mentions(x, name) for x in k)
    return k == name


def r179(P, rep):
    """-D/-U on symbolic command lines: which writer is called, with which word, decided by the option word alone"""
    from ..interp import Arr, Unsupported
    rep.rule('R17.9', 'for each spelling of -D/-U (argument attached to the option word, or in the next word) with every other character of the command line unknown, the option loop '
             'calls exactly one writer of the macro table: define for -D, undef_macro for -U, with the rest of the option word (attached) or the next word (detached); '
             'the next word of a detached option is handed over without being examined', floor=4)
    mu = P.unit('main.c')
    if 'parse_args' not in mu.functions:
        raise AnalysisBroken('parse_args vanished')
    where = 'main.c:%d' % mu.fn('parse_args').line
    # helpers of main.c are followed only if a writer call can be reached through them
    callers = {f: {c.callee() for c in fd.calls()} for f, fd in mu.functions.items()}
    reach = set(WRITERS)
    changed = True
    while changed:
        changed = False
        for f, cs in callers.items():
            if f not in reach and cs & reach:
                reach.add(f); changed = True
    opaque = [f for f in mu.functions if f not in reach and f not in ('parse_args', 'take_arg')]
    want_fn = {'D': 'define', 'U': 'undef_macro'}
    for letter in ('D', 'U'):
        for form in ('detached', 'attached'):
            tag = '%s-%s' % (letter, form)
            w1, w2 = L.word(1), L.word(2)

            def mk(ctx, letter=letter, form=form, w1=w1, w2=w2):
                L.set_char(ctx, w1, 0, ord('-'))
                L.set_char(ctx, w1, 1, ord(letter))
                if form == 'detached':
                    L.set_char(ctx, w1, 2, 0)
                    ctx.neq.setdefault(w2.key(), set()).add(0)       # the next word exists
                    words = ['chibicc', w1, w2, 'a.c', 0]
                else:
                    L.exclude_char(ctx, w1, 2, 0)
                    words = ['chibicc', w1, 'a.c', 0]
                return [len(words) - 1, Arr(words, label='argv')]
            it = L.ArgvInterp(P, mu, {'cut': {w: None for w in WRITERS}, 'opaque': opaque, 'models': {'strcmp': L.m_strcmp, 'strncmp': L.m_strncmp, 'strlen': L.m_strlen},
                                'inline_other_units': False, 'loop_limit': 2,
                                'noreturn': ['error', 'error_at', 'error_tok', 'exit', '_exit', 'abort', '__assert_fail', 'usage']})
            try:
                paths = it.explore('parse_args', mk, max_paths=400)
            except AnalysisBroken as e:
                rep.undecided('R17.9', 'main.c:parse_args:%s' % tag, 'parse_args could not be followed on a symbolic `-%s` command line: %s' % (letter, e))
                continue
            if not paths:
                rep.undecided('R17.9', 'main.c:parse_args:%s' % tag, 'no feasible path of parse_args for this command line')
                continue
            bad = {}
            for ctx, out in paths:
                calls = [e for e in ctx.events if e[0] == 'call' and e[1] in WRITERS]
                shown = [(e[1], e[2]) for e in calls]
                exp_word, exp_off = (w2, 0) if form == 'detached' else (w1, 2)
                if not calls:
                    why = 'no-writer-call' if out[0] == 'ret' else 'rejected'
                    bad.setdefault(why, (ctx, 'the option has no effect on the macro table (%s)' % (out[1:3],)))
                    continue
                if len(calls) > 1:
                    bad.setdefault('several-writer-calls', (ctx, 'more than one operation is applied: %r' % (shown,)))
                    continue
                c = calls[0]
                if c[1] == 'define_macro':
                    rep.undecided('R17.9', 'main.c:parse_args:%s:writer-shape' % tag, 'define_macro is called directly; the name/value split is not followed')
                    continue
                if c[1] != want_fn[letter]:
                    bad.setdefault('calls-%s' % c[1], (ctx, '`-%s` (%s argument) ends in %s(%r): the table gets the opposite operation' % (letter, form, c[1], c[2])))
                    continue
                sp = L.split_ptr(c[2][0]) if c[2] else None
                if sp is None or sp[0] is not exp_word or sp[1] != exp_off:
                    bad.setdefault('wrong-argument', (ctx, '`-%s` (%s argument) passes %r instead of %s%s' % (letter, form, c[2], exp_word.name, '+%d' % exp_off if exp_off else '')))
                    continue
                if form == 'detached':
                    keys = list(ctx.facts) + list(ctx.bounds) + list(ctx.neq) + [vkey(s) for (s, o, w) in getattr(ctx, 'c17_differs', [])]
                    if any(_mentions(k, w2.name) for k in keys if k != w2.key()):
                        bad.setdefault('argument-word-examined', (ctx, 'the word after `-%s` is examined (%s) before/after being handed over as the macro argument: what is done with the option depends on the spelling of the macro name' % (letter, L.describe(ctx, w2) or 'compared')))
            rep.ob('R17.9', 'main.c:parse_args:%s' % tag, not bad, '%d kind(s) of wrong handling: %s' % (len(bad), ', '.join(sorted(bad))), where=where, facts={'paths': len(paths)})
            for why, (ctx, msg) in sorted(bad.items()):
                rep.ob('R17.9', 'main.c:parse_args:%s:%s' % (tag, why), False, msg + '; the name table then does not reflect the most recent command-line operation on that name',
                       where=where, facts={'path': ctx.trail[-12:], 'option word': L.describe(ctx, w1)})

    # define(): the name is the text before the first '=', the body the text after it (or "1")
    if 'define' in mu.functions:
        it = Interp(P, mu, {'cut': {'define_macro': None}, 'opaque': ['strchr', 'strndup', 'strdup', 'strlen'], 'inline_other_units': False})
        res = it.explore('define', lambda ctx: [Sym('str', 'char *')])
        split = plain = 0
        for ctx, out in res:
            dm = [e for e in ctx.events if e[0] == 'call' and e[1] == 'define_macro']
            sc = [e for e in ctx.events if e[0] == 'call' and e[1] == 'strchr']
            eq = sc[0][4] if len(sc) == 1 and len(sc[0][2]) == 2 and vkey(sc[0][2][0]) == ('sym', 'str') and sc[0][2][1] == ord('=') else None
            if len(dm) != 1 or eq is None:
                rep.ob('R17.9', 'main.c:define:one-definition', False, 'define() does not look for the first `=` of its argument and define exactly one macro (strchr calls %r, define_macro calls %r)' % ([e[2] for e in sc], [e[2] for e in dm]),
                       where='main.c:%d' % mu.fn('define').line)
                continue
            eqk = vkey(eq)
            has_eq = (0 in ctx.neq.get(eqk, ())) or ctx.facts.get(eqk) is True
            a = dm[0][2]
            if has_eq:
                split += 1
                nd = [e for e in ctx.events if e[0] == 'call' and e[1] == 'strndup' and e[4] is a[0]]
                from ..interp import Lin
                ln = Lin.of(_uncast(nd[0][2][1])) if nd and len(nd[0][2]) == 2 else None
                want = Lin.of(eq).add(Lin.of(Sym('str')), -1)
                name_ok = bool(nd) and vkey(nd[0][2][0]) == ('sym', 'str') and ln is not None and vkey(ln if not isinstance(ln, int) else ln) == vkey(want)
                body = Lin.of(_uncast(a[1])) if is_opaque(a[1]) else None
                body_ok = body is not None and vkey(body.add(Lin.of(eq), -1)) == 1
                rep.ob('R17.9', 'main.c:define:name-is-text-before-equals', name_ok, '`-Dname=body` defines another name than the text before the `=` (name argument %r)' % (nd[0][2] if nd else a[0],), where='main.c:%d' % mu.fn('define').line)
                rep.ob('R17.9', 'main.c:define:body-is-text-after-equals', body_ok, '`-Dname=body` gives the macro another body than the text after the `=` (%r)' % (a[1],), where='main.c:%d' % mu.fn('define').line)
            else:
                plain += 1
                rep.ob('R17.9', 'main.c:define:plain-name-defined-as-1', vkey(a[0]) == ('sym', 'str') and a[1] == '1', '`-Dname` does not define `name` as 1 (define_macro%r)' % (tuple(a),), where='main.c:%d' % mu.fn('define').line)
        if not split or not plain:
            rep.undecided('R17.9', 'main.c:define:shape', 'define() has no path for an argument %s `=`' % ('with' if not split else 'without'))


def r1722(P, rep):
    """the tables of one Scope record are taken over together (all table members, like into like, same conditions, before any insertion)"""
    from .. import lib_c17_copy as LC
    _borrow(rep, 'R17.22', 'parse.c:table-seeding', lambda: LC.r1722(P, rep, 'R17.22'))


def r1720(P, rep):
    """a declaration is a write to the dictionary of the current scope: "after a declaration of N in scope S, a lookup of N from S answers that declaration"
    needs the insertion on EVERY path on which the declaring function completes the declarator, not on some.  Must-analysis over the structured code
    of parse.c (lib_c17_decl): from each declarator() whose identifier the function enters somewhere, every path enters it before it returns, starts the
    next declarator or changes the current scope - unless the path has established that a table lookup of the identifier hit AND that the current
    scope is the only scope of the chain (then the binding found IS the current scope's binding: a file-scope redeclaration of a function)"""
    from ..lib_c17_decl import DeclFlow
    rep.rule('R17.20', 'after a declaration of an identifier in scope S a lookup from S answers that declaration, on every path: in each function of parse.c that hands the name of a declarator() result to an insertion into the current scope, every path from the declarator to the return / the next declarator / a change of the current scope performs such an insertion, or has established both that a scope-table lookup of the identifier hit and that the current scope has no enclosing scope; a helper that enters its name parameter on some path enters it on all', floor=6)
    U2 = 'parse.c'
    pu = P.unit(U2)
    S = L.ScopeTables(pu)
    DF = DeclFlow(S)
    HOW = {'return': 'returns', 'next-declarator': 'goes on to the next declarator', 'end-of-iteration': 'goes on to the next declarator (end of the loop iteration)', 'scope-change': 'changes the current scope'}
    for f in sorted(DF.may_enter):
        fd = pu.fn(f)
        ps = S._params[f]
        for i in sorted(DF.may_enter[f]):
            pname = S._decl[f][ps[i]].name if i < len(ps) else '?'
            rep.ob('R17.20', '%s:%s:enters-parameter-%s-on-every-path' % (U2, f, pname), i in DF.entering.get(f, ()) or i in DF.entering_unless_outermost.get(f, ()),
                   '%s() enters the name `%s` into the current scope\'s table on some paths only: a declaration made through it is sometimes not recorded, and the identifier keeps denoting what an enclosing scope (or an earlier declaration) bound it to' % (f, pname),
                   where='%s:%d' % (U2, fd.line))
    decl = DF.declaring()
    for f in sorted(decl):
        fd = pu.fn(f)
        where = '%s:%d' % (U2, fd.line)
        r = DF.flow(f, 'declare', declared=decl[f])
        if r == 'goto' or r is None:
            rep.undecided('R17.20', '%s:%s:declared-identifier-entered' % (U2, f), 'the function uses goto (or has no body): the structured must-analysis does not apply', where=where)
            continue
        kinds = {}
        for how, node, D in r:
            kinds.setdefault(how, node)
        rep.ob('R17.20', '%s:%s:declared-identifier-entered-on-every-path' % (U2, f), not kinds,
               '%s() completes a declarator and on some path %s without having entered the identifier into the current scope' % (f, ' / '.join(HOW[h] for h in sorted(kinds))), where=where)
        for how, node in sorted(kinds.items(), key=lambda x: x[0]):
            rep.ob('R17.20', '%s:%s:declaration-not-entered-before/%s' % (U2, f, how), False,
                   'on a path of %s() that completes a declarator the function %s and the identifier has not been entered into the table of the current scope (the insertion is conditional on something else than '
                   '"a lookup of this identifier hit and the current scope has no enclosing scope"): after the declaration a lookup from this scope still answers an older binding of the name - '
                   '`int f(int x){return x+1;} int g(int f){ {int f(int); return f(1);} }` calls through the parameter - the most recent declaration does not win' % (f, HOW[how]),
                   where='%s:%d' % (U2, node.line))
    if len(decl) < 3:
        rep.undecided('R17.20', '%s:declaring-functions' % U2, 'only %d function(s) found that enter the name of a declarator() result into the current scope (%s): the declaring functions are not recognised any more' % (len(decl), ', '.join(sorted(decl))))


def r1721(P, rep):
    """the history of the macro table is the sequence of #define/#undef lines: an operation whose name is not on the directive's own line is an operation
    that no directive of the source names.  A directive ends with its line; `#define` / `#undef` / `#ifdef` / `#ifndef` with nothing after the directive
    name must be diagnosed, not applied to the first token of the next line (lib_c17_dirname: the dispatcher explored on `# d` <newline> `M y`)"""
    from ..lib_c17_dirname import directive_name_facts
    rep.rule('R17.21', 'the macro name that #define enters, #undef deletes and #ifdef/#ifndef look up is a token of the directive\'s own line: on `#define` / `#undef` / `#ifdef` / `#ifndef` followed directly by a newline every path of the dispatcher ends in a diagnostic, none hands the first token of the next line (or its spelling) to read_macro_definition / undef_macro / find_macro or to a table operation', floor=4)
    u = P.unit('preprocess.c')

    def go():
        for d, construct, ok, msg, line in directive_name_facts(P, u):
            key = 'preprocess.c:preprocess2:%s-%s' % (d, construct)
            where = 'preprocess.c:%d' % line
            if ok is None:
                rep.undecided('R17.21', key, msg, where=where)
            else:
                rep.ob('R17.21', key, ok, msg, where=where)
        return True
    _borrow(rep, 'R17.21', 'preprocess.c:preprocess2:directive-name', go)
