"""C18 Source positions survive preprocessing (DESIGN.md section 3, C18)."""
from ..interp import Interp, Obj, Sym, Term, Lin, View, Cell, Arr, is_opaque, vkey, Unsupported, _Ref
from ..build import AnalysisBroken
from ..lib_c18 import (contradictory, CutInterp, INF, lin, lsub, ladd, same, byte_addr, known_byte, may_be, isnl, pinned,
                       lower_bound, events, first, after)

T = 'tokenize.c'
PP = 'preprocess.c'
CG = 'codegen.c'


def run(P, rep, tier):
    tu = P.unit(T)
    pu = P.unit(PP)
    cu = P.unit(CG)
    need = {T: ('tokenize', 'tokenize_file',
                'error_tok', 'warn_tok', 'verror_at', 'error_at', 'new_file', 'tokenize_string_literal'),
            PP: ('line_macro', 'file_macro', 'read_line_marker', 'preprocess', 'preprocess2', 'expand_macro',
                 'new_num_token', 'new_str_token', 'paste'),
            CG: ('gen_expr', 'gen_stmt', 'codegen')}
    for un, fs in need.items():
        u = P.unit(un)
        for f in fs:
            if f not in u.functions:
                raise AnalysisBroken('anchor function %s vanished from %s' % (f, un))
    rep.explanation = ('Counting and provenance invariants of source positions. The counting laws are stated over whatever computes File.contents and Token.line_no, found by what it does: '
                       'the loop that compares bytes with CR among the functions tokenize_file runs before tokenising (a filter in place, or a loop over the pieces fread/fgets/read hand over, '
                       'where a byte beyond the end of a piece has not been looked at and a CR decided there without anything carried to the next piece is a violation); '
                       'the function that stores a computed Token.line_no for tokenize() -- a pass over the contents, or a counter kept while tokenize() scans, in which case one generic iteration '
                       'of the scanning loop is explored (file-scope variables it assigns are symbols too; character classes, strncmp/strstr/strchr on the buffer are modelled; a region the scan pointer '
                       'jumps over after a search without any byte of it having been looked at, with the counter changed by a constant, is a violation; loops inside an iteration are followed for one generic iteration). '
                       'The byte loops of tokenize.c are verified per generic '
                       'iteration (loop cut at its head, every assigned variable replaced by a symbol, inner counting loops summarised), '
                       'which proves the per-iteration law for inputs of any length; __LINE__/__FILE__/#line/synthesised tokens are '
                       'decided by abstract interpretation of the handlers on lazy tokens; writers of Token.line_no by who-may-write over all units; '
                       'the .loc directive by enumerating every path of gen_expr/gen_stmt up to the first line they write for their own node, from any remembered state '
                       '(a conditional or cached .loc that looks at less than file and line is a violation; a cache over both is reported as undecided). '
                       'That the #line state is per inclusion is decided by provenance: new_file, tokenize_file and every function that reads a file are explored '
                       'from any remembered state, and each Token/File pointer they hand to a callee or return must stem from the producing call of the same path or from a parameter, '
                       'never from a static, a global or a table (R18.8). '
                       'That a diagnostic about a directive names the directive\'s line is decided on one generic iteration of the directive dispatcher entered on a `#` at the beginning of a line: '
                       'helpers are summarised per known facts about their token arguments, and a diagnostic (or a token kept for a later one) that on every explored path is located at a token '
                       'behind the end of the directive\'s line -- the continuation skip_line / copy_line hand back -- is a violation (R18.9; loops are followed for two generic iterations, '
                       'recursion is cut, so a site reached with a token on the line only beyond those bounds would be misjudged; a whole-struct copy of a token is where that token is, '
                       'and the end-of-list token a helper appends to the copied line is a judged site too). '
                       'R18.10: over the call graph of all units, the scanner functions from which the byte-level diagnostic (error_at, relative to the file-scope scanned file) is reachable are called '
                       'only from the scanner or after the caller made its token\'s file current (path-insensitive: a guarded call counts as a call). '
                       'R18.11: the number argument of every new_file call is the registering function\'s fresh number or a template file\'s number. '
                       'R18.6 also decides that the #line operand is read as decimal (strto* with base 10 on the spelling, not Token.val of the integer-constant conversion). '
                       'R18.12: every whole-Token write (struct assignment, memcpy, a helper doing so), every returned token, every token linked as next/origin or handed back through a Token ** '
                       'in preprocess.c and tokenize.c is traced through the definitions of the locals involved (flow-insensitive; a static is read through only when a plain assignment dominates the read): '
                       'a token taken from an object of static storage duration, a token made by a call outside the loop in which the overwritten token varies, or made from other tokens than the overwritten one, is a violation '
                       '(tokens reached through a pointer kept in a table -- macro bodies -- are not judged). '
                       'R18.2 also decides that a pass over the contents which hands a computed value to a callee that writes into the buffer (convert_universal_chars -> encode_utf8) has excluded the new-line on that path '
                       '(bytes such a pass stores itself are not judged); R18.6 that the #line delta is not, on every path, N minus the line of a token of the directive '
                       '(a directive ends where its new-line is), and that the line it takes for the end of the directive is the line holding the new-line of the directive: read_line_marker is run on concrete token lists over concrete file contents (no comment, a // comment, a // comment holding /*, block comments with and without new-lines, several of them, /*/ and **/, a string operand holding /*, the file ending inside the comment; `#line N` and `# N`), the tokens and the expected end line coming from a reference phase-3 scanner (C11 5.1.1.2), and the delta it stores must be the delta of a comment-free directive on that line (copy_line and the expansion pass are replaced by their specification; tails beyond these shapes are not decided). '
                       'Not decided: positions for all inputs end to end.')
    rep.assumptions += ['the output cursor of an in-place filter never overtakes its input cursor (reads see unmodified input)',
                        'no token starts at a newline character', 'calloc succeeds',
                        'R18.3 with a running counter: the spelling of a token contains no newline; a function that scans a token (returns Token *, first parameter the start) returns a token that starts there, '
                        'built by the token constructor; bytes are classified as in the C locale',
                        'R18.2 on a file read in pieces: fread/fgets/read may end a piece after any byte',
                        'R18.9: the `#` that introduces a directive is a TK_PUNCT token; the end-of-input token lies behind the last line (read_file terminates the last line with a newline) '
                        'and has no spelling; a token that begins a line (at_bol) and is reached from the `#` through next is on a later line']
    from .. import lib_c18b
    for rule, f, args in (('R18.1', r181, (P, tu, rep)), ('R18.2', r182, (P, tu, rep)), ('R18.3', r183, (P, tu, rep))) + lib_c18b.rest(P, rep):
        try:
            f(*args)
        except AnalysisBroken as e:      # includes Unsupported: this rule cannot be decided, the others still are
            rep.undecided(rule, 'engine:%s' % f.__name__, 'the analysis cannot interpret a construct this rule needs: %s' % e)
        except (KeyError, TypeError, AttributeError, IndexError, ValueError) as e:      # a shape the rule's decoding did not foresee: undecided, never a verdict
            rep.undecided(rule, 'engine:%s' % f.__name__, 'the analysis met a shape it does not understand (%s: %s)' % (type(e).__name__, e))


# ------------------------------------------------------------------------------------------
# generic analysis of an in-place filter loop
class Filt:
    """one path of a cut filter loop, decoded"""
    pass


def _assume_counters(it, ctx, head):
    for k, v in head.items():
        if isinstance(v, Sym) and (v.ctype or '').strip() in ('int', 'long', 'unsigned int', 'size_t', 'unsigned long'):
            ctx.bounds[v.key()] = [0, INF]


def _head_syms(head):
    return {v.key(): name for name, v in head.items() if isinstance(v, Sym)}


def _cursor_of(addr, hs):
    """name of the unique loop variable occurring in an address, else None"""
    l = lin(addr)
    if l is None:
        return None
    names = [hs[k] for k in l.terms if k in hs]
    if len(names) != 1:
        return None
    return names[0]


def decode(ctx, out):
    """decode a path of a cut filter loop into consumed/written bytes. returns Filt or a string (reason undecidable)"""
    le = first(ctx, 'loop_entry')
    lh = first(ctx, 'loop_head')
    if le is None or lh is None:
        return 'no loop was reached'
    f = Filt()
    f.entry = le[1]
    f.head = lh[1]
    f.loop_line = lh[2]
    hs = _head_syms(f.head)
    evs = after(ctx, 'loop_head')
    f.kind = 'iter' if out[0] == 'noreturn' and out[1] == '@iter_end' else ('exit' if (out[0] == 'ret' or (out[0] == 'noreturn' and out[1] == '@loop_exit')) else 'other')
    if f.kind == 'other':
        return 'path ends in %s' % (out[1],)
    f.reads = [e[1] for e in evs if e[0] == 'bread']
    f.stores = [e for e in evs if e[0] in ('bstore', 'bstore_run')]
    ie = first(ctx, 'iter_end')
    xe = first(ctx, 'loop_exit')
    fe = first(ctx, 'fn_end')
    f.end = ie[1] if ie is not None else (fe[1] if fe is not None else (xe[1] if xe is not None else None))
    f.exit_how = xe[2] if xe is not None else None
    f.exit_state = xe[1] if xe is not None else None
    if f.end is None:
        return 'no end state'
    rc = set(_cursor_of(a, hs) for a in f.reads)
    wc = set(_cursor_of(e[1], hs) for e in f.stores[:1])
    for e in f.stores[1:]:
        l = lin(e[1])
        if wc and None not in wc and (l is None or list(wc)[0] not in [hs.get(k) for k in l.terms]):
            wc.add(None)
    f.rcur = f.wcur = None
    if None in rc or None in wc:
        return 'a buffer access is not relative to exactly one loop variable'
    if len(rc) > 1 or len(wc) > 1:
        return 'more than one cursor variable for reads (%s) or writes (%s)' % (sorted(rc), sorted(wc))
    f.rcur = rc.pop() if rc else None
    f.wcur = wc.pop() if wc else None
    return f


def decode_all(paths):
    """decode every path; cursors missing on a path (it does not read / does not write) are taken from the other paths"""
    ds = [(ctx, out, decode(ctx, out)) for ctx, out in paths]
    ds = [(ctx, out, d) for (ctx, out, d) in ds if isinstance(d, str) or not any(contradictory(ctx, Term('byte', a)) for a in d.reads)]
    rc = set(d.rcur for _, _, d in ds if not isinstance(d, str) and d.rcur)
    wc = set(d.wcur for _, _, d in ds if not isinstance(d, str) and d.wcur)
    for _, _, d in ds:
        if isinstance(d, str):
            continue
        if len(rc) == 1 and d.rcur is None:
            d.rcur = list(rc)[0]
        if len(wc) == 1 and d.wcur is None:
            d.wcur = list(wc)[0]
        if len(rc) > 1 or len(wc) > 1:
            d.rcur = d.wcur = None
    return ds


def read_base(f):
    """address of the byte under the read cursor at loop head: the read with the smallest constant offset must be offset 0"""
    hv = f.head[f.rcur]
    offs = []
    base = None
    for a in f.reads:
        # a = base + hv + c ; find c by subtracting the first read
        d = lsub(a, f.reads[0])
        if not isinstance(d, int):
            return None, None
        offs.append(d)
    m = min(offs)
    base = ladd(f.reads[0], m)
    return base, sorted(set(o - m for o in offs))


def written_bytes(f):
    """list of (addr, count, value) in program order; count is a linear term"""
    out = []
    for e in f.stores:
        if e[0] == 'bstore':
            out.append((e[1], 1, e[2], e[3]))
        else:
            if len(e[3]) != 1:
                return None
            out.append((e[1], e[2], e[3][0], e[4]))
    return out


def tiling(f, wr):
    """do the stores tile [w0, w_end) in order?  True / False (certainly not) / None (cannot tell)"""
    if not wr:
        d = lsub(f.end[f.wcur], f.head[f.wcur]) if f.wcur else 0
        return True if (isinstance(d, int) and d == 0) else (None if f.wcur is None else False)
    cur = wr[0][0]
    total = 0
    sure = True
    for (a, cnt, v, line) in wr:
        d = lsub(a, cur)
        if not (isinstance(d, int) and d == 0):
            return False if isinstance(d, int) else None
        cur = ladd(cur, cnt)
        total = ladd(total, cnt)
    dw = lsub(f.end[f.wcur], f.head[f.wcur])
    dd = lsub(dw, total)
    if isinstance(dd, int):
        return dd == 0
    return None


def r181(P, u, rep):
    fn = 'remove_backslash_newline'
    rep.rule('R18.1', 'remove_backslash_newline (or whatever loop splices lines before tokenising) conserves newlines: per generic loop iteration, newlines consumed = newlines written + change of the pending counter; '
             'the pending newlines are flushed completely at every real newline and after the loop; a byte keeps its physical line', floor=14)
    loop = None
    if fn not in u.functions:
        from ..lib_c18e import splice_sites
        sites = splice_sites(u)
        if len(sites) != 1:
            rep.undecided('R18.1', '%s:%s:anchor' % (T, fn), 'remove_backslash_newline vanished and %d loops run before tokenising compare bytes with a backslash and a newline' % len(sites))
            return
        fn, loop = sites[0]
    W = '%s:%d' % (T, u.fn(fn).line)
    if loop is None:
        it = CutInterp(P, u, {'assume': _assume_counters})
        paths = it.explore(fn, lambda ctx: [Sym('P', 'char *')])
    else:
        from ..lib_c18e import ScanInterp, explore_tolerant, feasible
        it = ScanInterp(P, u, {'assume': _assume_counters, 'cut_pred': lambda s: s.id == loop.id, 'inner_limit': 1, 'accelerate': True})
        params = u.params(fn)
        def mk(ctx):
            a, used = [], False
            for p in params:
                t = (p.type or '')
                if t.replace(' ', '').replace('const', '') == 'char*' and not used:
                    a.append(Sym('P', 'char *')); used = True
                else:
                    a.append(it.lazy_value(t, p.name or 'arg'))
            return a
        paths = [(c, o) for c, o in explore_tolerant(it, fn, mk) if feasible(c) and first(c, 'loop_head') is not None]
    base = '%s:%s' % (T, fn)
    n_iter = n_exit = 0
    seen_splice = seen_nl = seen_copy = False
    for ctx, out, f in decode_all(paths):
        if isinstance(f, str):
            rep.undecided('R18.1', base + ':shape', 'cannot decode a path of the loop: %s' % f, where=W)
            continue
        facts = {'path': ctx.trail}
        # which variable is the pending counter: the loop variable that is neither cursor
        others = [k for k in f.head if k not in (f.rcur, f.wcur)]
        if f.rcur is None or f.wcur is None or len(others) != 1 or not isinstance(f.head[others[0]], Sym):
            rep.undecided('R18.1', base + ':shape', 'expected a read cursor, a write cursor and one pending counter among the loop variables %s (read cursor %s, write cursor %s)' % (sorted(f.head), f.rcur, f.wcur), where=W)
            continue
        pend = others[0]
        n0, n1 = f.head[pend], f.end[pend]
        dn = lsub(n1, n0)
        wr = written_bytes(f)
        if wr is None:
            rep.undecided('R18.1', base + ':shape', 'summarised loop stores more than one byte per iteration', where=W)
            continue
        wnl = 0
        for (a, cnt, v, line) in wr:
            wnl = ladd(wnl, lin(isnl(ctx, v)).scale(1) if isinstance(cnt, int) and cnt == 1 else _scale(isnl(ctx, v), cnt))
            if wnl is None:
                break
        if wnl is None or dn is None:
            rep.undecided('R18.1', base + ':shape', 'newline count of the written bytes is not linear', where=W)
            continue
        if f.kind == 'iter':
            n_iter += 1
            dr = lsub(f.end[f.rcur], f.head[f.rcur])
            rb, offs = read_base(f)
            if not isinstance(dr, int) or dr < 1 or rb is None or offs[0] != 0:
                rep.undecided('R18.1', base + ':shape', 'read cursor advance of an iteration is not a positive constant (%r)' % (dr,), where=W)
                continue
            consumed = [Term('byte', ladd(rb, k)) for k in range(dr)]
            if any(known_byte(ctx, b) == 13 for b in consumed):
                rep.undecided('R18.1', base + ':shape', 'the splice loop also handles CR: an iteration that consumes a CR is a line end of its own kind, the newline balance of this rule does not cover it', where=W)
                continue
            cnl = 0
            for b in consumed:
                cnl = ladd(cnl, isnl(ctx, b))
            resid = lsub(lsub(cnl, wnl), dn)
            pr = pinned(ctx, resid)
            kinds = [known_byte(ctx, b) for b in consumed]
            shape = _shape(ctx, consumed, wr)
            key = base + ':conservation/' + shape
            rep.ob('R18.1', key, pr == 0,
                   'an iteration that consumes %s reads %s newline(s), writes %s and changes the pending counter by %s: the output gains or loses %s line(s) per occurrence, so every later token of the file is numbered wrongly' % (
                       _show(kinds), cnl, wnl, dn, resid), where='%s:%d' % (T, wr[0][3] if wr else f.loop_line), facts=facts)
            # tiling of the output
            tl = tiling(f, wr) if f.wcur else (True if not wr else None)
            if tl is None:
                rep.undecided('R18.1', base + ':output-contiguous/' + shape, 'cannot relate the stores to the advance of the write cursor', where=W)
            else:
                rep.ob('R18.1', base + ':output-contiguous/' + shape, tl,
                       'the bytes stored in an iteration do not exactly fill the range the write cursor advances over (a stored byte is overwritten later or a stale byte is kept)', where=W, facts=facts)
            # complete flush at a real newline
            wn = pinned(ctx, wnl)
            if (wn is not None and wn >= 1) or (wn is None and (lower_bound(ctx, wnl) or 0) >= 1):
                seen_nl = True
                rep.ob('R18.1', base + ':flush-complete-at-newline', pinned(ctx, n1) == 0,
                       'after an iteration that writes a newline the pending counter is %s, not 0: only part of the removed newlines is re-inserted at the end of a continued line, so the lines after a logical line spliced from 3+ physical lines are numbered too low' % (n1,),
                       where='%s:%d' % (T, wr[0][3]), facts=facts)
            if dr >= 2 and not wr:
                seen_splice = True
            # pending never negative (invariant used above)
            lb = lower_bound(ctx, n1)
            if lb is None or lb < 0:
                rep.undecided('R18.1', base + ':pending-nonnegative/' + shape, 'cannot establish that the pending counter stays >= 0 (%s)' % (n1,), where=W)
            # a copied non-newline byte must land on its own line: pending must be 0
            copied = [w for w in wr if byte_addr(w[2]) is not None and not may_be(ctx, w[2], 10)]
            if copied:
                seen_copy = True
                rep.ob('R18.1', base + ':byte-copied-while-newlines-pending', pinned(ctx, n0) == 0,
                       'an ordinary byte is copied to the output while removed newlines may still be pending: the text of a continuation line is placed on the line of the first physical line, so __LINE__ and diagnostics on a continuation line report the wrong (earlier) physical line',
                       where='%s:%d' % (T, copied[0][3]), facts=facts)
        elif out[0] == 'noreturn' and out[1] == '@loop_exit':
            n_exit += 1          # the loop works on one piece of the file: what is pending is carried to the next piece, the end of the file is not seen here
            rep.ob('R18.1', base + ':nothing-written-at-the-end-of-a-piece', not wr and isinstance(dn, int) and dn == 0,
                   'leaving the loop over a piece of the file writes %r and changes the pending counter by %s' % ([w[2] for w in wr], dn), where=W, facts=facts)
            # what is pending when a piece ends must reach the next piece: the counter has to outlive the loop over the pieces
            outer = loop
            for a in loop.ancestors():
                if a.kind in ('ForStmt', 'WhileStmt', 'DoStmt'):
                    outer = a
            local = any(d.kind == 'VarDecl' and d.name == pend and d.d.get('storageClass') != 'static' for d in outer.walk())
            rep.ob('R18.1', base + ':pending-survives-the-end-of-a-piece', (not local) or pinned(ctx, n1) == 0,
                   'the pending counter %s is declared inside the loop over the pieces of the file and may be %s when a piece ends: the newlines removed from a logical line that '
                   'continues in the next piece are lost, every later line of the file is numbered too low' % (pend, n1), where=W, facts=facts)
        else:
            n_exit += 1
            resid = lsub(lsub(0, wnl), dn)
            rep.ob('R18.1', base + ':flush-after-loop/conservation', pinned(ctx, resid) == 0,
                   'after the loop %s newline(s) are written while the pending counter changes by %s' % (wnl, dn), where=W, facts=facts)
            rep.ob('R18.1', base + ':flush-after-loop/complete', pinned(ctx, n1) == 0,
                   'at the end of the function the pending counter is %s, not 0: newlines removed from the last logical line are lost (the EOF token is numbered too low)' % (n1,), where=W, facts=facts)
            # terminator behind everything written
            last = wr[-1] if wr else None
            okt = last is not None and last[2] == 0 and f.wcur is not None and same(last[0], _addr_of(f, wr, f.end[f.wcur]))
            rep.ob('R18.1', base + ':terminator-after-flush', okt,
                   'the NUL terminator is not stored at the final write position (pending newlines written behind it are cut off, or stale text stays in the buffer)', where=W, facts=facts)
    # entry state establishes the invariant
    for ctx, out, f in decode_all(paths)[:1]:
        if not isinstance(f, str):
            rep.ob('R18.1', base + ':initial-state', _initial_ok(f), 'read and write cursor do not both start at the first byte of the buffer, or the pending counter does not start at 0: %r' % (f.entry,), where=W)
    if not (n_iter >= 3 and n_exit >= 1 and seen_splice and seen_nl and seen_copy):
        rep.undecided('R18.1', base + ':liveness', 'expected splice, newline and copy iterations and an exit path (iterations %d, exits %d, splice %s, newline %s, copy %s)' % (n_iter, n_exit, seen_splice, seen_nl, seen_copy), where=W)


def _initial_ok(f):
    for k, v in f.entry.items():
        if k in (f.rcur, f.wcur):
            if not ((isinstance(v, int) and v == 0) or (isinstance(v, Sym) and (v.name == 'P' or v.name.startswith('chunk#')))):      # the buffer, or the piece fread handed over
                return False
        elif not (isinstance(v, int) and v == 0):
            return False
    return f.rcur in f.entry and (f.wcur in f.entry)


def _stamp_fact(key, val, p0k):
    """truth of `scan pointer == <token>.loc` expressed by a recorded fact, else None"""
    if not (isinstance(key, tuple) and key and key[0] == 'term'):
        return None
    if key[1] in ('==', '!=') and len(key) == 4:
        a, b = key[2], key[3]
        other = b if a == p0k else (a if b == p0k else None)
        if other is not None and isinstance(other, tuple) and other[0] == 'sym' and other[1].endswith('.loc'):
            return val if key[1] == '==' else (not val)
        if b == 0 or a == 0:
            inner = a if b == 0 else b
            r = _stamp_fact(inner, val if key[1] == '!=' else (not val), p0k)
            return r
    return None


def _scale(v, cnt):
    """v * cnt where one of them is an int"""
    if isinstance(v, int):
        l = lin(cnt)
        return l.scale(v) if l is not None else None
    if isinstance(cnt, int):
        return lin(v).scale(cnt)
    return None


def _addr_of(f, wr, wend):
    """address corresponding to the final value of the write cursor: first store address + (wend - w0)"""
    w0 = f.head[f.wcur]
    first_addr = wr[0][0]
    # first store of an exit path is at the write cursor (offset 0)
    return ladd(first_addr, lsub(wend, w0))


def _show(kinds):
    names = {10: "'\\n'", 13: "'\\r'", 92: "'\\\\'", 0: 'NUL'}
    return '[' + ', '.join(names.get(k, 'a byte' if k is None else repr(chr(k))) for k in kinds) + ']'


def _shape(ctx, consumed, wr):
    """stable name of an iteration: what it consumes and what it writes"""
    names = {10: 'LF', 13: 'CR', 92: 'BSL', 0: 'NUL'}
    c = '+'.join(names.get(known_byte(ctx, b), 'byte') if known_byte(ctx, b) is not None else ('byte' if may_be(ctx, b, 10) and may_be(ctx, b, 13) else 'other') for b in consumed)
    w = []
    for (a, cnt, v, line) in wr:
        kb = known_byte(ctx, v)
        nm = names.get(kb, 'const') if kb is not None else ('copy' if byte_addr(v) is not None else 'value')
        w.append(nm if (isinstance(cnt, int) and cnt == 1) else nm + '*k')
    return '%s->%s' % (c, '+'.join(w) if w else 'nothing')


# ------------------------------------------------------------------------------------------
def r182(P, u, rep):
    from ..lib_c18e import cr_sites, mentions_cr_text
    rep.rule('R18.2', 'the contents that are tokenised have exactly one newline per source line end, for every file and every way the file is read in pieces: '
             'in whatever loop handles CR between reading the file and tokenising it (today canonicalize_newline), CR LF becomes one LF, a lone CR becomes LF -- '
             'a CR is lone only when the byte that follows it IN THE FILE was looked at and is not LF --, every other byte is copied, the result is terminated; '
             'it runs before remove_backslash_newline on the buffer that is tokenised', floor=9)
    sites, searched = cr_sites(u)
    W0 = '%s:%d' % (T, u.fn('tokenize_file').line)
    if not sites:
        from ..lib_c18e import callgraph, closure
        later = closure(callgraph(u), ['tokenize'])
        if mentions_cr_text(u, searched) or any(_compares_cr(u.functions[f]) for f in later):
            rep.undecided('R18.2', '%s:tokenize_file:CR-canonicalised' % T, 'no loop run before tokenising compares a byte with CR, but CR occurs in a string literal or in the tokenizer itself: cannot tell how CR is handled', where=W0)
        else:
            rep.ob('R18.2', '%s:tokenize_file:CR-canonicalised' % T, False,
                   'none of the functions tokenize_file() runs before tokenising (%s) compares a byte of the file with CR: CR LF line ends are not reduced to one newline '
                   '(a lone CR does not end a line, `\\` before CR LF is not a line splice)' % ', '.join(searched), where=W0)
    for fn, loop in sites:
        _r182_stage(P, u, rep, fn, loop)
    stage_fns = sorted(set(fn for fn, _ in sites))
    # order of the passes in tokenize_file
    fn2 = 'tokenize_file'
    callees = sorted(set(c.callee() for c in u.fn(fn2).walk() if c.kind == 'CallExpr' and c.callee()))
    it2 = Interp(P, u, {'opaque': callees + ['realloc', 'memcmp']})
    W2 = '%s:%d' % (T, u.fn(fn2).line)
    nret = 0
    SPL = 'remove_backslash_newline'
    if SPL not in u.functions:
        from ..lib_c18e import splice_sites
        sp = sorted(set(f for f, _ in splice_sites(u)))
        SPL = sp[0] if len(sp) == 1 else SPL
    for ctx, out in it2.explore(fn2, lambda ctx: [Sym('path', 'char *')]):
        if out[0] != 'ret':
            continue
        calls = [e for e in ctx.events if e[0] == 'call']
        names = [e[1] for e in calls]
        if 'tokenize' not in names:
            continue     # file could not be read
        nret += 1
        def call_of(nm):
            for e in calls:
                if e[1] == nm:
                    return e
            return None
        crs = [n for n in names if n in stage_fns]
        if len(set(crs)) != 1:
            if sites:
                rep.ob('R18.2', '%s:%s:passes-in-order' % (T, fn2), False,
                       'tokenize_file does not run the pass that canonicalises CR (%s) exactly once before tokenising (calls: %s)' % (', '.join(stage_fns), [n for n in names if n in u.functions]), where=W2, facts={'path': ctx.trail})
            continue
        CRF = crs[0]
        order = [n for n in names if n in (CRF, SPL, 'new_file', 'tokenize')]
        ok = order == ([CRF, SPL, 'new_file', 'tokenize'] if CRF != SPL else [CRF, 'new_file', 'tokenize'])
        if CRF == SPL:
            rep.undecided('R18.2', '%s:%s:CR-before-splice' % (T, fn2), '%s handles CR and line splices: that a backslash before CR LF is still a splice is not decided' % CRF, where=W2)
        rep.ob('R18.2', '%s:%s:passes-in-order' % (T, fn2), ok,
               'the text passes run in the order %s (expected %s, remove_backslash_newline, then tokenisation): a backslash before CR LF is then not a line splice, or a pass is skipped' % (order, CRF), where=W2, facts={'path': ctx.trail})
        ec, es = call_of(CRF), call_of(SPL)
        if CRF == SPL:
            es = None
        nf = [e for e in calls if e[1] == 'new_file']
        # the buffer the CR pass worked on: its pointer argument (a filter in place) or what it returned (the reader itself)
        cbuf = None
        if ec is not None:
            cbuf = ec[4] if (ec[4] is not None and '*' in (u.fn(CRF).type or '').split('(')[0]) else (ec[2][0] if ec[2] else None)
        b = es[2][0] if (es is not None and es[2]) else (cbuf if CRF == SPL else None)
        okb = cbuf is not None and b is not None and isinstance(lsub(b, cbuf), int) and nf and len(nf[0][2]) > 2 and \
            (vkey(nf[0][2][2]) == vkey(b) or (CRF == SPL and isinstance(lsub(nf[0][2][2], b), int)))
        rep.ob('R18.2', '%s:%s:same-buffer' % (T, fn2), bool(okb), 'the passes and the tokenizer do not work on the same buffer', where=W2, facts={'path': ctx.trail})
    if nret == 0:
        rep.undecided('R18.2', '%s:%s:no-path' % (T, fn2), 'no path of tokenize_file reaches tokenize()', where=W2)


def _compares_cr(fd):
    for n in fd.walk():
        if n.kind == 'BinaryOperator' and n.opcode in ('==', '!='):
            for x in n.inner:
                try:
                    if x.strip_all().int_value() == 13:
                        return True
                except Exception:
                    pass
        if n.kind == 'CaseStmt' and n.inner:
            try:
                if n.inner[0].strip_all().int_value() == 13:
                    return True
            except Exception:
                pass
    return False


def _r182_stage(P, u, rep, fn, loop):
    """one loop that handles CR: the per-iteration law of the filter, whether it reads a NUL-terminated buffer in place or pieces of the
    file handed over by fread (a byte beyond the end of a piece has not been looked at)"""
    from ..lib_c18e import ScanInterp, explore_tolerant, carried_state, feasible
    W = '%s:%d' % (T, u.fn(fn).line)
    base = '%s:%s' % (T, fn)
    it = ScanInterp(P, u, {'assume': _assume_counters, 'cut_pred': lambda s: s.id == loop.id, 'inner_limit': 1})
    params = u.params(fn)
    def mk(ctx):
        a, used = [], False
        for p in params:
            t = (p.type or '')
            if t.replace(' ', '').replace('const', '') == 'char*' and not used:
                a.append(Sym('P', 'char *')); used = True
            else:
                a.append(it.lazy_value(t, p.name or 'arg'))
        return a
    paths = [(c, o) for c, o in explore_tolerant(it, fn, mk) if feasible(c)]
    paths = [(c, o) for c, o in paths if first(c, 'loop_head') is not None]
    seen = set()
    state = None
    for ctx, out, f in decode_all(paths):
        if isinstance(f, str):
            rep.undecided('R18.2', base + ':shape', 'cannot decode a path of the loop: %s' % f, where=W)
            continue
        facts = {'path': ctx.trail}
        chunked = bool(getattr(ctx, 'c18', {}).get('chunk'))
        nulterm = bool(getattr(ctx, 'c18', {}).get('nulterm'))
        nested = out[0] == 'noreturn' and out[1] == '@loop_exit'
        wr = written_bytes(f)
        if wr is None or f.rcur is None or any(not (isinstance(c, int) and c == 1) for (_, c, _, _) in wr):
            rep.undecided('R18.2', base + ':shape', 'unexpected store pattern', where=W)
            continue
        extra = sorted(k for k in f.head if k not in (f.rcur, f.wcur))
        if extra:
            rep.undecided('R18.2', base + ':shape', 'the loop carries state besides its read and write cursor (%s): what an iteration writes depends on earlier bytes, '
                          'the per-iteration law of a stateless filter does not apply' % ', '.join(extra), where=W)
            break
        if f.kind == 'exit':
            if nested:
                rep.ob('R18.2', base + ':nothing-written-at-exit', not wr, 'leaving the loop over a piece of input writes %r' % ([w[2] for w in wr],), where=W, facts=facts)
            else:
                ok = len(wr) == 1 and wr[0][2] == 0 and f.wcur is not None and same(lsub(f.end[f.wcur], f.head[f.wcur]), 0)
                rep.ob('R18.2', base + ':terminator', ok, 'after the loop the NUL terminator is not stored at the write cursor (stale bytes of the longer CR LF text stay in the buffer and are tokenised)', where=W, facts=facts)
            seen.add('exit')
            continue
        dr = lsub(f.end[f.rcur], f.head[f.rcur])
        rb, offs = read_base(f)
        if not isinstance(dr, int) or dr < 1 or rb is None or offs[0] != 0:
            rep.undecided('R18.2', base + ':shape', 'read cursor advance of an iteration is not a positive constant (%r), or the loop looks behind the cursor' % (dr,), where=W)
            continue
        consumed = [Term('byte', ladd(rb, k)) for k in range(dr)]
        nxt = Term('byte', ladd(rb, dr))
        vals = [w[2] for w in wr]
        shape = _shape(ctx, consumed, wr)
        k0 = known_byte(ctx, consumed[0])
        where = '%s:%d' % (T, wr[0][3] if wr else f.loop_line)
        if chunked:
            # every byte an iteration looks at lies inside the piece fread/read handed over (what lies behind it is left over from an earlier piece)
            from ..lib_c18e import piece_overrun
            c18 = ctx.c18
            for (arr, cb) in c18['chunk'].values():
                n_ = c18['chunklen'].get(cb.key())
                if n_ is None:
                    continue
                for a in f.reads:
                    inside = piece_overrun(ctx, a, cb, n_)
                    off = lsub(a, rb)
                    if inside is False:
                        rep.ob('R18.2', base + ':reads-inside-the-piece', False,
                               'an iteration looks at the byte %s behind the read cursor without any condition of the path placing it inside the piece of the file that was read (%s bytes): '
                               'at the end of a piece it sees a byte left over from an earlier piece, not the byte that follows in the file, so a CR LF pair that straddles two pieces is miscounted' % (off, n_),
                               where=where, facts=facts)
                    elif inside is None:
                        rep.undecided('R18.2', base + ':reads-inside-the-piece', 'cannot tell whether the byte %s behind the read cursor lies inside the piece that was read' % (off,), where=where)
                    else:
                        rep.ob('R18.2', base + ':reads-inside-the-piece', True, '', where=where)
        if dr == 2 and k0 == 13 and known_byte(ctx, consumed[1]) == 10:
            seen.add('crlf')
            rep.ob('R18.2', base + ':CRLF-is-one-newline', [known_byte(ctx, v) for v in vals] == [10],
                   'CR LF is rewritten to %s instead of exactly one newline: lines of a CR/LF file are counted wrongly' % _show([known_byte(ctx, v) for v in vals]), where=where, facts=facts)
        elif dr == 1 and k0 == 13:
            seen.add('cr')
            looked = any(same(a, ladd(rb, dr)) for a in f.reads)
            if chunked and nulterm and may_be(ctx, nxt, 0):
                looked = False        # the terminator of a piece (fgets), not a byte of the file
            lone = looked and not may_be(ctx, nxt, 10)
            wrote_lf = [known_byte(ctx, v) for v in vals] == [10]
            if chunked and not looked:
                # the CR is the last byte of a piece of input: what follows it in the file is the first byte of the next piece
                if state is None:
                    state = carried_state(u, loop, exclude=(f.rcur,))[0]
                peeks = [e for e in after(ctx, 'loop_head') if e[0] == 'input']
                if not state and not peeks:
                    rep.ob('R18.2', base + ':CR-at-the-end-of-a-piece', False,
                           'a CR that is the last byte of a piece of the file (the file is read piece by piece) is rewritten to %s without the byte that follows it in the file having been looked at, '
                           'and nothing is remembered for the next piece (no variable outlives the piece): when a CR LF pair straddles the boundary the LF is copied as well, the pair yields two newlines '
                           'and every later line of the file is numbered one too high' % _show([known_byte(ctx, v) for v in vals]), where=where, facts=facts)
                else:
                    rep.undecided('R18.2', base + ':CR-at-the-end-of-a-piece', 'a CR at the end of a piece of input is handled without looking at the next byte of the file; '
                                  'whether what is carried to the next piece (%s) makes up for it is not decided' % ', '.join(sorted(state) + [e[1] for e in peeks]), where=where)
            else:
                rep.ob('R18.2', base + ':lone-CR-is-newline', lone and wrote_lf,
                       ('a CR that may be followed by LF is handled on its own: CR LF then yields two newlines' if not lone else
                        'a lone CR is rewritten to %s instead of one newline' % _show([known_byte(ctx, v) for v in vals])), where=where, facts=facts)
        elif dr == 1 and not may_be(ctx, consumed[0], 13):
            seen.add('copy')
            okc = len(vals) == 1 and byte_addr(vals[0]) is not None and same(byte_addr(vals[0]), rb)
            rep.ob('R18.2', base + ':other-byte-copied/' + shape, okc,
                   'a byte that is not CR is not copied unchanged (written: %r): newlines or text are lost or invented' % (vals,), where=where, facts=facts)
        else:
            rep.ob('R18.2', base + ':iteration/' + shape, False,
                   'an iteration consumes %s and writes %r: a byte that may be CR is not turned into a newline, or more than the CR LF pair is consumed' % (_show([known_byte(ctx, b) for b in consumed]), vals), where=where, facts=facts)
        tl = tiling(f, wr) if f.wcur else None
        if tl is None:
            rep.undecided('R18.2', base + ':output-contiguous/' + shape, 'cannot relate the stores to the advance of the write cursor', where=W)
        else:
            rep.ob('R18.2', base + ':output-contiguous/' + shape, tl, 'the bytes stored in an iteration do not exactly fill the range the write cursor advances over', where=W, facts=facts)
    for ctx, out, f in decode_all(paths)[:1]:
        if not isinstance(f, str):
            rep.ob('R18.2', base + ':initial-state', _initial_ok(f), 'read and write cursor do not both start at the first byte of the buffer: %r' % (f.entry,), where=W)
    if seen != {'crlf', 'cr', 'copy', 'exit'}:
        rep.undecided('R18.2', base + ':liveness', 'expected CR LF, lone CR, copy and exit paths, found %s' % sorted(seen), where=W)


# ------------------------------------------------------------------------------------------
def r183(P, u, rep):
    from ..lib_c18e import stamp_architecture, r183_running
    rep.rule('R18.3', 'whatever computes Token.line_no for the tokens of tokenize() (today the pass add_line_numbers): the count starts at 1 at the first byte of the file\'s contents, '
             'every newline of the contents between two tokens advances it by exactly one, whatever skips the bytes, and a token is stamped with the count at its first byte. '
             'A pass over the contents: every byte up to and including the terminating NUL is visited once; '
             'a token whose loc is the visited byte is stamped with the current count and the token cursor advances; the count grows by one exactly at a newline; '
             'tokenize() calls it on the complete list including the EOF token. A counter kept while scanning: per iteration of the scanning loop the counter grows by the number of '
             'newlines among the bytes the scan pointer moves over. error_at counts the same way', floor=14)
    arch, fn = stamp_architecture(u)
    if arch == 'running':
        r183_running(P, u, rep, fn)
        _r183_error_at(P, u, rep)
        return
    if arch != 'pass':
        rep.undecided('R18.3', '%s:tokenize:line-numbering' % T, 'cannot tell what numbers the tokens of tokenize(): %s' % (
            fn if arch == 'unclear' else 'no function reachable from tokenize() stores a computed Token.line_no'), where='%s:%d' % (T, u.fn('tokenize').line))
        _r183_error_at(P, u, rep)
        return
    W = '%s:%d' % (T, u.fn(fn).line)
    base = '%s:%s' % (T, fn)
    it = CutInterp(P, u, {'assume': None, 'track_stores': True})
    paths = it.explore(fn, lambda ctx: [Obj('Token', lazy=True, label='tok')])
    n_it = n_exit = n_stamp = 0
    for ctx, out in paths:
        le, lh = first(ctx, 'loop_entry'), first(ctx, 'loop_head')
        if le is None or lh is None or out[0] == 'noreturn' and out[1] != '@iter_end':
            rep.undecided('R18.3', base + ':shape', 'a path does not reach the scanning loop or ends in %r' % (out[1],), where=W)
            continue
        head = lh[1]
        entry = le[1]
        facts = {'path': ctx.trail}
        if any(contradictory(ctx, Term('byte', e[1])) for e in ctx.events if e[0] == 'bread'):
            continue      # infeasible combination of byte tests
        ptrs = [k for k, v in head.items() if isinstance(v, Sym) and '*' in (v.ctype or '')]
        cnts = [k for k, v in head.items() if isinstance(v, Sym) and '*' not in (v.ctype or '')]
        toks = [k for k, v in head.items() if not isinstance(v, Sym)]
        if len(ptrs) != 1 or len(cnts) != 1 or len(toks) > 1:
            rep.undecided('R18.3', base + ':shape', 'expected one scan pointer, one line counter and at most one token cursor among the loop variables %s' % sorted(head), where=W)
            continue
        pv, nv, tv = ptrs[0], cnts[0], (toks[0] if toks else None)
        p0, n0 = head[pv], head[nv]
        evs = after(ctx, 'loop_head')
        ie, xe, fe = first(ctx, 'iter_end'), first(ctx, 'loop_exit'), first(ctx, 'fn_end')
        # entry
        if n_it + n_exit == 0:
            e_p = entry.get(pv)
            rep.ob('R18.3', base + ':count-starts-at-1', entry.get(nv) == 1, 'the line counter starts at %r, not 1' % (entry.get(nv),), where=W)
            rep.ob('R18.3', base + ':scan-starts-at-contents', isinstance(e_p, Sym) and e_p.name.endswith('current_file.contents'),
                   'the scan does not start at the first byte of the current file\'s contents (%r)' % (e_p,), where=W)
        # stamp tests on this path: facts  p0 == X.loc
        tests = []
        for k, val in ctx.facts.items():
            r = _stamp_fact(k, val, vkey(p0))
            if r is not None:
                tests.append(r)
        stamps = [e for e in evs if e[0] == 'fstore' and e[2] == 'line_no']
        state = ie[1] if ie is not None else (xe[1] if xe is not None else None)
        if xe is not None and xe[2] in ('cond-at-head', 'break') and not tests:
            n_exit += 1
            rep.ob('R18.3', base + ':terminating-NUL-visited', False,
                   'the scan leaves the loop at the terminating NUL without testing whether a token starts there: the EOF token, whose loc is the NUL, keeps line_no 0, so every diagnostic at end of input is reported as line 0',
                   where='%s:%d' % (T, lh[2]), facts=facts)
            continue
        if not tests:
            rep.undecided('R18.3', base + ':shape', 'an iteration does not compare the scan pointer with a token\'s loc', where=W)
            continue
        if xe is not None:
            n_exit += 1
            rep.ob('R18.3', base + ':terminating-NUL-visited', True, '', where=W)
        else:
            n_it += 1
        stamped = tests[0]
        nl = isnl(ctx, Term('byte', p0))
        if stamped:
            n_stamp += 1
            v = stamps[0][4] if stamps else None
            d = lsub(v, n0) if v is not None else None
            okv = len(stamps) == 1 and isinstance(stamps[0][1], Obj) and (d == 0 and isinstance(d, int))
            rep.ob('R18.3', base + ':stamp-is-current-count', bool(okv),
                   'a token that starts at the visited byte gets line_no %r instead of the current count %r' % (v, n0), where=W, facts=facts)
            tend = state.get(tv) if (state and tv) else None
            tobj = stamps[0][1] if stamps else None
            nxt = tobj.fields.get('next') if isinstance(tobj, Obj) else None
            oka = nxt is not None and isinstance(tend, View) and isinstance(nxt, View) and tend.cell is nxt.cell
            if ie is not None:
                rep.ob('R18.3', base + ':token-cursor-advances', bool(oka),
                       'after stamping a token the token cursor does not move to its successor: later tokens are never stamped', where=W, facts=facts)
        else:
            rep.ob('R18.3', base + ':no-stamp-elsewhere', not stamps, 'a token is stamped although the scan pointer is not at its loc', where=W, facts=facts)
        if state is not None:
            dn = lsub(state[nv], n0)
            dp = lsub(state[pv], p0)
            resid = lsub(dn, nl)
            rep.ob('R18.3', base + ':count-per-newline/' + ('LF' if nl == 1 else ('other' if nl == 0 else 'unknown')), isinstance(resid, int) and resid == 0,
                   'visiting a byte that %s a newline changes the line count by %s' % ('is' if nl == 1 else ('is not' if nl == 0 else 'may be'), dn), where=W, facts=facts)
            if ie is not None:
                rep.ob('R18.3', base + ':one-byte-per-iteration', isinstance(dp, int) and dp == 1, 'the scan pointer advances by %s per iteration' % (dp,), where=W, facts=facts)
    if n_it < 4 or n_exit < 1 or n_stamp < 2:
        rep.undecided('R18.3', base + ':liveness', 'iterations %d, exits %d, stamping paths %d' % (n_it, n_exit, n_stamp), where=W)
    _r183_tokenize(P, u, rep, fn)
    _r183_error_at(P, u, rep)


def _r183_tokenize(P, u, rep, aln='add_line_numbers'):
    """tokenize(): current_file = file, scan from file->contents, EOF token appended, then add_line_numbers(head.next) on every returning path
    (aln: the numbering pass, whatever its name)"""
    fn = u.fn('tokenize')
    W = '%s:%d' % (T, fn.line)
    body = u.body('tokenize')
    top = body.inner
    idx_eof = idx_aln = idx_cf = None
    for i, s in enumerate(top):
        plain = s.kind in ('BinaryOperator', 'CallExpr', 'DeclStmt', 'ReturnStmt')     # not under a condition or loop
        for c in s.calls('new_token'):
            if c.args() and c.args()[0].int_value() == u.enum_value('TK_EOF') and plain:
                idx_eof = i
        if s.calls(aln) and plain:
            idx_aln = i
        x = s.strip() if hasattr(s, 'strip') else s
        if x.kind == 'BinaryOperator' and x.opcode == '=' and x.inner[0].strip().kind == 'DeclRefExpr' and x.inner[0].strip().ref_name == 'current_file':
            if idx_cf is None:
                idx_cf = i
                cf_src = x.inner[1].src()
    rets = [i for i, s in enumerate(top) if s.kind == 'ReturnStmt']
    inner_rets = [r for r in fn.find('ReturnStmt') if r.parent is not body]
    ok = idx_eof is not None and idx_aln is not None and idx_eof < idx_aln and rets and idx_aln < rets[-1] and not inner_rets
    rep.ob('R18.3', '%s:tokenize:numbers-after-EOF-token' % T, bool(ok),
           'tokenize() does not call the numbering pass unconditionally after appending the EOF token and before returning (tokens would keep line_no 0)', where=W)
    params = u.params('tokenize')
    okc = idx_cf is not None and params and cf_src == params[0].name and (idx_aln is None or idx_cf < idx_aln)
    rep.ob('R18.3', '%s:tokenize:current_file-is-the-scanned-file' % T, bool(okc),
           'tokenize() does not make its File argument the current file before scanning: new tokens and the line count would refer to another file', where=W)
    # add_line_numbers is called with the first real token
    if idx_aln is not None:
        c = top[idx_aln].calls(aln)[0]
        a = c.args()[0].src() if c.args() else ''
        rep.ob('R18.3', '%s:tokenize:numbers-whole-list' % T, a.endswith('.next') and '->' not in a, '%s is applied to %s, not to the first token of the list' % (aln, a), where='%s:%d' % (T, c.line))


def _r183_error_at(P, u, rep):
    fn = 'error_at'
    W = '%s:%d' % (T, u.fn(fn).line)
    base = '%s:%s' % (T, fn)
    it = CutInterp(P, u, {'opaque': ['verror_at', '__builtin_va_start', '__builtin_va_end'], 'noreturn': ['exit', 'error']})
    try:
        paths = it.explore(fn, lambda ctx: [Sym('loc', 'char *'), Sym('fmt', 'char *')])
    except Unsupported as e:
        rep.undecided('R18.3', base + ':shape', 'cannot interpret error_at: %s' % e, where=W)
        return
    n = 0
    for ctx, out in paths:
        le, lh = first(ctx, 'loop_entry'), first(ctx, 'loop_head')
        if le is None or lh is None:
            rep.undecided('R18.3', base + ':shape', 'no counting loop reached', where=W)
            continue
        head, entry = lh[1], le[1]
        if any(contradictory(ctx, Term('byte', e[1])) for e in ctx.events if e[0] == 'bread'):
            continue
        ptrs = [k for k, v in head.items() if isinstance(v, Sym) and '*' in (v.ctype or '')]
        cnts = [k for k, v in head.items() if isinstance(v, Sym) and '*' not in (v.ctype or '')]
        if len(ptrs) != 1 or len(cnts) != 1:
            rep.undecided('R18.3', base + ':shape', 'expected one scan pointer and one counter, found %s' % sorted(head), where=W)
            continue
        pv, nv = ptrs[0], cnts[0]
        p0, n0 = head[pv], head[nv]
        ie, xe = first(ctx, 'iter_end'), first(ctx, 'loop_exit')
        facts = {'path': ctx.trail}
        if n == 0:
            e_p = entry.get(pv)
            rep.ob('R18.3', base + ':count-starts-at-1', entry.get(nv) == 1 and isinstance(e_p, Sym) and e_p.name.endswith('current_file.contents'),
                   'error_at starts counting at %r from %r (expected 1 from the start of the current file)' % (entry.get(nv), e_p), where=W)
        n += 1
        if ie is not None:
            nl = isnl(ctx, Term('byte', p0))
            dn, dp = lsub(ie[1][nv], n0), lsub(ie[1][pv], p0)
            resid = lsub(dn, nl)
            inside = any(k[0] == 'term' and k[1] in ('<', '!=') and vkey(p0) in (k[2], k[3]) and ('sym', 'loc') in (k[2], k[3]) for k in ctx.facts)
            rep.ob('R18.3', base + ':count-per-newline/' + ('LF' if nl == 1 else ('other' if nl == 0 else 'unknown')),
                   isinstance(resid, int) and resid == 0 and isinstance(dp, int) and dp == 1 and inside,
                   'error_at: a byte before loc that %s a newline changes the count by %s (pointer step %s)' % ('is' if nl == 1 else ('is not' if nl == 0 else 'may be'), dn, dp), where=W, facts=facts)
        else:
            calls = [e for e in ctx.events if e[0] == 'call' and e[1] == 'verror_at']
            okc = len(calls) == 1 and len(calls[0][2]) >= 4 and same(calls[0][2][2], n0) and getattr(calls[0][2][3], 'name', None) == 'loc'
            rep.ob('R18.3', base + ':reports-the-count', bool(okc), 'error_at does not pass the counted line and loc to verror_at', where=W, facts=facts)
    if n < 3:
        rep.undecided('R18.3', base + ':liveness', 'only %d paths through error_at' % n, where=W)
