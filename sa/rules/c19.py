"""C19 Preprocessed output is a faithful program (DESIGN.md §3 C19).

Necessary conditions only: the separators recorded at tokenisation (at_bol /
has_space) are printed by print_tokens, recorded for every kind of white
space, survive copying, and are handed to the tokens that macro expansion
creates; plus the expansion boundaries (R19.3) and, R19.4, the printer's separation decision evaluated against
tokenize() itself on a complete table of pairs of token spellings (sa/lib_c19.py); R19.5: the pair predicate of the
printer is asked about the token written immediately before, at every position of the output; R19.6: the clauses of
C09 (R09.15/R09.18) on the white space around an invocation and of tokens that are merely passed on, re-issued;
R19.7: the -E text reads back as itself through the text phases of tokenize_file() (sa/lib_c19rb.py): texts the preprocessor
spells and tokenises itself (quoted strings, -D bodies) are fixed by them, and the phases are idempotent;
R19.8: the LINES of the -E text read back as the text they were (sa/lib_c19line.py): print_tokens on concrete token lists, its text
through tokenize_file()'s phases and tokenize() again - a `#` left by macro replacement never begins a line (it would be a
directive), a backslash token never ends one (it would be a splice), every other at_bol token keeps its line.
"""
from ..interp import NoReturn, Infeasible, NeedChoice, Ctx, Interp, Obj, Sym, View, Cell, Term, Arr, VarPlace, ElemPlace, _Ref, _Continue, _Break, _Return, is_opaque
from ..build import AnalysisBroken
from ..lib_c09 import PInterp, Agg, as_obj, chain, mk_tokens, mk_hideset, strip_ids, PARAM, OTHER, cls_of
from ..lib_c09x import (Desc, show, explore_expand, explore_subst, SubstPath, explore_subst_shared, explore_skip_arms, cut_new_token_flags,
                        creator_summaries, describe_flag, CREATORS, FRESH)
from ..lib_c19 import run_table, describe_pair, format_items, printer_helpers, STATUS
from .. import lib_c19rb as RB

PU = 'preprocess.c'
TU = 'tokenize.c'
MU = 'main.c'
FLAGS = ('at_bol', 'has_space')


def run(P, rep, tier):
    rep.explanation = ('Separator bookkeeping of the -E path, decided on every path of print_tokens, new_token, copy_token, expand_macro and '
                       'subst over abstract tokens, and on every white-space-skipping arm of tokenize(): the printer writes a newline/space '
                       'exactly where the token flags say so, every kind of white space (blank, newline, both comment forms) sets a flag, '
                       'copies keep the flags, and tokens created by expansion (first token of a replacement, of a substituted argument, '
                       'stringized and pasted tokens, dynamic-macro tokens) take the flags of the token they stand for. R19.3 records that '
                       'neither the printer nor the splices protect expansion boundaries. R19.5 follows which two tokens the printer\'s pair predicate is asked about '
                       '(the token being written and the one written just before it, on paths over three abstract tokens); R19.6 re-issues C09\'s rules on whose white space '
                       'an expansion takes (the macro name\'s, also when it expands to nothing) and on tokens that are passed on, collected or spliced unchanged. '
                       'R19.7 interprets tokenize_file() and the text producers of preprocess.c (new_str_token, define_macro) on concrete strings up to their call of tokenize(): '
                       'what the preprocessor spells itself must be left alone by line splicing / \\u decoding when the -E text is read again, and those phases must be idempotent. '
                       'R19.8 interprets print_tokens on concrete token lists and reads its text back through tokenize_file() and tokenize(): no token of the text comes back as the beginning of a directive, none is spliced away, tokens keep their lines. '
                       'Not decided: that no adjacent pair of spellings fuses.')
    rep.assumptions += ['tokenize() gives the first token of a buffer at_bol=true/has_space=false (checked on the empty buffer and by the fresh-token wiring obligations)',
                        'loops over token lists are analysed for 0..2 generic iterations (print_tokens: 0..3)', 'clang 14 typed AST']
    def part(rule, name, f):
        try:
            return f()
        except AnalysisBroken as e:
            rep.undecided(rule, '%s:analysis' % name, 'analysis could not proceed: %s' % e)
        return None

    protect = part('R19.1', 'main.c:print_tokens', lambda: r_printer(P, rep))
    if protect is None:
        protect = False     # only ever makes R19.3 stricter; the run is already undecided
    part('R19.4', 'main.c:print_tokens', lambda: r_separation(P, rep))
    part('R19.1', 'preprocess.c:join_adjacent_string_literals', lambda: r_join(P, rep))
    part('R19.2', 'tokenize.c:tokenize', lambda: r_tokenize(P, rep))
    part('R19.2', 'preprocess.c:copy_token', lambda: r_copy(P, rep))
    part('R19.2', 'preprocess.c:expand_macro', lambda: r_expand(P, rep, protect))
    part('R19.6', 'preprocess.c:expand_macro', lambda: r_invocation_white_space(P, rep))
    part('R19.2', 'preprocess.c:subst', lambda: r_subst(P, rep, protect))
    part('R19.2', 'preprocess.c:subst', lambda: r_subst_repeat(P, rep))
    part('R19.7', 'tokenize.c:tokenize_file', lambda: r_readback(P, rep))
    part('R19.8', 'main.c:print_tokens', lambda: r_lines(P, rep))


# ------------------------------------------------------------------------ lines ---
def r_lines(P, rep):
    """line structure of the -E text: no directive reaches print_tokens (preprocess2 consumes them), so every token it is
    given is TEXT.  Printed, passed through the text phases of tokenize_file() and tokenised again, the same spellings must
    come back, and none of them may come back as the beginning of a directive."""
    from ..lib_c19line import Lines, introducers
    rep.rule('R19.8', 'the lines of the -E text read back as the text they were: print_tokens interpreted on concrete token lists (kind, spelling and the two separator flags given; origin, hide set, file unconstrained), its output passed through the text phases of tokenize_file() and through tokenize(): (a) a token spelled like the directive introducer (what the is_hash() predicate of preprocess2 compares with; such a token can only come out of macro replacement - directives are consumed) never comes back as the first token of a line, at any position (first token of the output, first token of a later line, indented, inside a line); (b) the spellings come back unchanged when a lone backslash is the last token of a line or of the output (it must not splice the next line); (c) every other one-token spelling that is at_bol comes back as the first token of its own line and no other token does', floor=10)
    rep.assumptions += ['R19.8 is decided on concrete lists of up to five tokens, one per position class; the -E text is read back by chibicc itself (a # after blanks at the beginning of a line is a directive for it)']
    u = P.unit(MU)
    fn = 'print_tokens'
    where = '%s:%d' % (MU, u.fn(fn).line)
    L = Lines(P)
    intro = introducers(P)
    show_ = lambda b: b.decode('utf-8', 'replace')

    AC = Agg(rep)

    def run_case(rule_key, specs, check, msg):
        """check(back) -> None | text of what is wrong"""
        key = '%s:%s:%s' % (MU, fn, rule_key)
        try:
            outs = L.printed(specs)
            if not outs:
                rep.undecided('R19.8', key, 'print_tokens has no returning path on the concrete list %s' % ' '.join(show_(s[0]) for s in specs), where=where)
                return
            bad = None
            for text, trail in outs:
                if text is None:
                    rep.undecided('R19.8', key, 'an output call of print_tokens is not understood', where=where)
                    return
                back = L.read_back(text)
                w = 'the tokenizer rejects it (%s)' % back[1] if (back and back[0] == 'error') else check(back)
                if w:
                    bad = (text, w, trail)
                    break
        except (AnalysisBroken, Infeasible) as e:
            rep.undecided('R19.8', key, 'the list %s cannot be followed through print_tokens / tokenize_file / tokenize: %s' % (' '.join(show_(s[0]) for s in specs), e), where=where)
            return
        AC.ob('R19.8', key, bad is None, bad and (msg % {'text': repr(show_(bad[0])), 'why': bad[1]}), where,
              {'tokens (spelling, at_bol, has_space)': [(show_(s[0]), s[1], s[2]) for s in specs], 'paths': len(outs), 'path': bad[2][-6:] if bad else None})

    def spelled(specs):
        return [s[0] for s in specs]

    for h in intro:
        hn = 'hash' if h == b'#' else ''.join(c if c.isalnum() else '%02x' % ord(c) for c in show_(h))
        body = [(b'define', 0, 1), (b'X', 0, 1), (b'1', 0, 1)]
        cases = [('first-token-of-the-output', [(h, 1, 0)] + body + [(b'int', 1, 0), (b'X', 0, 1), (b';', 0, 0)]),
                 ('first-token-of-a-later-line', [(b';', 1, 0), (h, 1, 0)] + body),
                 ('first-token-of-a-later-line', [(b';', 1, 0), (h, 1, 1)] + body),        # (indented)
                 ('after-white-space-inside-a-line', [(b';', 1, 0), (h, 0, 1)] + body),
                 ('directly-after-a-token-inside-a-line', [(b';', 1, 0), (h, 0, 0)] + body)]
        for name, specs in cases:
            def check(back, specs=specs, h=h):
                if [b[0] for b in back] != spelled(specs):
                    return 'it reads back as the tokens %s' % ' '.join(show_(b[0]) for b in back)
                if any(sp == h and ab for sp, ab in back):
                    return '`%s` is the first token of its line again: the line is a directive now' % show_(h)
                return None
            run_case('text-%s-does-not-become-a-directive:%s' % (hn, name), specs, check,
                     'a `' + show_(h) + '` that came out of macro replacement (`#define H #` / `H define X 1`: text, not a directive - the compiler proper sees the tokens `# define X 1`) is written as %(text)s; read again, %(why)s (`int X;` after it becomes `int 1;`): the -E output is another program')
    bs = b'\\'
    try:
        L.kind_of(bs)
        has_bs = True
    except (AnalysisBroken, Infeasible):
        has_bs = False      # the tokenizer has no backslash token: nothing of the kind reaches the printer
    if has_bs:
        for name, specs in (('last-token-of-a-line', [(b'a', 1, 0), (bs, 0, 1), (b'b', 1, 0), (b';', 0, 0)]),
                            ('last-token-of-a-line', [(b'a', 1, 0), (b';', 0, 0), (bs, 0, 1)]),      # (the last line)
                            ('inside-a-line', [(b'a', 1, 0), (bs, 0, 1), (b'b', 0, 1)])):
            def check(back, specs=specs):
                if [b[0] for b in back] != spelled(specs):
                    return 'it reads back as the tokens %s' % (' '.join(show_(b[0]) for b in back) or '(nothing)')
                return None
            run_case('backslash-token-is-not-a-line-splice:%s' % name, specs, check,
                     'a lone backslash token (`a \\ <newline> b`: backslash, blank, newline - no splice in the source) is written as %(text)s; %(why)s: the backslash and the line end after it are spliced away when the -E text is read, the token is lost')
    else:
        for name in ('last-token-of-a-line', 'inside-a-line'):
            rep.ob('R19.8', '%s:%s:backslash-token-is-not-a-line-splice:%s' % (MU, fn, name), True, '', where=where, facts={'backslash': 'not a token of this tokenizer'})
    AC.flush()
    # (c) ordinary tokens keep their line
    group = L.sample_spellings()
    A = Agg(rep)
    n = 0
    for s, g in sorted(group.items()):
        if s in intro or s == bs:
            continue
        n += 1
        specs = [(b';', 1, 0), (s, 1, 0), (b'x', 0, 1), (s, 1, 1), (b'y', 0, 0) if g == 'punct' else (b'+', 0, 0)]
        key = '%s:%s:token-at_bol-keeps-its-line:%s' % (MU, fn, g)
        try:
            outs = L.printed(specs, max_paths=64)
            if not outs:
                rep.undecided('R19.8', key, 'print_tokens has no returning path on a concrete list', where=where)
                continue
            w = None
            for text, trail in outs:
                if text is None:
                    w = 'undecided'
                    break
                back = L.read_back(text)
                if back and back[0] == 'error':
                    continue        # (whether two spellings may touch is R19.4's table)
                want = [(x[0], x[1]) for x in specs]
                # the tokens that begin a line are the same tokens (counted by position among the tokens that came back)
                if [ab for _, ab in back] != [ab for _, ab in want] and len(back) == len(want):
                    w = 'the tokens `%s` (beginning of a line marked |: %s) are written as %r and come back as %s' % (
                        ' '.join(show_(x[0]) for x in specs), ' '.join(('|' if ab else '') + show_(sp) for sp, ab in want), show_(text), ' '.join(('|' if ab else '') + show_(sp) for sp, ab in back))
                    break
        except (AnalysisBroken, Infeasible) as e:
            rep.undecided('R19.8', key, 'a concrete list cannot be followed through print_tokens / tokenize_file / tokenize: %s' % e, where=where)
            continue
        if w == 'undecided':
            rep.undecided('R19.8', key, 'an output call of print_tokens is not understood', where=where)
            continue
        A.ob('R19.8', key, w is None, (w or '') + ': the line structure of the -E text is not that of the token list (a token that is not a directive introducer changes its line)', where, {'example': show_(s)})
    A.flush()
    if n < 20:
        rep.undecided('R19.8', '%s:%s:token-at_bol-keeps-its-line:table' % (MU, fn), 'only %d one-token spellings in the table' % n, where=where)


# -------------------------------------------------------------------- read-back ---
def r_readback(P, rep):
    """the -E text is compiled (or preprocessed) again through tokenize_file(), which rewrites the text before it is
    tokenised (line ends, line splicing, \\uXXXX).  Spellings that come from a source file have been rewritten once already;
    spellings the preprocessor makes itself (quoted strings for __FILE__ and #, -D bodies) have not.  Decided on concrete
    texts, by interpreting tokenize_file() and the text producers of preprocess.c up to their call of tokenize()."""
    rep.rule('R19.7', 'the -E text reads back as itself: (a) a text that a function of preprocess.c makes from a string it is given and tokenises itself (new_str_token: the quoted string of __FILE__/__BASE_FILE__/__TIMESTAMP__ and of the # operator; define_macro: the line `name body` of a -D definition) - whose spellings -E prints without their ever having passed the text phases of tokenize_file() - is left unchanged by those phases (line-end canonicalisation, line splicing, universal-character-name decoding), for strings that contain \\uXXXX / \\UXXXXXXXX, an escaped backslash followed by u/U and hex digits, or a quote; (b) the phases are idempotent: applied to their own result (the spelling of a token that came from a file, printed and read again) they change nothing', floor=18)
    rep.assumptions += ['R19.7 is decided on a table of concrete texts (one per kind of character sequence the text phases of tokenize_file look for), not for all texts; texts with line ends inside a -D body or a file name are not considered; universal character names below U+0080 are not in the table']
    rb = RB.ReadBack(P)
    tu, pu = P.unit(TU), P.unit(PU)
    wt = '%s:%d' % (TU, tu.fn('tokenize_file').line)
    show_ = lambda b: b.decode('utf-8', 'replace')
    # (b) idempotence
    for cls, x in RB.FILE_TEXTS:
        key = '%s:tokenize_file:text-phases-idempotent:%s' % (TU, cls)
        try:
            y = rb.phases(x)
            z = rb.phases(y)
        except (AnalysisBroken, Infeasible) as e:
            rep.undecided('R19.7', key, 'tokenize_file cannot be followed on the concrete text %r: %s' % (x, e), where=wt)
            continue
        rep.ob('R19.7', key, z == y,
               'the source text %r reaches the tokenizer as %r; -E prints these spellings, and when that output is read again tokenize_file turns them into %r: the -E output is not a fixed point and denotes other tokens than the compiler proper consumed' % (show_(x), show_(y), show_(z)),
               where=wt, facts={'text': show_(x), 'once': show_(y), 'twice': show_(z)})
    # (a) self-spelled texts
    pr = RB.Producer(P)
    prods = RB.producers(P)
    nsrc = 0
    for fname, idx in prods:
        wf = '%s:%d' % (PU, pu.fn(fname).line)
        flowing = []
        for i in idx:
            try:
                plain = pr.produced(fname, i, b'x+1')
            except (AnalysisBroken, Infeasible) as e:
                rep.undecided('R19.7', '%s:%s:tokenised-text-not-followed' % (PU, fname), '%s() cannot be followed up to its call of tokenize() on a concrete string: %s' % (fname, e), where=wf)
                flowing = None
                break
            if any(b'x+1' in t for t in plain):
                flowing.append(i)       # (a string parameter that is not part of what is tokenised - a file name - is no probe; define_macro's line is made of both of its strings)
        if not flowing:
            continue
        nsrc += 1
        for cls, raw in RB.RAW:
            key = '%s:%s:tokenised-text-reads-back-unchanged:%s' % (PU, fname, cls)
            try:
                texts = sorted(set(t for i in flowing for t in pr.produced(fname, i, raw)))
                line = lambda t: t if t.endswith(b'\n') else t + b'\n'       # (a text that is a whole line already - the line define_macro builds - is read back as that line)
                back = [(t, rb.phases(line(t))) for t in texts]
            except (AnalysisBroken, Infeasible) as e:
                rep.undecided('R19.7', key, 'the text %s() tokenises for the string %r, or what tokenize_file makes of it, cannot be followed: %s' % (fname, raw, e), where=wf)
                continue
            bad = [(t, b) for t, b in back if b != line(t)]
            rep.ob('R19.7', key, not bad,
                   '%s() tokenises the text %s for the string %s without the text phases of tokenize_file; -E prints that spelling, and tokenize_file reads it back as %s: the -E output denotes another token (another string value / identifier) than the one the compiler proper consumed, and preprocessing it again gives another text' % (
                       fname, bad and repr(show_(bad[0][0])), repr(show_(raw)), bad and repr(show_(bad[0][1].rstrip(b'\n')))),
                   where=wf, facts={'string': show_(raw), 'tokenised': [show_(t) for t in texts], 'read back as': [show_(b.rstrip(b'\n')) for _, b in back]})
    if nsrc < 2:
        rep.undecided('R19.7', '%s:text-producers' % PU, 'fewer than two functions of preprocess.c are seen to tokenise a text made from a string parameter (found: %s): the producers of self-spelled tokens (new_str_token, define_macro) are not recognised' % ', '.join(f for f, _ in prods), where=wt)


# ---------------------------------------------------------------------- printer ---
def _out_text(name, args):
    """what one stdio call writes: list of ('sep', text) / ('tok', len, loc) in output order, or None"""
    if name == 'fprintf' and len(args) >= 2 and isinstance(args[1], str):
        return format_items(args[1], args[2:])
    if name in ('fputs',) and args and isinstance(args[0], str):
        return [('sep', args[0])]
    if name in ('fputc', 'putc') and args and isinstance(args[0], int):
        return [('sep', chr(args[0]))]
    if name == 'fwrite' and len(args) == 4:
        return [('tok', args[2] if args[1] == 1 else args[1], args[0])]
    return None


def r_printer(P, rep):
    u = P.unit(MU)
    fn = 'print_tokens'
    if fn not in u.functions:
        raise AnalysisBroken('anchor %s vanished from %s' % (fn, MU))
    rep.rule('R19.1', 'print_tokens writes a newline before every token with at_bol (except the first), a space before a token with has_space, then exactly the token\'s spelling, and ends the output with a newline', floor=5)
    outs = ('fprintf', 'fputs', 'fputc', 'putc', 'fwrite')
    # helpers the printer consults (e.g. a predicate over two neighbouring tokens) stay opaque: their answer forks the path
    # ... namely the helpers that look at spellings (`->loc`); a helper that only redistributes the flag logic is followed
    helpers = printer_helpers(u, fn, outs)
    # ... among them the stream-status calls with which the printer ends (close_file: fflush/ferror/fclose): they write no text;
    # all their answers are explored (a reported failure ends in error()), and they are no question about tokens
    stream = ('open_file',) + STATUS
    it = PInterp(P, u, {'opaque': helpers, 'cut': {k: None for k in outs}, 'loop_limit': 3, 'track_stores': True})
    # predicates over a PAIR of tokens (two or more Token * parameters, and they read spellings): what the printer asks before it glues
    pairh = sorted(h for h in helpers if h in u.functions and sum(1 for q in u.params(h) if (q.type or '').replace(' ', '') == 'Token*') >= 2)
    rep.rule('R19.5', 'print_tokens consults its pair predicate about the right pair: whenever it asks a two-token predicate (may_fuse) about the token it is about to write, the other token of the question is the token whose spelling was written immediately before - at every position (first, second, later token of the output or of a line, after a spaced token) - and a token that carries neither at_bol nor has_space is written directly after its predecessor only on a path on which that question was asked', floor=2)
    npair = {'asked': 0, 'glued': 0}

    def mk(ctx):
        ctx.tok = Obj('Token', lazy=True, label='tok')
        return [ctx.tok]

    A = Agg(rep)
    where = '%s:%d' % (MU, u.fn(fn).line)
    protect = False
    try:
        from ..lib_c19line import introducers
        intro = [b.decode('latin-1') for b in introducers(P)]
    except AnalysisBroken:
        intro = []
    nseen = {'bol': 0, 'space': 0, 'text': 0}
    for ctx, out in it.explore(fn, mk):
        if out[0] != 'ret':
            continue
        toks, _ = chain(it, ctx.tok)
        facts = {'path': ctx.trail}
        pending = []
        i = 0
        bad = False
        evs = [e for e in ctx.events if e[0] == 'call' and e[1] in outs]
        items = []
        for e in evs:
            t = _out_text(e[1], e[2])
            if t is None:
                rep.undecided('R19.1', '%s:%s:output-call' % (MU, fn), 'output call %s%r not understood' % (e[1], tuple(e[2][1:])), where='%s:%d' % (MU, e[3]))
                bad = True
                break
            items += [(x, e) for x in t]
        for t, e in ([] if bad else items):
            if t[0] == 'sep':
                pending.append(t[1])
                continue
            if i >= len(toks):
                rep.undecided('R19.1', '%s:%s:token-order' % (MU, fn), 'more spellings written than tokens visited', where=where)
                bad = True
                break
            T = toks[i]
            lab = T.label
            nseen['text'] += 1
            A.ob('R19.1', '%s:%s:spelling-of-token' % (MU, fn), repr(t[1]) == lab + '.len' and repr(t[2]) == lab + '.loc',
                 'token %d is written as (%r, %r) instead of its own (len, loc): the output spells another token' % (i, t[1], t[2]), '%s:%d' % (MU, e[3]), facts)
            sep = ''.join(pending)
            pending = []
            ab = it.settle(T.fields['at_bol']) if 'at_bol' in T.fields else None
            hs = it.settle(T.fields['has_space']) if 'has_space' in T.fields else None
            ab_may = (ab != 0) if isinstance(ab, int) else True
            hs_may = (hs != 0) if isinstance(hs, int) else True
            ab_must = isinstance(ab, int) and ab != 0
            if i > 0 and ab_may:
                # some token consistent with this path is at the beginning of a line
                nseen['bol'] += 1
                # a printer that has asked about the SPELLING of this token (a helper that reads spellings, or a comparison of
                # its characters) may keep it on the previous line, after a blank: a `#` that macro replacement left must not
                # begin a line. Which spellings it does that for is decided on concrete lists by R19.8 (every spelling of the
                # tokenizer's table other than the directive introducer keeps its line).
                # (a comparison with a string constant counts only when the constant is the directive introducer; a helper of
                # the unit that reads the spelling itself is judged by R19.8's table)
                kept = '\n' not in sep and ' ' in sep and (
                    any(c[0] == 'call' and c[1] in helpers and c[1] not in stream and c[1] not in pairh and any(as_obj(it, a) is T for a in c[2])
                        and (c[1] in u.functions or any(isinstance(a, str) and a in intro for a in c[2])) for c in ctx.events)
                    or _spelling_constrained(it, u, ctx, (T,)))
                A.ob('R19.1', '%s:%s:newline-before-bol-token' % (MU, fn), '\n' in sep or kept,
                     'a token that starts a line (at_bol%s) is written without a preceding newline: directives and line structure of the -E output are lost, and the last token of the previous line can fuse with it' % ('' if ab_must else ' not even consulted'),
                     where, facts)
            if hs_may and not ab_must and i > 0:
                if True:
                    nseen['space'] += 1
                    okk = (' ' in sep) or ('\n' in sep)
                    A.ob('R19.1', '%s:%s:space-before-spaced-token' % (MU, fn), okk,
                         'a token preceded by white space in the source (has_space%s) is written directly after the previous token: `a + ++b` becomes `a +++b`' % ('' if isinstance(hs, int) else ' not even consulted'),
                         where, facts)
            if pairh:
                # R19.5: every question a pair predicate is asked about this token names the token written just before it
                asked_T = [c for c in ctx.events if c[0] == 'call' and c[1] in pairh and any(as_obj(it, a) is T for a in c[2])
                           and not any(as_obj(it, a) is x for a in c[2] for x in toks[i + 1:])]
                # (a question that also names a LATER token is asked when that one is written)
                for c in asked_T:
                    others = [as_obj(it, a) for a in c[2] if as_obj(it, a) is not T and (isinstance(as_obj(it, a), Obj) and as_obj(it, a).tname == 'Token' or isinstance(it.settle(a), int))]
                    npair['asked'] += 1
                    okp = i > 0 and bool(others) and all(o is toks[i - 1] for o in others)
                    A.ob('R19.5', '%s:%s:pair-predicate-is-asked-about-the-token-written-before' % (MU, fn), okp,
                         '%s() is asked about token %d of the output together with %s instead of token %d, the one written immediately before it: the decision to keep the two apart is taken for another pair (a stale or skipped predecessor - e.g. the first token of a line, a spaced token or the first token of the output is never remembered), so `-` at the beginning of a line followed by a macro that expands to `-i` is printed `--i`' % (
                             c[1], i, ', '.join(strip_ids(getattr(o, 'label', None) or repr(o)) for o in others) or 'no other token', i - 1), '%s:%d' % (MU, c[3]), facts)
                if i > 0 and isinstance(ab, int) and ab == 0 and isinstance(hs, int) and hs == 0 and not sep and not asked_T \
                        and _spelling_constrained(it, u, ctx, (toks[i - 1], T)):
                    pass    # the path itself has looked at the length/characters/kind of the two tokens: whether that suffices is R19.4's table
                elif i > 0 and isinstance(ab, int) and ab == 0 and isinstance(hs, int) and hs == 0 and not sep:
                    npair['glued'] += 1
                    A.ob('R19.5', '%s:%s:unflagged-token-glued-only-after-the-pair-predicate-was-asked' % (MU, fn),
                         any(any(as_obj(it, a) is toks[i - 1] for a in c[2]) for c in asked_T),
                         'token %d of the output has neither at_bol nor has_space and is written directly after token %d on a path on which %s was not asked about these two tokens (%s): at the seam of a macro expansion the two spellings fuse (`-` `-i` -> `--i`)' % (
                             i, i - 1, '/'.join(pairh), 'it was asked about another predecessor' if asked_T else 'no question was asked, e.g. because the remembered predecessor is still NULL'), where, facts)
            if i > 0 and isinstance(ab, int) and ab == 0 and isinstance(hs, int) and hs == 0 and sep:
                # the printer separates tokens for a reason other than their own flags: it counts as protection of expansion
                # boundaries when the reason is a question asked about this token AND its predecessor (their spellings)
                asked = [c for c in ctx.events if c[0] == 'call' and c[1] in helpers and c[1] not in stream
                         and any(as_obj(it, a) is T for a in c[2]) and any(as_obj(it, a) is toks[i - 1] for a in c[2])]
                if asked or not any(c[0] == 'call' and c[1] in helpers and c[1] not in stream for c in ctx.events):
                    protect = True
            i += 1
        if bad:
            continue
        A.ob('R19.1', '%s:%s:final-newline' % (MU, fn), ''.join(pending).endswith('\n'), 'the output does not end with a newline', where, facts)
        A.ob('R19.1', '%s:%s:all-tokens-written' % (MU, fn), i == len([t for t in toks if not _is_eof(it, u, t)]),
             '%d tokens visited before EOF but %d spellings written' % (len([t for t in toks if not _is_eof(it, u, t)]), i), where, facts)
    A.flush()
    for k, v in nseen.items():
        if v == 0:
            rep.undecided('R19.1', '%s:%s:no-%s-case' % (MU, fn, k), 'no explored path of print_tokens exercises the %s case' % k, where=where)
    if not pairh:
        # the printer asks no two-token predicate (it looks at flags only, or decides inline): R19.3 / R19.4 speak about that
        for k in ('pair-predicate-is-asked-about-the-token-written-before', 'unflagged-token-glued-only-after-the-pair-predicate-was-asked'):
            rep.ob('R19.5', '%s:%s:%s' % (MU, fn, k), True, '', where=where, facts={'pair predicates': 'none (decided by R19.3/R19.4)'})
    else:
        for k, v in npair.items():
            if v == 0:
                rep.undecided('R19.5', '%s:%s:no-%s-case' % (MU, fn, k), 'print_tokens calls the pair predicate(s) %s but no explored path shows the "%s" case' % ('/'.join(pairh), k), where=where)
    return protect


def _spelling_constrained(it, u, ctx, toks):
    """has this path compared the length, the characters or (beyond `is not EOF`) the kind of one of these tokens?"""
    keys = [repr(k) for k in list(ctx.bounds) + list(ctx.neq)]
    nk = len(set(v for k, v in u.enums.items() if k.startswith('TK_')))
    for t in toks:
        for f in ('len', 'loc'):
            lab = '%s.%s' % (t.label, f)
            if any(lab in k for k in keys):
                return True
        kv = t.fields.get('kind')
        if isinstance(kv, View) and len(kv.cell.cands) < nk - 1:
            return True
    return False


def r_separation(P, rep):
    """the separation decision of the printer against the tokenizer, on a complete table of token spellings: whenever
    tokenize() does not give back the two tokens A, B from their spellings written one after the other, print_tokens must
    write white space between them although B carries neither has_space nor at_bol - on every path, i.e. whatever the other
    fields of the two tokens (origin, hide set, file, position) are"""
    u = P.unit(MU)
    fn = 'print_tokens'
    if fn not in u.functions:
        raise AnalysisBroken('anchor %s vanished from %s' % (fn, MU))
    rep.rule('R19.4', 'for every pair of token spellings A, B (every punctuator of the tokenizer; one word, keyword, number, character/string literal per class of first and last character) that tokenize() does not read back as the tokens A, B when they are written without white space, print_tokens writes white space between them on every path, whatever the fields other than kind and spelling hold', floor=100)
    rep.assumptions += ['<ctype.h> classification is that of the "C" locale (glibc table layout: (*__ctype_b_loc())[c] & _ISxxx)',
                        'R19.4 looks at pairs of neighbouring tokens (three one-character tokens that only fuse together are not covered)',
                        'R19.4 is decided for an output stream that takes everything written to it: fflush/ferror/fclose report success (what the printer does after a write error is not analysed)']
    where = '%s:%d' % (MU, u.fn(fn).line)
    res, info = run_table(P)
    names = {}
    for k, v in u.enums.items():
        if k.startswith('TK_'):
            names.setdefault(v, k)
    A = Agg(rep)
    show_ = lambda b: b.decode('utf-8', 'replace')
    und = set()
    depends = {}
    for a, b, verdict, detail, ka in res:
        if verdict == 'undecided':
            key = '%s:%s:separation-not-followed' % (MU, fn)
            if key not in und:
                und.add(key)
                rep.undecided('R19.4', key, 'the decision of print_tokens on the pair `%s` `%s` cannot be followed: %s' % (show_(a), show_(b), detail), where=where)
            continue
        cls = describe_pair(info, names.get(ka, 'kind%r' % ka), a, b)
        key = '%s:%s:glue:%s' % (MU, fn, cls)
        if verdict == 'separated':
            A.ob('R19.4', key, True, '', where, {'example': '%s|%s' % (show_(a), show_(b)), 'glued text reads back as': detail[0]})
        elif verdict == 'depends':
            # the spellings alone make the printer separate the pair; whether it does also hangs on other fields: one obligation per set of fields
            how, trail, consulted, nmiss, npaths = detail
            A.ob('R19.4', key, True, '', where, {'example': '%s|%s' % (show_(a), show_(b)), 'glued text reads back as': how})
            fields = sorted(set(c.split('->')[-1] for c in consulted))
            depends.setdefault(tuple(fields), []).append((a, b, how, trail, consulted, nmiss, npaths))
        else:
            how, trail, consulted, nmiss, npaths = detail
            A.ob('R19.4', key, False,
                 'print_tokens writes `%s` directly after `%s` (%s, no white space between them in the source, e.g. at the seam of a macro expansion) on %d of %d paths%s, but tokenize() reads `%s%s` back as: %s - the -E output denotes other tokens than the ones the compiler proper consumed' % (
                     show_(b), show_(a), names.get(ka, ka), nmiss, npaths,
                     (' (the path depends on %s, which says nothing about the spellings)' % ', '.join(consulted)) if consulted and nmiss < npaths else '',
                     show_(a), show_(b), how),
                 where, {'example': '%s|%s' % (show_(a), show_(b)), 'path': trail, 'fields consulted': consulted})
    A.flush()
    if not depends:
        rep.ob('R19.4', '%s:%s:separation-depends-on:kind-and-spelling-only' % (MU, fn), True, '', where=where)
    for fields, lst in sorted(depends.items()):
        a, b, how, trail, consulted, nmiss, npaths = lst[0]
        rep.ob('R19.4', '%s:%s:separation-depends-on:%s' % (MU, fn, '-'.join(fields)), False,
               'whether print_tokens keeps apart two tokens whose spellings read back differently when glued depends on %s: for %d pair(s) of the table, e.g. `%s` `%s` (glued: %s), white space is written on some paths and omitted on %d of %d - but no field other than kind and spelling tells how the text will be read back: at the seams of macro expansions (replacement-list token | first token of a substituted argument, argument | argument, expansion | following text) tokens meet without white space whatever these fields hold' % (
                   ', '.join(consulted), len(lst), show_(a), show_(b), how, nmiss, npaths),
               where=where, facts={'path': trail, 'pairs': ['%s|%s' % (show_(x[0]), show_(x[1])) for x in lst[:12]]})
    rep.extra['R19.4 table'] = {'one-token spellings': info['spellings'], 'pairs': info['pairs'], 'pairs not read back': len(set((r[0], r[1]) for r in res)),
                                'kinds converted before printing': info['converted'], 'candidates that are not one token': info['dropped']}


def _is_eof(it, u, t):
    k = it.settle(t.fields.get('kind')) if 'kind' in t.fields else None
    return k == u.enums.get('TK_EOF')


def r_join(P, rep):
    """the list handed to print_tokens went through preprocess(); a pass that merges tokens without re-spelling them makes
    the printer drop text (adjacent string literals)"""
    J = 'join_adjacent_string_literals'
    pu = P.unit(PU)
    mu = P.unit(MU)
    if J not in pu.functions or 'preprocess' not in pu.functions:
        return
    # is the merged list the printed list?
    printed_is_preprocessed = None
    for fname, fd in mu.functions.items():
        for c in fd.calls('print_tokens'):
            a = c.args()[0].strip() if c.args() else None
            if a is None or a.kind != 'DeclRefExpr':
                continue
            srcs = [b for b in fd.walk() if b.kind == 'BinaryOperator' and b.opcode == '=' and b.inner[0].strip().kind == 'DeclRefExpr'
                    and b.inner[0].strip().ref_id == a.ref_id and b.line <= c.line]
            if srcs and srcs[-1].inner[1].strip().kind == 'CallExpr' and srcs[-1].inner[1].strip().callee() == 'preprocess':
                printed_is_preprocessed = (fname, c.line)
    calls = pu.fn('preprocess').calls(J)
    where = '%s:%d' % (PU, pu.fn(J).line)
    if printed_is_preprocessed and not calls:
        # the merging pass is run by the driver itself: it is harmless iff it runs only after the printing path has left
        pf = mu.fn(printed_is_preprocessed[0])
        body = next((c for c in pf.inner if c.kind == 'CompoundStmt'), None)
        top = body.inner if body is not None else []
        def top_index(call):
            return next((i for i, st_ in enumerate(top) if st_ is call or any(x is call for x in st_.walk())), None)
        jc = pf.calls(J)
        pc = pf.calls('print_tokens')
        if not jc:
            return      # nobody merges before printing (other callers are outside the -E path)
        ip = top_index(pc[0]) if pc else None
        ij = min((top_index(c) for c in jc if top_index(c) is not None), default=None)
        if ip is None or ij is None:
            rep.undecided('R19.1', '%s:%s:conditional' % (PU, J), 'the order of the string-literal merging pass and print_tokens in %s is not recognised' % printed_is_preprocessed[0], where=where)
            return
        pst = top[ip]
        leaves = False
        if pst.kind == 'IfStmt' and len(pst.inner) >= 2:
            th = pst.inner[1]
            last = th.inner[-1] if th.kind == 'CompoundStmt' and th.inner else th
            leaves = last.kind == 'ReturnStmt' or (last.kind == 'CallExpr' and last.callee() in ('exit', '_exit', 'abort'))
        if ij > ip and leaves:
            rep.ob('R19.1', '%s:%s:merged-literal-spelling' % (PU, J), True, '', where=where, facts={'merging pass': 'runs in %s:%s after the -E path has returned' % (MU, printed_is_preprocessed[0])})
            return
        if ij > ip:
            rep.undecided('R19.1', '%s:%s:conditional' % (PU, J), 'the merging pass follows print_tokens in %s but the printing path is not seen to leave the function' % printed_is_preprocessed[0], where=where)
            return
        calls = jc      # merged before printing: decide on the concrete list below
    if not printed_is_preprocessed or not calls:
        return
    cond = [a.kind for a in calls[0].ancestors() if a.kind in ('IfStmt', 'ConditionalOperator', 'ForStmt', 'WhileStmt', 'DoStmt', 'SwitchStmt')]
    if cond:
        rep.undecided('R19.1', '%s:%s:conditional' % (PU, J), 'the string-literal merging pass runs under a condition the rule does not evaluate', where=where)
        return
    E = pu.enums

    def ty(n):
        base = Obj('Type', lazy=False, fields={'size': 1, 'kind': 0})
        return Obj('Type', lazy=False, fields={'base': base, 'array_len': n, 'size': n})

    def tk(kind, loc, **kw):
        f = {'kind': kind, 'loc': loc, 'len': len(loc), 'next': 0, 'at_bol': 0, 'has_space': 1}
        f.update(kw)
        return Obj('Token', lazy=False, label=loc, fields=f)
    a = tk(E['TK_STR'], '"a"', ty=ty(2), str='a\0')
    b = tk(E['TK_STR'], '"bc"', ty=ty(3), str='bc\0')
    x = tk(E['TK_IDENT'], 'x')
    e = tk(E['TK_EOF'], '')
    a.fields['next'] = b; b.fields['next'] = x; x.fields['next'] = e

    def m_array_of(it, ctx, n, args):
        return Obj('Type', lazy=False, fields={'base': args[0], 'array_len': args[1], 'size': Sym('size')})
    it = PInterp(P, pu, {'models': {'array_of': m_array_of, 'memcpy': lambda it_, ctx, n, args: args[0]}, 'loop_limit': 0})
    try:
        paths = it.explore(J, lambda ctx: [a], max_paths=64)
    except AnalysisBroken as ex:
        rep.undecided('R19.1', '%s:%s:not-followed' % (PU, J), 'the merging pass cannot be followed on a concrete list: %s' % ex, where=where)
        return
    if len(paths) != 1 or paths[0][1][0] != 'ret':
        rep.undecided('R19.1', '%s:%s:not-followed' % (PU, J), 'the merging pass does not evaluate to one result on a concrete list', where=where)
        return
    lst, _ = chain(it, a)
    sp = []
    for t in lst:
        loc, ln = t.fields.get('loc'), t.fields.get('len')
        if not isinstance(loc, str) or not isinstance(ln, int):
            rep.undecided('R19.1', '%s:%s:not-followed' % (PU, J), 'spelling of a token after the merging pass is not concrete', where=where)
            return
        sp.append(loc[:ln])
    strs = ''.join(x_[1:-1] for x_ in sp if x_.startswith('"'))
    rest = [x_ for x_ in sp if not x_.startswith('"')]
    rep.ob('R19.1', '%s:%s:merged-literal-spelling' % (PU, J), strs == 'abc' and rest == ['x', ''],
           'preprocess() merges adjacent string literals by unlinking the later tokens while the surviving token keeps the spelling (loc,len) of the first piece, and %s:%s prints that list: `"a" "bc" x` is printed as `%s` - the -E output denotes another program (sizeof("a" "bc") becomes sizeof("a"))' % (
               MU, printed_is_preprocessed[0], ' '.join(x_ for x_ in sp if x_)), where=where, facts={'spellings after the pass': sp})


# --------------------------------------------------------------------- tokenize ---
def r_tokenize(P, rep):
    u = P.unit(TU)
    for f in ('tokenize', 'new_token'):
        if f not in u.functions:
            raise AnalysisBroken('anchor %s vanished from %s' % (f, TU))
    for g in FLAGS:
        if g not in u.globals:
            raise AnalysisBroken('the tokenizer no longer keeps the flag %s in a file-scope variable' % g)
    rep.rule('R19.2', 'separator flags propagate: new_token records and clears at_bol/has_space; every white-space-skipping arm of tokenize (blank, newline, // and /* */ comments) sets one of them and only the newline arm may touch at_bol; a buffer starts at_bol; copy_token copies everything but `next`; the first token of every expansion, of every substituted argument, and every stringized/pasted/dynamic token takes the white-space flag of the token it stands for - separately for every occurrence of a parameter that is used more than once -, other tokens keep theirs', floor=49)
    A = Agg(rep)
    # -- new_token
    it = PInterp(P, u, {'track_stores': True, 'globals': {'current_file': lambda ctx: Obj('File', lazy=True, label='current_file')}})
    gv = {}

    def mk(ctx):
        return [u.enums.get('TK_IDENT', 0), Sym('start', 'char *'), Sym('end', 'char *')]
    where = '%s:%d' % (TU, u.fn('new_token').line)
    n = 0
    for ctx, out in it.explore('new_token', mk):
        if out[0] != 'ret':
            continue
        n += 1
        t = as_obj(it, out[1])
        for f in FLAGS:
            v = t.fields.get(f) if isinstance(t, Obj) else None
            ok = isinstance(v, View) and v.tag == 'id' and v.cell.label == 'g:' + f
            A.ob('R19.2', '%s:new_token:records-%s' % (TU, f), ok,
                 'new_token does not store the tokenizer\'s %s flag into the token (stores %r): white space before the token is forgotten' % (f, v), where, {'path': ctx.trail})
            g = it.settle(ctx.globals.get(f))
            A.ob('R19.2', '%s:new_token:clears-%s' % (TU, f), isinstance(g, int) and g == 0,
                 'new_token leaves %s set (%r): the following token inherits a separator it does not have' % (f, g), where, {'path': ctx.trail})
    if n == 0:
        rep.undecided('R19.2', '%s:new_token:no-path' % TU, 'new_token has no returning path', where=where)
    # -- tokenize: buffer start
    fn = u.fn('tokenize')
    where = '%s:%d' % (TU, fn.line)

    cut_new_token = cut_new_token_flags

    it2 = PInterp(P, u, {'cut': {'new_token': cut_new_token}, 'opaque': ['add_line_numbers', 'convert_pp_tokens'], 'loop_limit': 0})

    def mk2(ctx):
        f = Obj('File', lazy=True, label='file')
        f.fields['contents'] = ''
        return [f]
    try:
        ps = it2.explore('tokenize', mk2, max_paths=64)
    except AnalysisBroken as e:
        ps = None
        rep.undecided('R19.2', '%s:tokenize:empty-buffer' % TU, 'tokenize cannot be followed on the empty buffer: %s' % e, where=where)
    if ps is not None:
        okp = [(c, o) for c, o in ps if o[0] == 'ret']
        if len(okp) != 1:
            rep.undecided('R19.2', '%s:tokenize:empty-buffer' % TU, 'tokenize has %d returning paths on the empty buffer' % len(okp), where=where)
        else:
            nt = [e for e in okp[0][0].events if e[0] == 'call' and e[1] == 'new_token']
            A.ob('R19.2', '%s:tokenize:buffer-starts-at-bol' % TU, len(nt) == 1 and nt[0][5][0] == 1 and nt[0][5][1] == 0,
                 'the first token of a buffer is created with (at_bol, has_space) = %r instead of (true, false): the first directive of a file is not recognised / the first token carries a stale flag' % (nt[0][5] if nt else None,), where)
    # -- tokenize: skip arms
    arms, problems = explore_skip_arms(P, u)
    for line, text in problems:
        rep.undecided('R19.2', '%s:tokenize:skip-arm-not-followed' % TU, 'a statement of the tokenizer loop cannot be followed: %s' % text, where='%s:%d' % (TU, line))
    nskip = {}
    for arm in arms:
        kind, init, (ab, hs) = arm['kind'], arm['init'], arm['final']
        facts = {'path': arm['trail'], 'initial (at_bol, has_space)': init, 'final': (ab, hs)}
        w = '%s:%d' % (TU, arm['line'])
        nskip[kind] = nskip.get(kind, 0) + 1
        if init == (0, 0):
            A.ob('R19.2', '%s:tokenize:%s-is-white-space' % (TU, kind), (isinstance(ab, int) and ab == 1) or (isinstance(hs, int) and hs == 1),
                 'input is skipped (%s) without recording a separator: the token after it is printed glued to the token before it (`a+/**/++b` -> `a+++b`)' % kind, w, facts)
            if kind == 'newline':
                A.ob('R19.2', '%s:tokenize:newline-sets-at_bol' % TU, isinstance(ab, int) and ab == 1,
                     'a newline is skipped without setting at_bol: directives on the next line are not recognised and -E joins the lines', w, facts)
            else:
                A.ob('R19.2', '%s:tokenize:%s-does-not-start-a-line' % (TU, kind), isinstance(ab, int) and ab == 0,
                     '%s sets at_bol although no newline was consumed: `#` after it would be taken for a directive' % kind, w, facts)
        elif init[0] == 1 and kind != 'newline':
            A.ob('R19.2', '%s:tokenize:%s-keeps-at_bol' % (TU, kind), isinstance(ab, int) and ab == 1,
                 '%s at the beginning of a line clears at_bol: an indented or commented `#directive` is no longer recognised' % kind, w, facts)
        elif init == (0, 1) and kind != 'newline':
            A.ob('R19.2', '%s:tokenize:%s-keeps-has_space' % (TU, kind), isinstance(hs, int) and hs == 1,
                 '%s after other white space clears has_space: `a /**/+b` is printed `a+b`' % kind, w, facts)
    # -- tokenize_string_literal: the re-encoded literal stands for the original token
    if 'tokenize_string_literal' in u.functions:
        it4 = PInterp(P, u, {'opaque': ['read_utf16_string_literal', 'read_utf32_string_literal'], 'track_stores': True})

        def mk4(ctx):
            ctx.tok = Obj('Token', lazy=True, label='tok')
            return [ctx.tok, Obj('Type', lazy=True, label='basety')]
        w4 = '%s:%d' % (TU, u.fn('tokenize_string_literal').line)
        for ctx, out in it4.explore('tokenize_string_literal', mk4):
            if out[0] != 'ret':
                continue
            t = as_obj(it4, out[1])
            if not isinstance(t, Obj):
                continue
            for f in FLAGS:
                v, sv = t.fields.get(f), ctx.tok.fields.get(f)
                A.ob('R19.2', '%s:tokenize_string_literal:converted-literal-%s' % (TU, f), _same_view(v, sv),
                     'a string literal re-encoded for concatenation with a wide literal does not keep %s of the original token: -E glues it to the previous token or moves it to another line' % f, w4, {'path': ctx.trail})
    A.flush()
    for k in ('blank', 'newline', 'line-comment', 'block-comment'):
        if not nskip.get(k):
            rep.undecided('R19.2', '%s:tokenize:no-%s-arm' % (TU, k), 'the %s-skipping arm of tokenize was not recognised' % k, where=where)


# ------------------------------------------------------------------- copy_token ---
def r_copy(P, rep):
    u = P.unit(PU)
    if 'copy_token' not in u.functions:
        raise AnalysisBroken('anchor copy_token vanished')
    it = PInterp(P, u, {})
    eof, ident = u.enums.get('TK_EOF'), u.enums.get('TK_IDENT')
    toks = mk_tokens([{'loc': 'x', 'at_bol': 1, 'has_space': 1, 'hideset': ['a']}, {'loc': 'y'}], eof, ident)
    src = toks[0]
    src.fields.update({'val': 7, 'line_no': 12, 'line_delta': 3, 'filename': 'f.c', 'origin': toks[1]})
    before = dict(src.fields)
    paths = it.explore('copy_token', lambda ctx: [src])
    where = '%s:%d' % (PU, u.fn('copy_token').line)
    if len(paths) != 1 or paths[0][1][0] != 'ret':
        rep.undecided('R19.2', '%s:copy_token:not-concrete' % PU, 'copy_token does not evaluate to one result', where=where)
        return
    c = as_obj(it, paths[0][1][1])
    if not isinstance(c, Obj):
        rep.undecided('R19.2', '%s:copy_token:not-concrete' % PU, 'copy_token returns %r' % (c,), where=where)
        return
    diff = sorted(f for f in before if f != 'next' and c.fields.get(f) is not before[f] and c.fields.get(f) != before[f])
    rep.ob('R19.2', '%s:copy_token:copies-%s' % (PU, 'all-fields' if not diff else '-'.join(diff)), not diff and c is not src,
           'copy_token does not copy field(s) %s (or returns the original): a copied token loses its separator flags / hide set / position' % diff, where=where)
    nx = it.settle(c.fields.get('next', 0))
    rep.ob('R19.2', '%s:copy_token:detached' % PU, isinstance(nx, int) and nx == 0 and src.fields.get('next') is toks[1],
           'copy_token leaves the copy linked into the source list (or unlinks the original)', where=where)


# ------------------------------------------------------------------ expand_macro ---
def _same_view(a, b):
    return isinstance(a, View) and isinstance(b, View) and a.cell is b.cell and a.tag == 'id' and b.tag == 'id'


def _flag_state(it, first, src, f):
    """how field f of token `first` relates to the same field of token `src`: 'inherited' | 'true' | 'false' | 'fresh' | 'own' | 'other'"""
    if f not in first.fields:
        return 'own'
    v = first.fields[f]
    sv = src.fields.get(f) if src is not None else None
    if sv is not None and _same_view(v, sv):
        return 'inherited'
    c = it.settle(v)
    if isinstance(c, int):
        return 'true' if c else 'false'
    return 'other'


def r_expand(P, rep, protect):
    u = P.unit(PU)
    fn = 'expand_macro'
    it, paths = explore_expand(P, u)
    where = '%s:%d' % (PU, u.fn(fn).line)
    rep.rule('R19.3', 'expansion boundaries: at every splice (object-like, function-like, dynamic macro, substituted argument) either the printer looks at the neighbouring spellings or the splice forces a separator on the first token of the replacement and on the first token after it', floor=8)
    A = Agg(rep)
    seen = set()
    for ctx, out, rest in paths:
        if out[0] != 'ret' or it.settle(out[1]) != 1:
            continue
        names = [e[1] for e in ctx.events if e[0] == 'call']
        kind = 'builtin' if any(e[0] == 'icall' for e in ctx.events) else ('funclike' if 'read_macro_args' in names else 'objlike')
        seen.add(kind)
        facts = {'path': ctx.trail}
        first = as_obj(it, rest) if not isinstance(rest, int) else None
        if not isinstance(first, Obj):
            rep.undecided('R19.2', '%s:%s:%s-result' % (PU, fn, kind), 'the token handed back through *rest is not followed', where=where)
            continue
        tok = ctx.tok
        st = {f: _flag_state(it, first, tok, f) for f in FLAGS}
        if kind == 'builtin' and not (first.meta.get('fresh') or first.meta.get('created')):
            rep.undecided('R19.2', '%s:%s:builtin-result' % (PU, fn), 'the dynamic macro token is not the handler result', where=where)
            continue
        if kind == 'builtin':
            # new_num_token and new_str_token may leave different constants: every handler's creator is a case of its own
            for f, (ph, per) in (first.meta.get('flag_choice') or {}).items():
                if first.fields.get(f) is ph:       # not overwritten by expand_macro afterwards
                    states = set()
                    for c, d in per:
                        v = FRESH[f] if d[0] == 'fresh' else (d[1] if d[0] == 'const' else None)
                        states.add('other' if v is None else ('true' if v else 'false'))
                    st[f] = next(x for x in ('other', 'false', 'true') if x in states)      # the least favourable case
            oth = sorted(f for f in FLAGS if st[f] == 'other')
            if oth:
                rep.undecided('R19.2', '%s:%s:builtin-created-token-flags' % (PU, fn), 'new_num_token/new_str_token write %s of the token they create from their template token (the macro token or the end of its origin chain); the rule cannot attribute that value' % '/'.join(oth), where=where)
                continue
        facts['first token flags'] = st
        A.ob('R19.2', '%s:%s:%s-first-token-has_space' % (PU, fn, kind), st['has_space'] == 'inherited',
             'the first token of a%s expansion does not take has_space of the macro token (it is %s): `x M` prints/stringizes as `xM...`%s' % (
                 {'builtin': ' dynamic macro', 'objlike': 'n object-like macro', 'funclike': ' function-like macro'}[kind],
                 {'own': 'whatever the replacement list had', 'false': 'always false (fresh tokenisation)', 'true': 'always true'}.get(st['has_space'], st['has_space']),
                 ' (XS(a __LINE__) gives "a4")' if kind == 'builtin' else ''), where, facts)
        A.ob('R19.2', '%s:%s:%s-first-token-at_bol' % (PU, fn, kind), st['at_bol'] in ('inherited', 'true'),
             'the first token of the expansion neither takes at_bol of the macro token nor starts a line (it is %s): a macro at the beginning of a line is glued to the previous line' % st['at_bol'], where, facts)
        # R19.3
        lead = protect or st['at_bol'] == 'true' or st['has_space'] == 'true'
        A.ob('R19.3', '%s:%s:%s-leading-boundary' % (PU, fn, kind), lead,
             'the first token of the replacement inherits "no white space" from the macro token and print_tokens looks only at the flags: `-N` with `#define N -1` is printed `--1` (the -E output lexes to other tokens)', where, facts)
        nxt = tok.fields.get('next') if kind != 'funclike' else None
        if kind == 'funclike':
            for e in ctx.events:
                if e[0] == 'call' and e[1] == 'read_macro_args' and isinstance(e[2][0], _Ref):
                    rp = it.settle(e[2][0].place.get(it))
                    nxt = rp.fields.get('next') if isinstance(rp, Obj) else None
        nobj = it.settle(nxt) if nxt is not None else None
        forced = False
        if isinstance(nobj, View):
            nobj = [c for c in nobj.cell.cands if isinstance(c, Obj)]
            nobj = nobj[0] if nobj else None
        if isinstance(nobj, Obj):
            forced = any(it.settle(nobj.fields.get(f)) == 1 for f in FLAGS if f in nobj.fields and not isinstance(it.settle(nobj.fields.get(f)), View))
        A.ob('R19.3', '%s:%s:%s-trailing-boundary' % (PU, fn, kind), protect or forced,
             'the token after the invocation keeps "no white space" and print_tokens looks only at the flags: `M-1` with `#define M -` is printed `--1`%s' % (' (`__LINE__.5` is printed `8.5`)' if kind == 'builtin' else ''), where, facts)
    A.flush()
    for k in ('objlike', 'funclike', 'builtin'):
        if k not in seen:
            rep.undecided('R19.2', '%s:%s:no-%s-path' % (PU, fn, k), 'no expanding path of kind %s found' % k, where=where)
    # fresh-token wiring: handlers, stringize and paste return tokenize(new_file(..)) tokens
    for f in ('new_num_token', 'new_str_token', 'paste', 'stringize', 'init_macros'):
        if f not in u.functions:
            raise AnalysisBroken('anchor %s vanished' % f)
    # (stringize may hand its text to new_str_token() or - like paste - spell the literal itself and tokenise it: both give the
    # first token of a fresh scratch buffer)
    for f, want in (('new_num_token', ('tokenize(',)), ('new_str_token', ('tokenize(',)), ('stringize', ('new_str_token(', 'tokenize(')), ('paste', ('tokenize(',))):
        # helpers that only build the text to be tokenised (char * results: join_tokens and its variants, quote_string) stay opaque
        texters = sorted(set(g for c in u.fn(f).walk() if c.kind == 'CallExpr' for g in [c.callee()]
                             if g and g in u.functions and g != f and (u.fn(g).type or '').split('(')[0].replace(' ', '') == 'char*'))
        itw = PInterp(P, u, {'opaque': (['tokenize', 'new_file', 'quote_string', 'join_tokens', 'new_str_token'] if f != 'new_str_token' else ['tokenize', 'new_file', 'quote_string']) + texters, 'cut': {'format': None}})
        params = u.params(f)
        def mkw(ctx, params=params):
            return [Obj('Token', lazy=True, label=p.name) if (p.type or '').replace(' ', '') == 'Token*' else Sym(p.name or 'a', p.type) for p in params]
        oks = []
        for ctx, out in itw.explore(f, mkw):
            if out[0] == 'ret':
                oks.append(show(Desc(itw, ctx).of(out[1])).startswith(want))
        if not oks:
            rep.undecided('R19.2', '%s:%s:no-return' % (PU, f), '%s has no returning path' % f, where='%s:%d' % (PU, u.fn(f).line))
        else:
            rep.ob('R19.2', '%s:%s:returns-fresh-tokenisation' % (PU, f), all(oks),
                   '%s no longer returns a token straight from %s..): the assumption "created tokens start with at_bol=true/has_space=false" does not hold' % (f, '..) / '.join(want)), where='%s:%d' % (PU, u.fn(f).line))
    # what the creators leave in the two flags of the token they return (the explorations of expand_macro and subst use exactly this)
    summ = creator_summaries(P, u)
    for f in CREATORS:
        for g in FLAGS:
            d = summ[f][g]
            if d[0] == 'other':
                rep.undecided('R19.2', '%s:%s:created-token-%s' % (PU, f, g), '%s writes %s of the token it creates with a value the rule cannot attribute (%s)' % (f, g, d[1]), where='%s:%d' % (PU, u.fn(f).line))
            else:
                rep.ob('R19.2', '%s:%s:created-token-%s' % (PU, f, g), True, '', where='%s:%d' % (PU, u.fn(f).line), facts={'flag': describe_flag(f, g, d)})
    hs = set()
    for c in u.fn('init_macros').calls('add_builtin'):
        a = c.args()
        r = a[1].strip() if len(a) > 1 else None
        if r is not None and r.kind == 'DeclRefExpr' and r.ref_kind == 'FunctionDecl':
            hs.add(r.ref_name)
    for h in sorted(hs):
        if h not in u.functions:
            continue
        ith = PInterp(P, u, {'opaque': ['new_num_token', 'new_str_token', 'stat', 'ctime_r'], 'loop_limit': 1})
        oks = []
        for ctx, out in ith.explore(h, lambda ctx: [Obj('Token', lazy=True, label='tmpl')]):
            if out[0] == 'ret':
                d = Desc(ith, ctx).of(out[1])
                oks.append(d[0] == 'call' and d[1] in ('new_num_token', 'new_str_token'))
        rep.ob('R19.2', '%s:%s:handler-returns-fresh-token' % (PU, h), bool(oks) and all(oks),
               'the dynamic macro handler %s does not return a new_num_token/new_str_token token' % h, where='%s:%d' % (PU, u.fn(h).line))


def r_invocation_white_space(P, rep):
    """whose white space an expansion takes, what it leaves in the tokens around the invocation, and that every token the
    preprocessor merely passes on, collects into an argument, copies or splices keeps the flag it was read with: the clauses
    of C09's R09.15 / R09.18 are clauses of the -E text too (print_tokens writes exactly these flags)"""
    from ..report import Report, reissue
    from . import c09
    u = P.unit(PU)
    rep.rule('R19.6', 'the white space -E writes is the white space of the source wherever macro replacement does not define another: the token an expansion hands back takes has_space of the macro NAME (not of the closing parenthesis or another token of the invocation); no other token of the replacement, of the invocation or after it has its has_space rewritten; when the invocation expands to nothing the token after it is given has_space exactly when the name was preceded by white space (or began a line) and its at_bol is never written; tokens passed through preprocess2, collected by read_macro_arg_one, copied by subst (other than the first token standing for a parameter) and spliced by append keep the flag they were read with', floor=12)
    where = '%s:%d' % (PU, u.fn('expand_macro').line) if 'expand_macro' in u.functions else None
    sub = Report('C09', rep.tier, rep.seed)

    def on_expand(name):
        f = getattr(c09, name, None)
        if f is None:
            raise AnalysisBroken('the rule function %s of C09 is no longer available' % name)
        it, paths = explore_expand(P, u, with_empty=True)
        f(P, u, sub, it, paths)

    def plain(name):
        f = getattr(c09, name, None)
        if f is None:
            raise AnalysisBroken('the rule function %s of C09 is no longer available' % name)
        f(P, u, sub)
    for name, call in (('_only_first_token_stamped', on_expand), ('_splice_flags', on_expand), ('_stream_keeps_has_space', plain),
                       ('_copies_keep_has_space', plain), ('r_arg_one', plain), ('r_hideset_prims', plain)):
        try:
            call(name)
        except AnalysisBroken as e:
            rep.undecided('R19.6', '%s:white-space-kept:%s' % (PU, name.strip('_').replace('_', '-')), 'analysis could not proceed: %s' % e, where=where)
    why = 'the -E output is written from these flags, so the printed text (and what a later # spells) has other white space than the program wrote: '
    n = reissue(rep, 'R19.6', sub, why, keep=lambda o: o['key'].split(':', 1)[0] in ('R09.15', 'R09.18'))
    if n == 0:
        rep.undecided('R19.6', '%s:expand_macro:no-obligation' % PU, 'the rules on the flags around an invocation produced no obligation', where=where)


# ------------------------------------------------------------------------ subst ---
def r_subst(P, rep, protect):
    u = P.unit(PU)
    fn = 'subst'
    it, paths, classes = explore_subst(P, u)
    A = Agg(rep)
    seen = {'arg-first': 0, 'arg-second': 0, 'stringized': 0, 'pasted': 0, 'paste-lhs-argument-first-token': 0, 'paste-empty-lhs-result': 0, 'pasted-token-for-parameter': 0}
    w0 = '%s:%d' % (PU, u.fn(fn).line)
    for ctx, out in paths:
        if out[0] != 'ret':
            continue
        sp = SubstPath(it, ctx)
        facts = {'path': ctx.trail}
        copies = {}
        for e in sp.calls:
            if e[1] == 'copy_token':
                copies.setdefault(id(e[2][0]), []).append(e[4])
        stores = [e for e in ctx.events if e[0] == 'fstore' and e[2] in FLAGS]
        for e in sp.calls:
            where = '%s:%d' % (PU, e[3])
            if e[1] == 'preprocess2':
                T = sp.owner(e[2][0])
                r0 = it.settle(e[4])
                if T is None or not isinstance(r0, Obj):
                    continue
                lst, _ = chain(it, r0)
                lst = [x for x in lst if not _eof(it, u, x)]
                if not lst:
                    continue
                for idx, src in enumerate(lst[:2]):
                    cs = copies.get(id(src), [])
                    if not cs:
                        continue
                    c = cs[0]
                    st = {f: _flag_state(it, c, T, f) for f in FLAGS}
                    if idx == 0:
                        seen['arg-first'] += 1
                        A.ob('R19.2', '%s:%s:argument-first-token-has_space' % (PU, fn), st['has_space'] == 'inherited',
                             'the first token of a substituted argument does not take has_space of the parameter token (it is %s): `f(x) a x` loses or invents the blank before the argument' % st['has_space'], where, facts)
                        A.ob('R19.2', '%s:%s:argument-first-token-at_bol' % (PU, fn), st['at_bol'] in ('inherited', 'true'),
                             'the first token of a substituted argument keeps its own at_bol (%s)' % st['at_bol'], where, facts)
                        A.ob('R19.3', '%s:%s:argument-leading-boundary' % (PU, fn), protect or st['at_bol'] == 'true' or st['has_space'] == 'true',
                             'the first token of a substituted argument inherits "no white space" from the parameter and print_tokens looks only at the flags: G(-1) with `#define G(x) -x` is printed `--1`', where, facts)
                        nx = sp.next_of(T)
                        ncs = copies.get(id(nx), []) if nx is not None else []
                        forced = any(_flag_state(it, c2, None, f) == 'true' for c2 in ncs for f in FLAGS)
                        A.ob('R19.3', '%s:%s:argument-trailing-boundary' % (PU, fn), protect or forced,
                             'the replacement-list token after a parameter keeps "no white space": H(-) with `#define H(x) x-1` is printed `--1`', where, facts)
                    else:
                        seen['arg-second'] += 1
                        touched = [s for s in stores if s[1] is c or s[1] is src]
                        # what counts is what the token carries when subst returns: a flag that is saved and written back
                        # around a struct assignment is not changed; a copy that a later ## overwrites with the pasted
                        # token is no longer the inner token (its flags are the pasted-token obligations' business)
                        if touched and any(p_[1] == 'paste' and p_[2] and as_obj(it, p_[2][0]) is c for p_ in sp.calls):
                            touched = [s for s in touched if s[1] is src]
                        if touched and not any(s[1] is src for s in touched) and all(_flag_state(it, c, src, f) in ('inherited', 'own') for f in FLAGS):
                            touched = []
                        A.ob('R19.2', '%s:%s:argument-inner-tokens-keep-flags' % (PU, fn), not touched,
                             'the %s flag of the parameter token is written into a token in the middle of a substituted argument: line breaks/blanks inside a multi-line argument are lost (`a +<newline>++b` -> `a +++b`) or invented' % (touched[0][2] if touched else ''), where, facts)
            elif e[1] == 'copy_token':
                o = e[2][0]
                c = e[4]
                src = None
                if id(o) in sp.raw and sp.raw[id(o)][1] == 0:
                    T = sp.raw[id(o)][0]
                    nx, pr = sp.next_of(T), sp.pred_of(T)
                    pp = sp.pred_of(pr) if pr is not None else None
                    if pr is not None and sp.cls(pr) == {'##'} and pp is not None and sp.cls(pp) == {PARAM}:
                        src, case = pp, 'paste-empty-lhs-result'        # `a ## b` with a empty: b's tokens stand where a stood
                    elif nx is not None and sp.cls(nx) == {'##'}:
                        src, case = T, 'paste-lhs-argument-first-token'
                elif id(o) in sp.body_ids:
                    pr = sp.pred_of(o)
                    pp = sp.pred_of(pr) if pr is not None else None
                    if pr is not None and sp.cls(pr) == {'##'} and pp is not None and sp.cls(pp) == {PARAM}:
                        src, case = pp, 'paste-empty-lhs-result'
                if src is not None:
                    seen[case] = seen.get(case, 0) + 1
                    hs = _flag_state(it, c, src, 'has_space')
                    ab = _flag_state(it, c, src, 'at_bol')
                    msg = {'paste-lhs-argument-first-token': 'the first token of an argument substituted as the left operand of ## keeps the white-space flag it had inside the invocation instead of the parameter\'s: `1 a##b` with C(y,z) stringizes as `1yz`',
                           'paste-empty-lhs-result': 'when the left operand of ## is an empty argument, the right operand is copied with its own white-space flag instead of the left parameter\'s: `1 a##b` with E(,z) stringizes as `1z`'}[case]
                    A.ob('R19.2', '%s:%s:%s-has_space' % (PU, fn, case), hs == 'inherited', msg + ' (flag is %s)' % hs, where, facts)
            elif e[1] == 'stringize':
                h = as_obj(it, e[2][0])
                z = e[4]
                if not isinstance(h, Obj) or not isinstance(z, Obj):
                    continue
                seen['stringized'] += 1
                st = {f: _flag_state(it, z, h, f) for f in FLAGS}
                A.ob('R19.2', '%s:%s:stringized-token-has_space' % (PU, fn), st['has_space'] == 'inherited',
                     'the string token made by # does not take has_space of the # token (it is %s): `1 #x` yields tokens that stringize as `1"b"` and -E breaks the line' % {'false': 'always false (fresh tokenisation)'}.get(st['has_space'], st['has_space']), where, facts)
                A.ob('R19.2', '%s:%s:stringized-token-at_bol' % (PU, fn), st['at_bol'] in ('inherited', 'true'), 'the string token made by # has at_bol %s' % st['at_bol'], where, facts)
            elif e[1] == 'paste':
                z = e[4]
                L = z.meta.get('lhs') if isinstance(z, Obj) else None
                bf = z.meta.get('lhs_flags') if isinstance(z, Obj) else None
                if L is None or bf is None:
                    continue
                seen['pasted'] += 1
                fin = L.fields.get('has_space')
                same = _same_view(fin, bf['has_space']) or (not isinstance(fin, View) and not isinstance(bf['has_space'], View) and fin == bf['has_space'] and not L.meta.get('fresh'))
                A.ob('R19.2', '%s:%s:pasted-token-has_space' % (PU, fn), same,
                     'the token made by ## does not keep has_space of its left operand (it becomes %r, fresh tokenisation): `1 a##b` yields tokens that stringize as `1ab` and -E breaks the line' % (it.settle(fin),), where, facts)
                fa = it.settle(L.fields.get('at_bol'))
                A.ob('R19.2', '%s:%s:pasted-token-at_bol' % (PU, fn), _same_view(L.fields.get('at_bol'), bf['at_bol']) or fa == 1,
                     'the token made by ## has at_bol %r' % (fa,), where, facts)
                # the pasted token may itself be the first token standing for a PARAMETER of the replacement list (the left
                # operand was the copy of a one-token argument): it is then the only carrier of the separator that the
                # parameter token had in the body, while the flags it was built from are those of the argument as written
                # inside the invocation
                srcL = z.meta.get('lhs_copy_of')
                if srcL is not None and id(srcL) in sp.raw and sp.raw[id(srcL)][1] == 0:
                    T = sp.raw[id(srcL)][0]
                    seen['pasted-token-for-parameter'] += 1
                    sts = {f: _flag_state(it, L, T, f) for f in FLAGS}
                    summ = z.meta.get('flag_summary') or {}
                    how = '; '.join('%s is %s' % (f, describe_flag('paste', f, summ.get(f, ('fresh',)))) for f in FLAGS)
                    A.ob('R19.2', '%s:%s:pasted-token-for-parameter-separator' % (PU, fn), sts['has_space'] == 'inherited' or sts['at_bol'] == 'true',
                         'the token pasted from a one-token argument (`x ## ...` with x a parameter that is not first in the replacement list) is written with neither the white space of the parameter token nor a line break: its at_bol is %s and its has_space is %s, i.e. the spacing the argument had inside the invocation (none after `(` or `,`) - `#define RET(n) return n##_val` / `RET(foo)` is printed `returnfoo_val` (in paste: %s)' % (
                             {'other': 'that of the argument token'}.get(sts['at_bol'], sts['at_bol']), {'other': 'that of the argument token'}.get(sts['has_space'], sts['has_space']), how), where, facts)
    A.flush()
    for k, v in seen.items():
        if v == 0:
            rep.undecided('R19.2', '%s:%s:no-%s-case' % (PU, fn, k), 'no explored path of subst shows the "%s" case' % k, where=w0)


def r_subst_repeat(P, rep):
    """input/output relation of subst on replacement lists in which the SAME parameter occurs repeatedly (`x ... x`, `#x ... #x`):
    every output token is attributed to the body token it stands for by position, and the token standing first for an
    occurrence must carry the flags of that occurrence - not those of an earlier one (shared caches, flags stamped once)."""
    u = P.unit(PU)
    fn = 'subst'
    rep.assumptions.append('a MacroArg is calloc\'ed by read_macro_args/read_macro_arg_one: members other than name/next/tok/is_va_args start as zero')
    it, paths = explore_subst_shared(P, u, ['#', PARAM, OTHER])
    A = Agg(rep)
    w0 = '%s:%d' % (PU, u.fn(fn).line)
    seen = {'parameter-occurrence-1': 0, 'parameter-occurrence-2': 0, 'stringized-occurrence-1': 0, 'stringized-occurrence-2': 0, 'plain-token': 0}
    for ctx, out in paths:
        if out[0] != 'ret':
            continue
        facts = {'path': ctx.trail}
        body = []
        for b in chain(it, ctx.body)[0]:
            if _eof(it, u, b):
                break
            body.append(b)
        if any(len(cls_of(b) or ()) != 1 for b in body):
            continue
        body_ids = set(id(b) for b in chain(it, ctx.body)[0])
        outl = [o for o in (chain(it, out[1])[0] if out[1] is not None else []) if id(o) not in body_ids]
        # expanded-argument lists
        pos = {}
        empty = False
        for k, e in enumerate(x for x in ctx.events if x[0] == 'call' and x[1] == 'preprocess2'):
            lst = [t for t in chain(it, e[4])[0]]
            if not lst or _eof(it, u, lst[0]):
                empty = True
            for i, t in enumerate(lst):
                if _eof(it, u, t):
                    break
                pos.setdefault(id(t), (k, i))
        if empty:
            continue        # an argument that expands to nothing leaves no token to attribute; the other paths cover the rule
        facts['replacement list'] = [sorted(cls_of(b))[0] for b in body]
        facts['output'] = [strip_ids(o.label or '?') for o in outl]
        j = 0
        i = 0
        npar = nstr = 0
        bad = None
        while i < len(body) and bad is None:
            b = body[i]
            c = sorted(cls_of(b))[0]
            if c == '#':
                nstr += 1
                if j >= len(outl) or i + 1 >= len(body):
                    bad = 'no output token for "# parameter" pair %d' % nstr
                    break
                z = outl[j]
                case = 'stringized-occurrence-%d' % min(nstr, 2)
                seen[case] += 1
                st = {f: _flag_state(it, z, b, f) for f in FLAGS}
                A.ob('R19.2', '%s:%s:%s-has_space' % (PU, fn, case), st['has_space'] == 'inherited' and z.meta.get('copy_of') is None,
                     'the token that stands for occurrence %d of `#x` in a replacement list using the same parameter repeatedly does not carry has_space of its own # token (it is %s): the spacing of another occurrence is printed' % (nstr, st['has_space']), w0, facts)
                j += 1
                i += 2
            elif c == PARAM:
                npar += 1
                case = 'parameter-occurrence-%d' % min(npar, 2)
                src = outl[j].meta.get('copy_of') if j < len(outl) else None
                if src is None or pos.get(id(src), (None, None))[1] != 0:
                    bad = 'occurrence %d of the parameter is not followed in the output by a copy of the first token of the macro-expanded argument' % npar
                    break
                z = outl[j]
                seen[case] += 1
                st = {f: _flag_state(it, z, b, f) for f in FLAGS}
                A.ob('R19.2', '%s:%s:%s-first-token-has_space' % (PU, fn, case), st['has_space'] == 'inherited',
                     'in a replacement list that uses the same parameter more than once, the first token substituted for occurrence %d does not carry has_space of THAT parameter token (it is %s, e.g. the flag of another occurrence or of a shared expanded list): `(x > y ? x - y : y - x)` with x = -3 prints `y --3`, `sizeof v` prints `sizeofword` - the -E output lexes to other tokens' % (npar, {'other': 'the flag of something else'}.get(st['has_space'], st['has_space'])), w0, facts)
                A.ob('R19.2', '%s:%s:%s-first-token-at_bol' % (PU, fn, case), st['at_bol'] in ('inherited', 'true'),
                     'the first token substituted for occurrence %d of a repeatedly used parameter does not carry at_bol of that parameter token (it is %s)' % (npar, st['at_bol']), w0, facts)
                k0, i0 = pos[id(src)]
                j += 1
                while j < len(outl) and outl[j].meta.get('copy_of') is not None and pos.get(id(outl[j].meta['copy_of'])) == (k0, i0 + 1):
                    i0 += 1
                    j += 1
                i += 1
            else:
                if j >= len(outl) or outl[j].meta.get('copy_of') is not b:
                    bad = 'an ordinary replacement-list token is not copied to the output in its position'
                    break
                seen['plain-token'] += 1
                stores = [e for e in ctx.events if e[0] == 'fstore' and e[2] in FLAGS and e[1] is outl[j]]
                A.ob('R19.2', '%s:%s:plain-token-keeps-flags' % (PU, fn), not stores and all(_flag_state(it, outl[j], b, f) in ('own', 'inherited') for f in FLAGS),
                     'an ordinary token of the replacement list is copied with changed separator flags', w0, facts)
                j += 1
                i += 1
        if bad is None and j != len(outl):
            bad = '%d output token(s) are not accounted for by the replacement list' % (len(outl) - j)
        if bad is not None:
            rep.undecided('R19.2', '%s:%s:repeated-parameter-shape' % (PU, fn), 'the output of subst cannot be attributed to the replacement list %s: %s' % (facts['replacement list'], bad), where=w0)
    A.flush()
    for k, v in seen.items():
        if v == 0:
            rep.undecided('R19.2', '%s:%s:no-%s-case' % (PU, fn, k), 'no explored path of subst over a replacement list with a repeated parameter shows the "%s" case' % k, where=w0)


def _eof(it, u, t):
    k = it.settle(t.fields.get('kind')) if 'kind' in t.fields else None
    return k == u.enums.get('TK_EOF')
