"""C20 Evaluation leaves no residue on the machine stack or the x87 stack (DESIGN.md §3 C20)."""
from ..interp import Obj, Sym, View, Lin
from ..chibi import CG, Trace, stack_effect, depth_delta, cat_of, linearise, flow_heights, apply_invariants, INT_CATS
from ..interp import Infeasible
from ..build import AnalysisBroken

U = 'codegen.c'

# typing relation of each expression kind (what add_type guarantees; proved by R01.2):
# children whose type equals the node's type share its cell.
SAME_ALL = ('ND_ADD', 'ND_SUB', 'ND_MUL', 'ND_DIV', 'ND_MOD', 'ND_BITAND', 'ND_BITOR', 'ND_BITXOR', 'ND_ASSIGN')
SAME_LHS = ('ND_NEG', 'ND_BITNOT', 'ND_SHL', 'ND_SHR')
INT_RESULT = ('ND_EQ', 'ND_NE', 'ND_LT', 'ND_LE', 'ND_NOT', 'ND_LOGAND', 'ND_LOGOR')
CMP = ('ND_EQ', 'ND_NE', 'ND_LT', 'ND_LE')
STMT_KINDS = ('ND_RETURN', 'ND_IF', 'ND_FOR', 'ND_DO', 'ND_SWITCH', 'ND_CASE', 'ND_BLOCK', 'ND_GOTO', 'ND_GOTO_EXPR', 'ND_LABEL', 'ND_EXPR_STMT', 'ND_ASM')


def preset(cg, kind):
    """abstract node of `kind` obeying the typing relation"""
    def mk(ctx):
        n = cg.node('node', kind)
        ty = cg.tcell('node.ty')
        if kind in SAME_ALL:
            n.fields['ty'] = ty
            n.fields['lhs'] = cg.node('lhs', ty=ty)
            n.fields['rhs'] = cg.node('rhs', ty=ty)
        elif kind in SAME_LHS:
            n.fields['ty'] = ty
            n.fields['lhs'] = cg.node('lhs', ty=ty)
            if kind in ('ND_SHL', 'ND_SHR'):
                n.fields['rhs'] = cg.node('rhs', ty=cg.tcell('rhs.ty', only=('bool', 'char', 'short', 'int', 'long', 'uchar', 'ushort', 'uint', 'ulong', 'enum')))
        elif kind in INT_RESULT:
            n.fields['ty'] = cg.tcell('node.ty', only=('int',))
            if kind in CMP:
                t2 = cg.tcell('lhs.ty')
                n.fields['lhs'] = cg.node('lhs', ty=t2)
                n.fields['rhs'] = cg.node('rhs', ty=t2)
            else:
                n.fields['lhs'] = cg.node('lhs')
                n.fields['rhs'] = cg.node('rhs')
        elif kind == 'ND_COND':
            n.fields['ty'] = ty
            n.fields['then'] = cg.node('then', ty=ty)
            n.fields['els'] = cg.node('els', ty=ty)
            n.fields['cond'] = cg.node('cond')
        elif kind == 'ND_COMMA':
            n.fields['ty'] = ty
            n.fields['lhs'] = cg.node('lhs')
            n.fields['rhs'] = cg.node('rhs', ty=ty)
        elif kind == 'ND_MEMBER':
            n.fields['ty'] = ty
            m = Obj('Member', lazy=True, label='member')
            m.fields['ty'] = ty
            n.fields['member'] = m
            n.fields['lhs'] = cg.node('lhs')
        elif kind == 'ND_VAR':
            n.fields['ty'] = ty
            v = Obj('Obj', lazy=True, label='var')
            v.fields['ty'] = ty
            n.fields['var'] = v
        elif kind == 'ND_DEREF':
            n.fields['ty'] = ty
            pt = cg.tcell('lhs.ty', only=('ptr', 'array'))
            n.fields['lhs'] = cg.node('lhs', ty=pt)
        elif kind == 'ND_ADDR':
            n.fields['ty'] = cg.tcell('node.ty', only=('ptr',))
            n.fields['lhs'] = cg.node('lhs')
        elif kind == 'ND_LABEL_VAL':
            n.fields['ty'] = cg.tcell('node.ty', only=('ptr',))
        elif kind == 'ND_NUM':
            n.fields['ty'] = cg.tcell('node.ty', only=('bool', 'char', 'short', 'int', 'long', 'uchar', 'ushort', 'uint', 'ulong', 'enum', 'float', 'double', 'ldouble', 'ptr'))
        elif kind == 'ND_CAS':
            n.fields['ty'] = cg.tcell('node.ty', only=('bool',))
            b = cg.tcell('obj', only=INT_CATS + ('ptr',))
            n.fields['cas_addr'] = cg.node('cas_addr', ty=cg.ptr_to(b, 'cas_addr.ty'))
            n.fields['cas_old'] = cg.node('cas_old', ty=cg.ptr_to(b, 'cas_old.ty'))
            n.fields['cas_new'] = cg.node('cas_new', ty=b)
        elif kind == 'ND_EXCH':
            b = cg.tcell('obj', only=INT_CATS + ('ptr',))
            n.fields['ty'] = b
            n.fields['lhs'] = cg.node('lhs', ty=cg.ptr_to(b, 'lhs.ty'))
            n.fields['rhs'] = cg.node('rhs', ty=b)
        elif kind == 'ND_STMT_EXPR':
            # typing relation (add_type): the body is non-empty, its last statement is an expression statement and
            # the node has that expression's type
            n.fields['ty'] = ty
            last = cg.node('body.last', 'ND_EXPR_STMT', lhs=cg.node('body.lhs', ty=ty), next=0)
            if ctx.choose(2, 'statement expression with one / several statements') == 0:
                n.fields['body'] = last
            else:
                n.fields['body'] = cg.node('body.first', next=last)
        elif kind in ('ND_MEMZERO', 'ND_NULL_EXPR'):
            n.fields['ty'] = cg.tcell('node.ty', only=('void', 'int'))
        elif kind == 'ND_VLA_PTR':
            n.fields['ty'] = cg.tcell('node.ty', only=('ptr', 'vla'))
        else:
            n.fields['ty'] = ty
        return n
    return mk


def classes(v):
    """type classes still possible for a type value: subset of {'ld','void','other'}"""
    cs = set()
    for c in cat_of(v):
        cs.add('ld' if c == 'ldouble' else ('void' if c == 'void' else 'other'))
    return cs


def child_ty(it, ctx, child):
    if isinstance(child, View):
        child = it.settle(child)
    if isinstance(child, Obj):
        t = child.fields.get('ty')
        if t is None:
            return None
        return it.settle(t) if isinstance(t, View) else t
    return None


_seen_depth = {}


def _lab(o):
    l = getattr(o, 'label', None) or '?'
    return l[5:] if l.startswith('node.') else l


def check_kind(cg, rep, rule, fname, kind, mk, ret_stmt=False, value_from_last_stmt=False):
    """explore one node kind; verify stack heights over the emitted code's own control flow for
    every type-class assignment of the node and its children"""
    it, res = cg.explore(fname, mk)
    nret = 0
    results = {}     # (ncls) -> {ldset: [ok, msg, facts]}
    where = '%s:%d' % (U, cg.cu.fn(fname).line)
    for ctx, out in res:
        if out[0] != 'ret':
            continue
        try:
            apply_invariants(it, ctx, ctx.root)
        except Infeasible:
            continue
        nret += 1
        tr = Trace(ctx)
        nodes = linearise(tr)
        root = ctx.root
        nty = root.fields.get('ty')
        nty = it.settle(nty) if isinstance(nty, View) else nty

        def cell_id(t):
            return id(t.cell) if isinstance(t, View) else id(t)
        kids = [n[2] for n in nodes if n[0] == 'pseudo' and n[1] == 'expr']
        kid_cell = {}
        cellcls = {}
        nid = cell_id(nty) if nty is not None else ('free', 'node')
        cellcls[nid] = classes(nty) if nty is not None else {'ld', 'void', 'other'}
        if fname != 'gen_expr':
            cellcls[nid] = {'other'}
        for k in kids:
            kt = child_ty(it, ctx, k)
            cid = cell_id(kt) if kt is not None else ('free', id(k))
            cs = classes(kt) if kt is not None else {'ld', 'void', 'other'}
            kid_cell[id(k)] = cid
            cellcls[cid] = (cellcls[cid] & cs) if cid in cellcls else cs
        ids = list(cellcls)

        def assigns(i, cur):
            if i == len(ids):
                yield dict(cur); return
            for c in sorted(cellcls[ids[i]]):
                cur[ids[i]] = c
                yield from assigns(i + 1, cur)
        # straight-line accounting identity: depth vs emitted rsp motion
        rsp_sum = 0
        sym_adj = False
        for n in nodes:
            if n[0] == 'ins':
                r, x, known = stack_effect(n[1])
                if isinstance(r, tuple):
                    sym_adj = True
                else:
                    rsp_sum += r
        dd = depth_delta(ctx)
        if not sym_adj:
            okd = isinstance(dd, int) and dd * -8 == rsp_sum
            dk = (fname, kind, okd)
            if dk in _seen_depth:
                _seen_depth[dk] += 1
            else:
              _seen_depth[dk] = 1
              rep.ob('R20.3', '%s:%s:%s:depth-tracks-rsp' % (U, fname, kind), okd,
                   'on a path of %s(%s) `depth` changes by %r slots but the emitted templates move %%rsp by %+d bytes' % (fname, kind, dd, rsp_sum),
                   where=where, facts={'trace': tr.text()})
        for a in assigns(0, {}):
            ncls = a[nid]
            def pe(n, a=a):
                if n[1] == 'expr':
                    return (0, 1 if a[kid_cell[id(n[2])]] == 'ld' else 0)
                return (0, 0)
            exits, ext, problems = flow_heights(nodes, pe)
            want = 1 if (fname == 'gen_expr' and ncls == 'ld') else 0
            msgs = []
            for p in problems:
                msgs.append(p)
            for h in exits:
                if h != (0, want):
                    msgs.append('falls through with %%rsp %+d bytes and x87 depth %+d (contract: +0, %+d)' % (h[0], h[1], want))
            for lab, h in ext:
                wx = 0
                if ret_stmt:
                    wx = h[1] if h[1] in (0, 1) else 0   # the return value may stay in %st(0)
                if h != (0, wx):
                    msgs.append('jumps to %s with %%rsp %+d bytes and x87 depth %+d pending' % (lab, h[0], h[1]))
            ld = frozenset(_lab(k) for k in kids if a[kid_cell[id(k)]] == 'ld')
            r = results.setdefault(ncls, {})
            cur = r.get(ld)
            if cur is None or (cur[0] and msgs):
                r[ld] = [not msgs, '; '.join(sorted(set(msgs))), {'path': ctx.trail[-8:], 'trace': tr.text()}]
    for ncls, r in sorted(results.items()):
        fails = {ld: v for ld, v in r.items() if not v[0]}
        minimal = [ld for ld in fails if not any(o < ld for o in fails)]
        base = '%s:%s:%s/node=%s' % (U, fname, kind, ncls if fname == 'gen_expr' else '-')
        if not fails:
            rep.ob(rule, base, True, '', where=where)
        for ld in sorted(minimal, key=lambda x: sorted(x)):
            key = base + ('/ld=' + ','.join(sorted(ld)) if ld else '')
            rep.ob(rule, key, False,
                   '%s of %s (node type class %s%s): %s' % (fname, kind, ncls, (', long double operand(s): ' + ','.join(sorted(ld))) if ld else '', fails[ld][1]),
                   where=where, facts=fails[ld][2])
    return nret


def run(P, rep, tier):
    cg = CG(P)
    rep.explanation = ('Effect system over the code generator: gen_expr/gen_stmt are abstractly interpreted once per node kind on an abstract '
                       'node obeying the typing relation; recursive calls are replaced by the contract being proved (machine stack 0, x87 +1 iff long double), '
                       'so the per-kind result composes by structural induction to all programs. %rsp and x87 motion of every emitted template is summed per path.')
    rep.assumptions += ['children satisfy the contract (induction hypothesis)', 'typing relation of each kind as produced by add_type (R01.2)',
                        'instruction stack effects per Intel SDM for the mnemonics chibicc emits', 'ND_FUNCALL argument lists analysed separately (R20.3 call-site rule)']
    rep.rule('R20.1', 'every gen_expr arm: machine-stack effect 0 and x87 effect +1 iff the node is long double, assuming the same of its children', floor=60)
    rep.rule('R20.2', 'every gen_stmt arm: machine-stack effect 0 and x87 effect 0 (return: value left for the epilogue)', floor=12)
    rep.rule('R20.3', '`depth` bookkeeping equals emitted %rsp motion on every path', floor=40)
    # hook: remember root in ctx
    orig_explore = cg.explore
    def explore(fname, make_node, **kw):
        def mk2(ctx):
            n = make_node(ctx)
            ctx.root = n
            return n
        return orig_explore(fname, mk2, **kw)
    cg.explore = explore
    handled = expr_kinds_handled(cg)
    if len(handled) < 30:
        raise AnalysisBroken('gen_expr: only %d node kinds recognised in its switches' % len(handled))
    for kind in cg.node_kinds:
        if kind in STMT_KINDS or kind not in handled or kind == 'ND_FUNCALL':
            continue
        n = check_kind(cg, rep, 'R20.1', 'gen_expr', kind, preset(cg, kind), value_from_last_stmt=(kind == 'ND_STMT_EXPR'))
        if n == 0:
            rep.undecided('R20.1', '%s:gen_expr:%s' % (U, kind), 'no returning path for a kind gen_expr has an arm for')
    r_calls(cg, P, rep, tier)
    rep.rule('R20.7', 'every gen_addr arm: machine-stack effect 0 and x87 effect 0 (an address is left in %rax only), assuming the contract of its children; an operand evaluated only for its side effects is discarded there as well', floor=5)
    ahandled = expr_kinds_handled(cg, 'gen_addr')
    if len(ahandled) < 4:
        raise AnalysisBroken('gen_addr: only %d node kinds recognised in its switch' % len(ahandled))
    for kind in cg.node_kinds:
        if kind not in ahandled or kind == 'ND_FUNCALL':      # gen_addr of a call is gen_expr of the call: R20.5
            continue
        n = check_kind(cg, rep, 'R20.7', 'gen_addr', kind, preset(cg, kind))
        if n == 0:
            rep.undecided('R20.7', '%s:gen_addr:%s' % (U, kind), 'no returning path for a kind gen_addr has an arm for')
    from ..lib_types import r_atomic_builtin_operands
    rep.rule('R20.8', 'typing relation the per-kind effect rules rely on for the atomic builtins: add_type converts the value operand of ND_EXCH / ND_CAS to the type of the atomic object for every arithmetic operand type, so no long double operand stays on the x87 stack and no floating operand in %xmm0', floor=200)
    r_atomic_builtin_operands(P, rep, 'R20.8')
    from .c04 import r_alloca
    rep.rule('R20.6', 'alloca moves every pending pushed temporary down with %rsp (full byte count, same distance), so later pops read what was pushed', floor=5)
    r_alloca(cg, rep, rule='R20.6')
    for kind in STMT_KINDS:
        n = check_kind(cg, rep, 'R20.2', 'gen_stmt', kind, preset_stmt(cg, kind), ret_stmt=(kind == 'ND_RETURN'))
        if n == 0:
            rep.undecided('R20.2', '%s:gen_stmt:%s' % (U, kind), 'no returning path')


def r_calls(cg, P, rep, tier):
    """ND_FUNCALL is analysed on concrete calls (argument lists make the per-kind exploration explode):
    for each argument class at each stack parity the stack pushed for the call is released after it."""
    from ..lib_abi import Builder
    from .c06 import run_caller, run_return, ret_locs
    from ..x86 import Unknown
    rep.rule('R20.5', 'call expressions: everything pushed for a call (arguments, alignment padding, long double slots) is released after it, and `depth` returns to its value before the call, for every argument class and stack parity; a result of class X87 (long double, or an aggregate that is one long double) is taken from %st(0) by the caller exactly when the callee left it there, also when the value of the call is discarded', floor=60)
    B = Builder(P)
    where = '%s:%d' % (U, cg.cu.fn('push_args').line if cg.cu.fn('push_args') else 0)
    sigs = [[], ['int'], ['double'], ['ldouble'], ['s_ld'], ['s_l3'], ['long'] * 7, ['long'] * 8, ['double'] * 9, ['double'] * 10,
            ['long'] * 7 + ['ldouble'], ['long'] * 6 + ['ldouble'], ['double'] * 9 + ['ldouble'], ['long'] * 7 + ['s_l3'], ['long'] * 6 + ['s_ll'],
            ['ldouble', 'ldouble'], ['long'] * 7 + ['ldouble', 'int'], ['s_l3', 'ldouble', 'long', 'long', 'long', 'long', 'long', 'long', 'long']]
    for ret in ('int', 'ldouble', 's_ll', 's_l3'):
        for types in sigs:
            for depth0 in (0, 1):
                _call(cg, B, rep, types, ret, depth0, 'gen_expr', where)
    # every return class of an aggregate (INTEGER/SSE registers, X87 = %st(0), MEMORY), as an operand and as a discarded value
    agg = ('s_ll', 's_dd', 's_ld', 's_L', 's_Le', 'u_Ll', 'u_Ld', 's_l3')
    for ret in ('int', 'double', 'ldouble') + agg:
        for entry in ('gen_expr', 'gen_discard'):
            if entry == 'gen_discard' and not cg.cu.fn('gen_discard'):
                continue
            if entry == 'gen_expr' and ret in ('int', 'ldouble', 's_ll', 's_l3'):
                continue
            _call(cg, B, rep, ['int'], ret, 0, entry, where)
    # callee side: `return v;` of every aggregate return class leaves on the x87 stack exactly what the caller takes from it
    for t in agg:
        key = '%s:ND_RETURN:returns-%s:x87' % (U, t)
        try:
            tr, s2 = run_return(cg, B, t)
        except Unknown as e:
            rep.undecided('R20.5', key, str(e), where=where); continue
        want = 1 if ret_locs(t) == 'X87' else 0
        rep.ob('R20.5', key, len(s2.st) == want and len(s2.stack) == 0,
               'returning an aggregate of type %s leaves %d value(s) on the x87 stack at the epilogue (the caller takes %d from it: psABI class %s) and %d pushed slot(s)' % (t, len(s2.st), want, ret_locs(t) if isinstance(ret_locs(t), str) else 'INTEGER/SSE', len(s2.stack)),
               where=where, facts={'trace': tr.text()[-12:]})


def _call(cg, B, rep, types, ret, depth0, entry, where):
    from .c06 import run_caller
    from ..x86 import Unknown
    key = '%s:ND_FUNCALL:(%s)->%s/depth%d' % (U, ','.join(types), ret, depth0)
    if entry != 'gen_expr':
        key += '/discarded'
    try:
        ctx, tr, s = run_caller(cg, B, types, ret, depth0, entry=entry)
    except Unknown as e:
        rep.undecided('R20.5', key, str(e), where=where); return
    dd = ctx.globals.get('depth')
    ok = len(s.stack) == 0 and dd == depth0
    rep.ob('R20.5', key, ok, 'after the call %d pushed slot(s) are still on the stack and `depth` is %r (was %d): each evaluation of this call leaks stack' % (len(s.stack), dd, depth0), where=where, facts={'trace': tr.text()[-12:]})
    want87 = 1 if (ret == 'ldouble' and entry == 'gen_expr') else 0
    # x87: a long double / class X87 result is left in st0 by the callee (('retst', n) in the machine); every argument must have been popped,
    # and the result must be gone unless it is the value of the expression
    left = [x for x in s.st if not (isinstance(x, tuple) and x[0] == 'retst')]
    nres = len(s.st) - len(left)
    rep.ob('R20.5', key + ':x87', not left and nres == want87, 'after the call %d long double argument value(s) are still on the x87 stack and %d result value(s) (expected %d)' % (len(left), nres, want87), where=where)


def expr_kinds_handled(cg, fname='gen_expr'):
    """node kinds for which gen_expr (or gen_addr) has a case label (recovered from its switches)"""
    ks = set()
    fn = cg.cu.fn(fname)
    val2name = {cg.E[k]: k for k in cg.node_kinds}
    for n in fn.walk():
        if n.kind == 'CaseStmt':
            try:
                v = None
                for x in n.inner[0].walk():
                    if x.kind == 'ConstantExpr' and x.value is not None:
                        v = int(x.value); break
                if v is None:
                    v = n.inner[0].int_value()
            except Exception:
                v = None
            sw = n.enclosing('SwitchStmt')
            if sw is not None and 'kind' in sw.inner[0].src() and 'ty' not in sw.inner[0].src() and v in val2name:
                ks.add(val2name[v])
    return ks


def preset_stmt(cg, kind):
    SCALAR = INT_CATS + ('float', 'double', 'ldouble', 'ptr')
    def mk(ctx):
        n = cg.node('node', kind)
        if kind == 'ND_SWITCH':
            n.fields['cond'] = cg.node('cond', ty=cg.tcell('cond.ty', only=INT_CATS))
        elif kind in ('ND_IF', 'ND_FOR', 'ND_DO'):
            pass   # condition: any scalar type, created lazily
        elif kind == 'ND_GOTO_EXPR':
            n.fields['lhs'] = cg.node('lhs', ty=cg.tcell('lhs.ty', only=('ptr',)))
        elif kind == 'ND_RETURN':
            # the operand has the function's return type; aggregates with a few concrete sizes
            t = cg.tcell('lhs.ty', only=SCALAR + ('struct', 'union'), agg_sizes=(4, 8, 12, 16, 24))
            lhs = cg.node('lhs', ty=t)
            from ..interp import Cell
            n.fields['lhs'] = View(Cell([0, lhs], 'node.lhs'))
            fty = Obj('Type', lazy=True, label='fnty'); fty.fields['return_ty'] = t
            hp = Obj('Obj', lazy=True, label='hidden-param'); hp.fields['offset'] = Sym('hidden.offset', 'int')
            fn = Obj('Obj', lazy=True, label='current_fn'); fn.fields['ty'] = fty; fn.fields['params'] = hp; fn.fields['name'] = 'f'
            ctx.globals['current_fn'] = fn
        return n
    return mk
